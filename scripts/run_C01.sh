#!/bin/bash
exec /verif/scripts/run_fuzzed.sh C01 "$@"
