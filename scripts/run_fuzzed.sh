#!/bin/bash
# Runner for the properties that also have a coverage-guided fuzz target.
#   quick:    vcheck (generated cases + replay of the committed corpus)
#   thorough: a libFuzzer campaign on the property's target first (scripts/fuzz.sh),
#             then vcheck, which folds the campaign's statistics into the evidence
#             and re-judges every failure the campaign reported.
# usage: run_fuzzed.sh <ID> <quick|thorough> [--replay FILE]
set -u
ID=$1
shift
TIER=${1:-quick}
case "$ID" in
C14) TARGET=fz_name ;;
C15) TARGET=fz_reader ;;
C24) TARGET=fz_zonefile ;;
*) TARGET=fz_server ;;
esac
if [ "$TIER" = thorough ] && [ "${2:-}" != "--replay" ]; then
    /verif/scripts/fuzz.sh run "$TARGET" "${FUZZ_SECS:-120}" || exit 2
    if [ "$ID" = C14 ]; then
        # the unsafe name code under Miri on generated inputs (result folded into the evidence by vcheck)
        rm -f /verif/.work/miri-names.json
        /verif/scripts/miri_names.sh >/dev/null 2>&1
        [ $? -eq 2 ] && exit 2
    fi
fi
exec /verif/.target/debug/vcheck "$ID" "$@"
