#!/bin/bash
# Builds quandaryd from /repo's working tree into /verif/.target-daemon.
set -u
VERIF=/verif
export CARGO_NET_OFFLINE=true
unset CARGO_TARGET_DIR
export CARGO_TERM_COLOR=never
mkdir -p "$VERIF/.target-daemon"
log=$VERIF/.target-daemon/build.log
(
    flock 9
    cargo build --offline --manifest-path /repo/Cargo.toml --bin quandaryd --features tokio --target-dir "$VERIF/.target-daemon" >"$log" 2>&1
) 9>"$VERIF/.target-daemon/.build.lock"
if [ $? -ne 0 ]; then
    echo "INFRA: building quandaryd failed (see $log)" >&2
    grep -E "^error" -A8 "$log" | head -40 >&2
    exit 2
fi
exit 0
