#!/bin/bash
# C16: the thorough tier additionally runs the name code under Miri (scripts/miri_names.sh);
# vcheck folds the result into the evidence.
TIER=${1:-quick}
if [ "$TIER" = thorough ] && [ "${2:-}" != "--replay" ]; then
    rm -f /verif/.work/miri-names.json
    /verif/scripts/miri_names.sh >/dev/null 2>&1
    [ $? -eq 2 ] && exit 2
fi
exec /verif/.target/debug/vcheck C16 "$@"
