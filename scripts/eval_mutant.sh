#!/bin/bash
# Confirms a seeded change produced by a sub-agent and runs the checks against it.
#
#   scripts/eval_mutant.sh <ID> <source-dir> [check ids to run, default: <ID>]
#
# <source-dir> holds patch.diff, a demonstration (demo_test.rs or demo.sh) and meta.json.
# 1. fresh scratch worktree of /repo's HEAD under /tmp: the patch applies, the
#    project builds (also with --features tokio), the existing suite passes,
#    the demonstration fails with the patch and passes without it;
# 2. the patch is applied to /repo, the listed checks' quick tiers run, and the
#    patch is undone straight afterwards (git checkout);
# 3. everything is recorded in /verif/seeded/<name>/ (name = basename of source-dir's parent or given via NAME=).
# Nothing else may use /repo while step 2 runs.
set -u
ID=$1
SRC=$2
shift 2
CHECKS=${*:-$ID}
NAME=${NAME:-$ID}
OUT=/verif/seeded/$NAME
W=/tmp/qv-$NAME
export CARGO_NET_OFFLINE=true CARGO_TERM_COLOR=never
export CARGO_TARGET_DIR=${MUT_TARGET:-/tmp/qv-target}

# PHASE=confirm: step 1 only (several may run in parallel with different MUT_TARGET directories);
# PHASE=checks: steps 2 and 3 for a change confirmed earlier; default: everything.
PHASE=${PHASE:-all}
[ -f "$SRC/patch.diff" ] || { echo "no patch.diff in $SRC"; exit 2; }
mkdir -p "$OUT"
LOG=$OUT/confirm.log
say() { echo "$*" | tee -a "$LOG"; }
if [ "$PHASE" != checks ]; then
: >"$LOG"

git -C /repo worktree remove --force "$W" >/dev/null 2>&1
rm -rf "$W"
git -C /repo worktree add -q --detach "$W" HEAD || exit 2
cleanup() { git -C /repo worktree remove --force "$W" >/dev/null 2>&1; rm -rf "$W"; }
trap cleanup EXIT

cd "$W" || exit 2
if ! git apply "$SRC/patch.diff" 2>>"$LOG"; then
    say "RESULT patch does not apply"
    exit 1
fi
say "== build (default and tokio)"
cargo build --offline >>"$LOG" 2>&1 && cargo build --offline --features tokio >>"$LOG" 2>&1
BUILD=$?
say "build rc=$BUILD"
say "== existing suite with the patch"
cargo test --workspace --no-fail-fast --offline >"$OUT/suite.log" 2>&1
SUITE=$?
grep -E "^test result" "$OUT/suite.log" | tee -a "$LOG"
say "suite rc=$SUITE"

DEMO_WITH=na
DEMO_WITHOUT=na
if [ -f "$SRC/demo_test.rs" ]; then
    mkdir -p tests
    cp "$SRC/demo_test.rs" tests/demo_test.rs
    FEAT=""
    grep -qi "features tokio" "$SRC/meta.json" 2>/dev/null && FEAT="--features tokio"
    grep -qi "features verif_hooks" "$SRC/meta.json" 2>/dev/null && FEAT="--features verif_hooks"
    say "== demonstration with the patch"
    cargo test --offline $FEAT --test demo_test >"$OUT/demo_with.log" 2>&1
    DEMO_WITH=$?
    say "demo with patch rc=$DEMO_WITH"
    git apply -R "$SRC/patch.diff"
    say "== demonstration without the patch"
    cargo test --offline $FEAT --test demo_test >"$OUT/demo_without.log" 2>&1
    DEMO_WITHOUT=$?
    say "demo without patch rc=$DEMO_WITHOUT"
elif [ -f "$SRC/demo.sh" ]; then
    cp -r "$SRC"/. "$W/MUTANT/"
    say "== demonstration with the patch"
    (cd "$W" && env -u CARGO_TARGET_DIR bash MUTANT/demo.sh) >"$OUT/demo_with.log" 2>&1
    DEMO_WITH=$?
    say "demo with patch rc=$DEMO_WITH"
    git apply -R "$SRC/patch.diff"
    say "== demonstration without the patch"
    (cd "$W" && env -u CARGO_TARGET_DIR bash MUTANT/demo.sh) >"$OUT/demo_without.log" 2>&1
    DEMO_WITHOUT=$?
    say "demo without patch rc=$DEMO_WITHOUT"
fi
cd /verif
cleanup
trap - EXIT

CONFIRMED=no
if [ $BUILD -eq 0 ] && [ $SUITE -eq 0 ] && [ "$DEMO_WITH" != 0 ] && [ "$DEMO_WITH" != na ] && [ "$DEMO_WITHOUT" = 0 ]; then
    CONFIRMED=yes
fi
say "CONFIRMED=$CONFIRMED"
echo "$CONFIRMED $BUILD $SUITE $DEMO_WITH $DEMO_WITHOUT" >"$OUT/.confirm_state"
[ "$PHASE" = confirm ] && exit 0
else
    read -r CONFIRMED BUILD SUITE DEMO_WITH DEMO_WITHOUT <"$OUT/.confirm_state" || { echo "no confirm state for $NAME"; exit 2; }
    cd /verif
fi
rm -f "$OUT/.confirm_state"

cp "$SRC/patch.diff" "$OUT/patch.diff"
[ -f "$SRC/demo_test.rs" ] && cp "$SRC/demo_test.rs" "$OUT/demo_test.rs"
[ -f "$SRC/demo.sh" ] && cp -r "$SRC"/. "$OUT/demo/"
cp "$SRC/meta.json" "$OUT/agent_meta.json" 2>/dev/null

RESULTS=""
if [ "$CONFIRMED" = yes ]; then
    if [ -n "$(git -C /repo status --porcelain)" ]; then
        say "/repo is not clean; refusing to apply the patch"
        exit 2
    fi
    git -C /repo apply "$SRC/patch.diff" || { say "cannot apply to /repo"; exit 2; }
    # the checks build into their own target directories
    unset CARGO_TARGET_DIR
    for c in $CHECKS; do
        start=$(date +%s)
        ./check "$c" quick >"$OUT/check_$c.log" 2>&1
        rc=$?
        secs=$(( $(date +%s) - start ))
        v=$(grep -c "^VIOLATION property=$c" "$OUT/check_$c.log")
        sig=$(grep -o "violation in sub-check [^:]*" "$OUT/check_$c.log" | head -1)
        say "check $c quick: rc=$rc violations=$v ${secs}s $sig"
        RESULTS="$RESULTS $c:rc=$rc:${secs}s"
    done
    git -C /repo checkout -- .
    if [ -n "$(git -C /repo status --porcelain)" ]; then
        say "WARNING: /repo not clean after undoing the patch"
    fi
fi
python3 - "$OUT" "$ID" "$CONFIRMED" "$BUILD" "$SUITE" "$DEMO_WITH" "$DEMO_WITHOUT" "$RESULTS" <<'E'
import json, sys, os
out, pid, confirmed, build, suite, dwith, dwithout, results = sys.argv[1:9]
agent = {}
try:
    agent = json.load(open(os.path.join(out, 'agent_meta.json')))
except Exception:
    pass
meta = {
    "property": pid,
    "summary": agent.get("summary", ""),
    "needs_to_manifest": agent.get("needs_to_manifest", ""),
    "files_changed": agent.get("files_changed", []),
    "demo_command": agent.get("demo_command", ""),
    "confirmed_by_us": confirmed == "yes",
    "what_we_ran": {
        "scratch_worktree": "git worktree of /repo HEAD under /tmp, removed afterwards",
        "build_rc": int(build), "existing_suite_rc": int(suite),
        "demo_with_patch_rc": dwith, "demo_without_patch_rc": dwithout,
        "checks_against_the_patched_/repo (quick tier)": results.split(),
    },
}
json.dump(meta, open(os.path.join(out, 'meta.json'), 'w'), indent=1)
E
rm -f "$OUT/agent_meta.json"
say "recorded in $OUT"
