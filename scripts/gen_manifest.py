#!/usr/bin/env python3
"""Generates /verif/MANIFEST.json from the table below (single source of truth)."""
import json, subprocess, sys

HOOK_COMMITS = ["5f02cf6", "372d4f3"]

# id -> (engine, technique, level text, level note, design_ref)
CHECKS = {
 "C17": ("vcheck", "exhaustive enumeration of all codes and all mnemonic case variants against a hand-written IANA table (round-trip oracle)",
         "Exhaustive over the whole finite domain: every 16-bit TYPE/CLASS/QTYPE/QCLASS value, every case variant of every mnemonic and of the TYPE/CLASS prefix for every n, all opcode/RCODE octets, all extended RCODEs. A sampled sub-check repeats the conversions inside histories of 2-15 steps on one fresh thread that also parse text which is no code's text (state left behind by a rejected parse must not matter), and a second one parses from 4-8 threads at once.",
         "Trusts the IANA mnemonic table transcribed in c17.rs.", "§4 C17"),
}

CHECKS["C14"] = ("vcheck", "exhaustive small-buffer sweep + proptest structured buffers, differential against an independent RFC 1035 §4.1.4 decoder",
    "Exhaustive over all buffers of length <= 5 over the 12 significant octets at every start offset; beyond that generated search (structured pointer/label layouts, names at the 255-octet/127-label limits split into pointer-chained chunks) with shrinking. Every decoding entry point (compressed, skip, uncompressed, validate, *_all) is compared on acceptance, name, label count and length.",
    "Trusts vmodel::wire (unit-tested on the RFC 1035 §4.1.4 example). Search beyond length 5 is sampling.", "§4 C14")
CHECKS["C16"] = ("vcheck", "proptest generators (names, text, related pairs/triples, builder op sequences) against an independent name model (round-trip, differential, order laws)",
    "Generated search with shrinking over six sub-checks: Display/FromStr round trip incl. an independent RFC 1035 §5.1 parser and printer, text acceptance, Eq/Hash/Ord/subdomain on related pairs, transitivity on triples, every accessor, call sequences on the labels() iterator against a VecDeque (next / next_back / nth / nth_back / skip / len), NameBuilder histories with a state model.",
    "Trusts vmodel::name (unit-tested on the RFC 4034 §6.1 ordering example).", "§4 C16")

CHECKS["C15"] = ("vcheck", "proptest message generator + byte mutator driving random reader call sequences, differential against a cursor model over an independent decoder",
    "Generated search with shrinking: messages with compressed owners/RDATA of every known type, mutated by truncation, count changes, flips, insertions, injected pointers; up to 30 reader calls per message (read/skip question and RR, peek with owner/skip/parse/drop, mark/rewind, at_eom), also over hand-laid-out messages whose records share owner octets that are valid only at the later position; after every call the read position, the returned fields and acceptance are compared with the model.",
    "Trusts vmodel::wire/rdata. OPT TTL: raw or RFC 2181-clamped value accepted here (C09/C12 pin it).", "§4 C15")
CHECKS["C18"] = ("vcheck", "proptest RDATA generators (valid, near-valid, arbitrary) for every known class/type, differential against RFC-derived validators and decoder, write->read round trip in all compression modes",
    "Generated search with shrinking over three sub-checks: validate acceptance, Rdata::read with cursor/RDLENGTH perturbations against the independent decoder, and Writer->Reader round trip checked by both quandary's reader and the independent decoder (also in messages beyond 16 KiB whose owner starts 0-48 octets before offset 16384 and shares a suffix with an RDATA name).",
    "Trusts vmodel::rdata (formats transcribed from the RFCs).", "§4 C18")
CHECKS["C19"] = ("vcheck", "proptest families of related RDATA; all ordered pairs against a reference equality, all triples for transitivity, step-by-step model of RdataSetOwned",
    "Generated search with shrinking: 2-9 variants of one base RDATA (case flips, junk, truncation, one-octet changes incl. exactly the ASCII case bit in fixed fields made of letters) for every name-bearing type in four classes; reflexivity, symmetry, transitivity, agreement with the reference, and set insertion order/return values.",
    "Trusts vmodel::rdata::equal.", "§4 C19")

_W = ("vcheck", "model-based stateful testing: proptest operation sequences over every Writer method, every prefix finished and decoded by an independent decoder and compared with a model message",
    "Generated search with shrinking over operation sequences; each prefix is run on a fresh writer, so the check sees the message after every operation, knows the exact write position (for the no-spurious-truncation and limit obligations) and can assert that a failed operation changed nothing. TSIG MACs are recomputed with the independent RFC 8945 composition. Sub-check writer-count-limits: single add_*_rrset calls of 65,532-65,540 records into 2 MiB buffers (the 16-bit section counts at their limit).",
    "Trusts vmodel::wire/rdata/tsig; hints are used only as the documented contract allows.", "§4 C12")
CHECKS["C12"] = _W
CHECKS["C13"] = ("vcheck", "same operation-sequence generator as C12; invariant over the independent decoder's pointer log of every finished prefix",
    "Generated search with shrinking; for every name of every finished prefix the emitted pointer must be strictly backwards, target the first octet of a label of an earlier name, not a pointer, and appear only where RFC 3597 §4 permits and never for names written while compression was disabled.",
    "Trusts vmodel::wire's pointer log.", "§4 C13")

CHECKS["C06"] = ("vcheck", "proptest zone generator; every name within two labels of the zone's names x all option combinations x several types, differential against a flat reference model of RFC 1034 §4.3.2 + RFC 4592",
    "Generated search with shrinking over zones; per zone the probe set is enumerated exhaustively (all nearby names, all four option combinations, six types, three lookup methods) and compared on result kind, RRset, source of synthesis, referral owner/NS.",
    "Trusts vmodel::zone (unit-tested on the RFC 4592 §2.2.1 example). NS at wildcard owners not generated (undefined by RFC 4592 §4.2); unchecked lookups only inside the zone (documented precondition).", "§4 C06")
CHECKS["C20"] = ("vcheck", "model-based: proptest add sequences against a reference zone; snapshot comparison after every rejected add and at the end",
    "Generated search with shrinking over add histories (<= 60 adds); acceptance and error kind of every add, unchanged iteration snapshot after each rejection, and final iteration/soa/ns/lookups equal to the reference.",
    "Trusts vmodel::zone::MZone::add and vmodel::rdata::equal for de-duplication.", "§4 C20")
CHECKS["C21"] = ("vcheck", "proptest zone generator biased to delegations/glue/wildcards/CNAMEs, differential against a reference validator (set of issues)",
    "Generated search with shrinking; issue sets compared exactly (names case-folded), severity of each issue, and Err iff an inspected RDATA is malformed; both glue policies, classes with and without addresses.",
    "Trusts vmodel::zone::validate (Appendix D of DESIGN.md) over the reference lookup.", "§4 C21")
CHECKS["C22"] = ("vcheck", "model-based stateful testing: proptest insert/remove histories against a reference map, full observation after every step",
    "Generated search with shrinking over histories (<= 50 ops, nested names incl. root, three classes, all entry kinds, re-insertion of the same zone object with new metadata); after every step every pool name is looked up (longest suffix) and fetched (exact) in every class and the iteration is compared as a set.",
    "Trusts vmodel::zone::MCatalog.", "§4 C22")

_S = "Trusts vmodel (wire decoder, Appendix B request scanner, Appendix A resolver) and the harness's own request encoder; RRL is off or configured never to limit (10^6 responses per second and stream) except in C01."
CHECKS["C01"] = ("vcheck", "proptest structured requests + byte mutator + raw byte strings over generated catalogs/servers; oracle = no panic (catch_unwind)",
    "Generated search with shrinking: catalogs incl. malformed RDATA and missing SOA, TSIG key sets, payload sizes 512-65535, RRL on/off, both transports, response buffer of exactly the documented minimum size; a second sub-check builds responses of 16.3-16.5 KiB (TCP) whose first RDATA name after 16 KiB of filler starts at a generated offset around 16383. The thorough tier adds the libFuzzer target fz_server when built.",
    _S, "§4 C01")
CHECKS["C02"] = ("vcheck", "same generators as C01 (valid RDATA); every response decoded by an independent strict RFC 1035 decoder",
    "Generated search with shrinking; counts, exact message end, names, RDATA validity of known types, OPT/TSIG placement, QDCOUNT <= 1; plus the large-response sub-check of C01.",
    _S, "§4 C02")
CHECKS["C03"] = ("vcheck", "proptest requests + sweep over all header flag/opcode octets; header/question echo rules as an executable predicate",
    "Generated search with shrinking plus a sweep of header octets 2-3 (all 65536 values in the thorough tier, 8192 in quick) x three request shapes.",
    _S + " Requests whose QNAME contains a pointer: decoded equality (DESIGN §4 C03).", "§4 C03")
CHECKS["C05"] = ("vcheck", "proptest catalog generator + per-catalog enumeration of names around its contents x 11 QTYPEs, differential against an independent RFC 1034 §4.3.2 resolver",
    "Generated search with shrinking over catalogs; per catalog up to 990 queries; RCODE, AA, answer/authority multisets, additional set.",
    _S + " Restrictions: valid RDATA, no NS at wildcard owners, SOA MINIMUM < 2^31.", "§4 C05")
CHECKS["C07"] = ("vcheck", "proptest catalogs with nested entries of all kinds in several classes x requests with any opcode/QTYPE/QCLASS, differential against the reference dispatch table",
    "Generated search with shrinking; NOTIMP/REFUSED/SERVFAIL outcomes incl. AA clear and no records; answered queries checked for the RCODE of the longest-suffix entry's zone.",
    _S, "§4 C07")
CHECKS["C08"] = ("vcheck", "proptest well-formed requests put through a byte mutator, differential against the 'first problem in message order' scanner",
    "Generated search with shrinking; both directions (FORMERR expected => FORMERR without data; no format problem => not FORMERR); malformation classes counted.",
    _S, "§4 C08")
CHECKS["C09"] = ("vcheck", "proptest requests with 0-2 OPT records anywhere and random OPT TTL fields, differential against the request scanner",
    "Generated search with shrinking; exactly one OPT (root, class = server payload, version 0, additional) iff an OPT is reached; BADVERS; non-root owner.",
    _S, "§4 C09")

CHECKS["C04"] = ("vcheck", "proptest catalogs with large RRsets/delegations; each query sent over UDP and TCP to the same server; metamorphic/differential: the TCP response is the complete response and fixes the truncation thresholds",
    "Generated search with shrinking; size limit, TC rules, octet-identity when the complete response fits, sub-multiset relation with all in-bailiwick glue present when only optional data is dropped, TC when the mandatory part does not fit; every third query is repeated with limits at S-1, S and S+n around the size S of the complete response.",
    _S + " Requests without TSIG; TCP SERVFAIL pairs skipped and counted.", "§4 C04")
CHECKS["C10"] = ("vcheck", "proptest key sets and requests signed by an independent RFC 8945 signer (wrong key/secret/algorithm, truncation, time offsets, tampering); verdict from the request scanner, response MAC recomputed independently, twin comparison with the unsigned request",
    "Generated search with shrinking; six outcome classes (authenticated, BADSIG, BADKEY, BADTIME, MAC-length FORMERR, FORMERR) counted; a second sub-check sizes key name and QNAME (up to 255 octets each) so that the signed response ends within a few octets of the UDP limit; the time-window edge is handled by accepting both verdicts when the server's clock reading inside the exchange could fall on either side.",
    _S + " Wall clock bracketed by readings before/after the call.", "§4 C10")
CHECKS["C11"] = ("vcheck", "proptest messages signed through the Writer in all three modes; MAC equality with an independent RFC 8945 digest composition; verification differential at fudge boundaries, every truncation length, and single-octet corruption at every position (thorough) judged by a reference verifier",
    "Generated search with shrinking; evaluations are individual verifications (about 60 per message in quick, every octet position in thorough). Subsequent-mode writers are also reached through into_template / try_from_template_as_tsig_subsequent from writers in each signing mode.",
    "Trusts the hmac/sha1/sha2 crates as primitives (vector-checked); composition is vmodel::tsig.", "§4 C11")

CHECKS["C26"] = ("vcheck", "model-based: proptest histories of (advance g seconds via the verif_hooks time-shift hook, request) against an unbounded-integer token bucket; sent responses compared with an unlimited twin server",
    "Generated search with shrinking over histories of up to 200 steps with gaps from 0 to 2^32+1 seconds incl. the u32 overflow boundaries of rate x seconds; every step's send/slip/drop verdict checked; slip 0/1 exact, slip >= 2 either. One history in five is TSIG-signed (limited responses then carry a TSIG record). A second sub-check advances time in multiples of 250 ms (hook with millisecond resolution) against a reference bucket that carries the sub-second remainder.",
    "Uses the hook Server::verif_rrl_shift_time (feature verif_hooks). Real time also passes: histories taking > 0.5 s are retried; sub-second remainders are carried by the limiter so < 1 s cannot add a refill. The sub-second sub-check judges only histories that ran in < 200 ms of real time.", "§4 C26")
CHECKS["C27"] = ("vcheck", "proptest pairs of requests against a fresh limiter with a limit of one per stream; executable stream-key predicate (family, masked prefix, category, effective name incl. wildcard source from the reference resolver)",
    "Generated search with shrinking; pairs are built as near-copies so that exactly one key component differs in most cases (counted in classes); table sizes 1/7/65537 so bucket collisions (which evict and send) are exercised.",
    "32-bit name-hash collisions ignored; pairs taking > 0.5 s retried.", "§4 C27")

CHECKS["C23"] = ("vcheck", "round-trip against an independent pretty-printer: proptest record lists rendered with generated presentation choices (choice tape, shrinks to the plainest form); the expected parse is the generating list",
    "Generated search with shrinking; 25 presentation features counted in classes; line numbers, owners, TTLs, classes, types and RDATA octets compared record by record; sub-check parser-short-reads delivers valid files in generated read sizes and must see the same records.",
    "Trusts vmodel::zonefile (printer emits only single-reading text; unit-tested) and RFC 1035 §3.4.2 bit order for WKS (known finding).", "§4 C23")
CHECKS["C24"] = ("vcheck", "proptest token soups, random bytes and mutated valid zone files; validity predicate over everything the parser yields; watchdog for termination; the same inputs again through a Read stream with generated read sizes and an injected read failure",
    "Generated search with shrinking; no panic, nothing after the first error, every yielded record valid for its class/type under the independent validators (incl. TXT records whose RDATA ends within 3 octets of 65,535); sub-check parser-short-reads: what is yielded does not depend on read sizes, and after a reported read failure (any io::ErrorKind) nothing more is yielded; a case running > 60 s is re-run in a fresh process and reported as non-termination only if it stalls again.",
    "Trusts vmodel::rdata::validate.", "§4 C24")

CHECKS["C25"] = ("vcheck", "proptest trees of zone files written to a scratch directory; round-trip against the generating record list with (path, line) plus a metamorphic relation: fs::Parser over the tree = in-memory Parser over the textual flattening",
    "Generated search with shrinking over trees of <= 6 files (sub-directories, quoted/escaped/absolute paths, origin arguments, $ORIGIN/$TTL inside includes, records depending on inherited owner/TTL/class/origin right after an include, missing files, depth limits 0-4, root opened through a symbolic link to its directory).",
    "Trusts vmodel::zonefile. Flattening is skipped (counted) when the includer's origin is unset at an include, because no directive can reset the origin to 'unset'.", "§4 C25")

_Q = "The library is a generated copy of /repo/src (harness/qshuttle/gen.sh, regenerated on every run) whose only difference is that the `use std::sync / std::thread / std::time` lines of src/thread.rs, src/server/mod.rs and src/server/rrl.rs point at harness/qshuttle/vshim.rs; interleavings are explored at synchronisation operations; schedules are sampled (random + PCT), not enumerated."
CHECKS["C28"] = ("qshuttle", "two generated searches with one oracle (exact count: full responses = min(requests, rate x window), the rest limited as the slip setting prescribes): (1) OS-thread stress on the normal build - proptest bursts of 2-16 threads x 50-2000 identical UDP queries released by a barrier, generated yields; (2) randomised schedule exploration (shuttle random + PCT) of proptest workloads of 2-4 threads",
    "Generated search with shrinking. Stress: bursts that take >= 0.9 s are repeated so that every judged burst falls within one second. Shuttle: workloads (threads x bursts, limit 1-6, slip 0/1/2, table size 1/3/64, NOERROR/NXDOMAIN/error streams, optional second stream) x 80-300 schedules each; logical clock frozen; failing schedule printed, replay re-derives it from the workload's seed.",
    _Q + " The stress part (vcheck C28S) runs first and its numbers are folded into the same evidence file.", "§4 C28")
CHECKS["C29"] = ("qshuttle", "randomised schedule exploration (shuttle random + PCT schedulers) of the unmodified thread-pool source with condition-variable timeouts that can fire at any scheduling point; proptest workloads (workers, lingering, submitters, shut-down points, injected spawn failure); oracle = ledger invariants over the history of every execution",
    "Generated search with shrinking over workloads x 60-250 schedules each. Ledger: accepted => ran exactly once and had finished when await_shutdown returned; rejected => never ran; nothing runs after await_shutdown returned; submissions begun after a shut-down returned are rejected with ShuttingDown; no deadlock (shuttle's detector), every call returns. Two fifths of the eligible workloads run gated (no timeouts, a gate task on a permanent worker, shut-down only after every submitter returned), where a submit() that is never woken shows as a deadlock.",
    _Q + " Executions that hit the 20000-step bound (unfair PCT schedules spinning in the respawn loop after a pool-only shut-down) are abandoned and counted, not judged.", "§4 C29")
CHECKS["C32"] = ("qshuttle", "randomised schedule exploration (shuttle random + PCT schedulers) of proptest workloads: one swapper thread, or two (one for catalogs, one for key sets), replacing catalogs and TSIG key sets while 2-3 threads issue signed/unsigned queries whose every record encodes the catalog generation; oracle = invariant over each response (one generation, inside the [installed-before, begun-by-return] bracket; MAC under the signing generation's key or a consistent BADSIG)",
    "Generated search with shrinking over workloads (2-4 generations, swap order, five query kinds covering answer/authority/additional sections, UDP/TCP) x 60-250 schedules each.",
    _Q + " TSIG times use the real clock with a one-hour fudge. As for C28, an OS-thread stress on the normal build (vcheck C32S: 2-8 query threads against a swapper installing 3-200 generations, same bracket oracle) runs first in both tiers and is folded into the same evidence file.", "§4 C32")

CHECKS["C30"] = ("vcheck", "proptest batches of framed requests (valid, malformed, response-less) cut into generated segments with generated pauses and pipelined over loopback TCP, plus UDP datagrams from two client sockets, against running blocking and Tokio providers in five configurations; differential against handle_message on an identically configured twin server",
    "Generated search with shrinking; TCP: responses in request order, framed, octet-equal to the twin's, nothing extra, connection closed after the first response-less request (or after the client's EOF), also for batches ending in an incomplete frame; UDP: at most one datagram per request, equal to the twin's, from the server's address, to the socket that asked, not larger than the payload size. Sub-check io-large-requests: 1-3 TCP requests padded to 508-65535 octets at the lengths around powers of two, half of the cases on the Tokio provider; io-slow-clients: 2-3 requests per connection that take up to 3.5 s each to arrive (inside the 5 s read timeout) must all be answered; io-backpressure: hundreds of pipelined requests with large answers while the client does not read.",
    "OS thread scheduling is not owned (segmentation, pipelining and pauses are). Client-side timeouts (3 s; the server's read timeout is 5 s) are retried on a fresh connection and reported only after three failures in a row; a close with unread pipelined data behind it (kernel RST may discard earlier responses) is counted, not judged; TSIG time-signed of unsigned error responses may differ by 5 s.", "§4 C30")

CHECKS["C31"] = ("vcheck", "model-based stateful testing against the real daemon: proptest histories of configuration and zone-file edits over five nested zones with SIGHUP after each step; oracle = reference model 'latest good data per zone' compared through UDP probes whose answers identify zone and version",
    "Generated search with shrinking over histories of 1-8 steps (per zone: configured or not x keep / new valid version, every third one with validation warnings only / touch / syntactically broken / fails validation, alone or together with warnings / deleted / renamed / main file that $INCLUDEs another file, which is repaired or removed on its own; generated order of the zones in the configuration; blocking and Tokio providers); 15 probes per step (apex, www, nonexistent name of every zone) judged for REFUSED / SERVFAIL / data of (zone, version) / negative answer of the enclosing (zone, version). Sub-check reload-race: a large zone file replaced 0-80 ms after SIGHUP; whichever version that reload serves is accepted, the next reload must serve the replacement.",
    "quandaryd is built from /repo's working tree into /verif/.target-daemon and run as a child process on a loopback port; a sentinel zone whose TXT carries the step number tells when the atomically swapped catalog is live; modification times are set explicitly and strictly increase with every write; a daemon that does not come up or never shows the sentinel is exit 2, not a violation.", "§4 C31")

NOT_YET = {}

def main():
    props = [json.loads(l) for l in open('/verif/properties.jsonl')]
    checks = []
    na = []
    for p in props:
        pid = p['id']
        if pid in CHECKS:
            engine, technique, text, note, ref = CHECKS[pid]
            fuzzed = {"C01": "fz_server", "C02": "fz_server", "C03": "fz_server", "C08": "fz_server", "C09": "fz_server",
                      "C14": "fz_name", "C15": "fz_reader", "C24": "fz_zonefile"}
            if pid in fuzzed:
                technique += f"; thorough tier: coverage-guided fuzzing (libFuzzer target {fuzzed[pid]}, the same oracle inside the target)"
                text += f" The committed seed corpus of {fuzzed[pid]} is replayed through the oracle in both tiers; the thorough tier first runs a libFuzzer campaign (ASan, debug assertions; from the seeds and from an empty corpus) whose executions, final-corpus classification and re-judged failures are part of the evidence."
            checks.append({
                "property_id": pid,
                "quick_cmd": f"./check {pid} quick",
                "thorough_cmd": f"./check {pid} thorough",
                "evidence_file": f"evidence/{pid}.json",
                "replay_cmd_template": f"./check {pid} quick --replay {{path}}",
                "engine": engine,
                "level_claimed": {"category": "exploration", "text": text, "design_ref": ref},
                "level_note": note,
                "technique": technique,
            })
        else:
            na.append({"property_id": pid, "reason": NOT_YET.get(pid, "check not built yet in this session (designed in DESIGN.md §4; will be claimed once its machinery is committed)")})
    m = {
        "version": 1,
        "setup_cmd": "./check --setup",
        "hooks": {
            "guard": "cargo feature verif_hooks",
            "enable": "the harness depends on quandary by path with features = [\"tokio\", \"verif_hooks\"]; every ./check rebuilds it from /repo's working tree",
            "baseline_off_cmd": "cd /repo && cargo test --workspace --no-fail-fast --offline",
            "source_commits": HOOK_COMMITS,
            "add_only": True,
        },
        "engines": [
            {"name": "vcheck", "path": "harness/vchecks", "serves_properties": sorted(k for k,v in CHECKS.items() if v[0]=="vcheck"),
             "kind_free_text": "proptest generators + independent reference models (harness/vmodel), sharded over 16 threads, shrunk failures stored as replay files"},
            {"name": "fuzz", "path": "harness/fuzz", "serves_properties": ["C01", "C02", "C03", "C08", "C09", "C14", "C15", "C24"],
             "kind_free_text": "libFuzzer via cargo-fuzz (ASan, debug assertions): four targets whose oracles are the checks' own (vchecks::fuzzglue); thorough tiers run a campaign from the committed seeds and from an empty corpus (scripts/fuzz.sh) before vcheck, which folds the statistics into the evidence and re-judges every reported failure; the committed corpus is replayed in every tier"},
            {"name": "qshuttle", "path": "harness/qshuttle", "serves_properties": sorted(k for k,v in CHECKS.items() if v[0]=="qshuttle"),
             "kind_free_text": "shuttle (randomised schedule exploration, random + PCT) over a generated copy of /repo/src whose std::sync/thread/time imports point at a shim with firing condition-variable timeouts and a logical clock; workloads are proptest values and shrink; failing schedules are stored in the replay file"},
        ],
        "checks": checks,
        "not_applicable": na,
        "notes": "Property-based testing and fuzzing only; see DESIGN.md. Exit 2 = infrastructure failure, never a violation.",
    }
    json.dump(m, open('/verif/MANIFEST.json','w'), indent=1)
    print(f"{len(checks)} checks, {len(na)} not_applicable")

main()
