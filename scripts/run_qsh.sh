#!/bin/bash
# Runner for the schedule-exploration engine (C28, C29, C32):
#   1. (C28, C32) OS-thread stress on the normal build (vcheck <ID>S), whose
#      numbers the qshuttle runner folds into the evidence;
#   2. regenerate harness/qshuttle/src-gen from /repo's working tree, build, run qsh.
# usage: run_qsh.sh <ID> <quick|thorough> [--replay FILE]
set -u
VERIF=/verif
Q=$VERIF/harness/qshuttle
export CARGO_NET_OFFLINE=true
unset CARGO_TARGET_DIR
export CARGO_TERM_COLOR=never
ID=$1
shift
TIER=${1:-quick}
# Watchdog limit per case (the framework's default is 60 s). One case here is up to
# 60 (quick) or 250 (thorough) executions of up to 20,000 steps each; with all 16
# shards busy such a case has been measured at more than 60 s, which is slowness,
# not a hang (shuttle reports deadlocks itself). The watchdog stays as a net
# against a hang of the harness.
if [ "$TIER" = thorough ]; then
    QSH_STALL=${VERIF_STALL_SECS:-600}
else
    QSH_STALL=${VERIF_STALL_SECS:-240}
fi

# a replay file produced by the stress run goes back to vcheck
if [ "${2:-}" = "--replay" ] && grep -q '"check": ".*os-thread' "${3:-/dev/null}" 2>/dev/null; then
    exec "$VERIF/.target/debug/vcheck" "${ID}S" "$TIER" --replay "$3"
fi

"$Q/gen.sh" || exit 2
mkdir -p "$VERIF/.target-qsh"
log=$VERIF/.target-qsh/build.log
(
    flock 9
    cd "$Q" && cargo build --offline --target-dir "$VERIF/.target-qsh" >"$log" 2>&1
) 9>"$VERIF/.target-qsh/.build.lock"
if [ $? -ne 0 ]; then
    echo "INFRA: qshuttle build failed (see $log)" >&2
    grep -E "^(error|warning: unused)" -A8 "$log" | head -60 >&2
    exit 2
fi

src=0
if [ "${2:-}" != "--replay" ] && { [ "$ID" = C28 ] || [ "$ID" = C32 ]; }; then
    rm -f "$VERIF/.work/stress-$ID.json"
    VERIF_EVIDENCE_DIR=$VERIF/.work/stress-evidence "$VERIF/.target/debug/vcheck" "${ID}S" "$TIER"
    src=$?
    [ $src -eq 2 ] && exit 2
fi

# shuttle prints several lines per failing execution while a failure is shrunk; keep stderr readable
VERIF_STALL_SECS=$QSH_STALL "$VERIF/.target-qsh/debug/qsh" "$ID" "$@" 2> >(grep --line-buffered -v -E '^(failing seed:|"|[0-9]+$|To replay the failure|    [12]\) |Task failed, serializing|test panicked in task)' >&2)
rc=$?
sleep 0.1
[ $rc -eq 0 ] && rc=$src
exit $rc
