#!/bin/bash
# Thorough tiers of C14 / C16: the name code (unsafe DST, label casts) under Miri
# on generated inputs, compared with the independent model.
# Writes /verif/.work/miri-names.json; exit 0 = no undefined behaviour and no
# disagreement, 1 = Miri or an assertion failed (log in .work/miri-names.log), 2 = infrastructure.
set -u
VERIF=/verif
export CARGO_NET_OFFLINE=true CARGO_TERM_COLOR=never
unset CARGO_TARGET_DIR
export MIRI_NAMES_SEED=${VERIF_SEED:-1}
export MIRI_NAMES_CASES=${MIRI_NAMES_CASES:-400}
export MIRIFLAGS="-Zmiri-disable-isolation"
mkdir -p "$VERIF/.work"
log=$VERIF/.work/miri-names.log
start=$(date +%s)
(cd "$VERIF/harness/miri-names" && cargo +nightly miri test --offline --target-dir "$VERIF/.target-miri" >"$log" 2>&1)
rc=$?
secs=$(( $(date +%s) - start ))
if [ $rc -ne 0 ] && ! grep -q "test result\|Undefined Behavior\|panicked" "$log"; then
    echo "INFRA: cargo miri could not run (see $log)" >&2
    tail -5 "$log" >&2
    exit 2
fi
ok=true; [ $rc -ne 0 ] && ok=false
printf '{"tool": "cargo +nightly miri test", "cases": %s, "seed": %s, "seconds": %s, "passed": %s}\n' "$MIRI_NAMES_CASES" "$MIRI_NAMES_SEED" "$secs" "$ok" >"$VERIF/.work/miri-names.json"
grep -E "test result|Undefined Behavior|panicked" "$log" | head -5
[ $rc -eq 0 ] && exit 0 || exit 1
