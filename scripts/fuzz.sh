#!/bin/bash
# Coverage-guided fuzzing campaigns (libFuzzer via cargo-fuzz, ASan, debug
# assertions), used by the thorough tiers.
#
#   scripts/fuzz.sh build
#   scripts/fuzz.sh run <target> <seconds>
#
# A campaign runs twice: from the committed seed corpus (corpus/<target>/) and
# from an empty corpus, each for half of the budget, with -seed=VERIF_SEED.
# Results: fuzz-work/stats/<target>.json (executions etc., parsed from
# -print_final_stats), fuzz-work/corpus/<target>/ (final corpus), and one file
# per failure in fuzz-work/violations/ (written by the target for oracle
# failures, by this script for crashes the target could not describe).
# Exit code: 0 (failures are reported by vcheck, which re-judges them) or 2.
set -u
VERIF=/verif
FUZZ=$VERIF/harness/fuzz
WORK=$VERIF/fuzz-work
export CARGO_NET_OFFLINE=true
export CARGO_TERM_COLOR=never
export CARGO_TARGET_DIR=$VERIF/.target-fuzz
BIN=$CARGO_TARGET_DIR/x86_64-unknown-linux-gnu/release
SEED=${VERIF_SEED:-1}
[ "$SEED" = 0 ] && SEED=1

build() {
    mkdir -p "$CARGO_TARGET_DIR"
    (
        flock 9
        cd "$FUZZ" && cargo +nightly fuzz build --fuzz-dir "$FUZZ" >"$CARGO_TARGET_DIR/build.log" 2>&1
    ) 9>"$CARGO_TARGET_DIR/.build.lock"
    if [ $? -ne 0 ]; then
        echo "INFRA: building the fuzz targets failed (see $CARGO_TARGET_DIR/build.log)" >&2
        grep -E "^error" -A8 "$CARGO_TARGET_DIR/build.log" | head -40 >&2
        exit 2
    fi
}

campaign() { # target seconds corpus_dir label
    local target=$1 secs=$2 corpus=$3 label=$4
    local log=$WORK/logs/$target-$label.log
    local art=$WORK/artifacts/$target/
    mkdir -p "$corpus" "$art" "$WORK/logs"
    local maxlen=600
    [ "$target" = fz_zonefile ] && maxlen=400
    [ "$target" = fz_name ] && maxlen=300
    # -fork keeps going after a failure is found (each failure still lands in artifacts/)
    "$BIN/$target" "$corpus" -seed="$SEED" -max_total_time="$secs" -max_len=$maxlen -len_control=0 \
        -timeout=20 -rss_limit_mb=3000 -print_final_stats=1 -artifact_prefix="$art" \
        -jobs=${FUZZ_JOBS:-8} -workers=${FUZZ_JOBS:-8} >"$log" 2>&1
    # with -jobs the per-job output goes to fuzz-<n>.log in the current directory
    cat fuzz-*.log >>"$log" 2>/dev/null
    rm -f fuzz-*.log
}

run() {
    local target=$1 secs=$2
    # always rebuild: the targets must reflect /repo's current working tree
    build
    rm -rf "$WORK/corpus/$target" "$WORK/artifacts/$target" "$WORK/stats/$target.json"
    rm -f "$WORK/violations/"*"-$target-"*.json 2>/dev/null
    mkdir -p "$WORK/corpus/$target" "$WORK/stats" "$WORK/violations" "$WORK/run"
    cd "$WORK/run" || exit 2
    local half=$((secs / 2))
    [ $half -lt 5 ] && half=5
    # 1. from the committed seeds
    local seeded=$WORK/corpus/$target/seeded empty=$WORK/corpus/$target/empty
    mkdir -p "$seeded" "$empty"
    cp "$VERIF/corpus/$target/"* "$seeded/" 2>/dev/null
    local started=$(date +%s)
    campaign "$target" "$half" "$seeded" seeded
    # 2. from an empty corpus
    campaign "$target" "$half" "$empty" empty
    local elapsed=$(( $(date +%s) - started ))
    # merge the two final corpora into one directory for re-classification
    cp -n "$seeded"/* "$WORK/corpus/$target/" 2>/dev/null
    cp -n "$empty"/* "$WORK/corpus/$target/" 2>/dev/null
    rm -rf "$seeded" "$empty"
    local execs=$(grep -h "stat::number_of_executed_units" "$WORK/logs/$target-seeded.log" "$WORK/logs/$target-empty.log" | awk '{s+=$2} END {print s+0}')
    local ncorp=$(ls "$WORK/corpus/$target" | wc -l)
    # crash artifacts the target did not describe itself (sanitizer reports, timeouts, OOM)
    local crashes=0
    for a in "$WORK/artifacts/$target/"*; do
        [ -f "$a" ] || continue
        crashes=$((crashes + 1))
        local hexs=$(xxd -p "$a" | tr -d '\n')
        local base=$(basename "$a")
        # did the target write a violation file for exactly these bytes?
        if ! grep -l "\"bytes_hex\": \"$hexs\"" "$WORK/violations/"*"-$target-"*.json >/dev/null 2>&1; then
            case "$base" in
            timeout-*|oom-*|slow-unit-*)
                # resource limits are not violations (C14/C24 termination is covered by vcheck's watchdog)
                continue ;;
            esac
            local prop
            case "$target" in fz_name) prop=C14 ;; fz_reader) prop=C15 ;; fz_zonefile) prop=C24 ;; *) prop=C01 ;; esac
            printf '{"property": "%s", "check": "fuzzbin:%s", "case": {"bytes_hex": "%s"}, "signature": "fuzz-binary-crash", "diagnosis": "libFuzzer artifact %s"}\n' \
                "$prop" "$target" "$hexs" "$base" >"$WORK/violations/$prop-$target-artifact-$base.json"
        fi
    done
    printf '{"target": "%s", "executions": %s, "seconds": %s, "final_corpus_files": %s, "artifacts": %s, "seed": %s, "engine": "libFuzzer (cargo-fuzz, ASan, debug assertions), seeded + empty corpus"}\n' \
        "$target" "$execs" "$elapsed" "$ncorp" "$crashes" "$SEED" >"$WORK/stats/$target.json"
    echo "fuzz $target: $execs executions in $elapsed s, final corpus $ncorp files, $crashes artifacts"
}

case "${1:-}" in
build) build ;;
run) run "$2" "${3:-60}" ;;
*) echo "usage: fuzz.sh build | run <target> <seconds>" >&2; exit 2 ;;
esac
exit 0
