#!/bin/bash
exec /verif/scripts/run_qsh.sh C28 "$@"
