#!/bin/bash
# C31: real daemon; build it from the working tree first.
/verif/scripts/build_daemon.sh || exit 2
exec /verif/.target/debug/vcheck C31 "$@"
