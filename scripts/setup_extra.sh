#!/bin/bash
# Extra set-up after the main harness build: pre-build the other engines so
# that the first quick command does not pay for a cold build.
set -u
VERIF=/verif
export CARGO_NET_OFFLINE=true
unset CARGO_TARGET_DIR
export CARGO_TERM_COLOR=never
Q=$VERIF/harness/qshuttle
"$Q/gen.sh" || exit 2
mkdir -p "$VERIF/.target-qsh"
(
    flock 9
    cd "$Q" && cargo build --offline --target-dir "$VERIF/.target-qsh" >"$VERIF/.target-qsh/build.log" 2>&1
) 9>"$VERIF/.target-qsh/.build.lock" || { echo "INFRA: qshuttle build failed" >&2; tail -30 "$VERIF/.target-qsh/build.log" >&2; exit 2; }
/verif/scripts/build_daemon.sh || exit 2
exit 0
