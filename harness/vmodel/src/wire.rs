//! R1 — strict RFC 1035 §4.1 wire codec, written from the RFC text.
//! No dependency on quandary.

use crate::name::{MName, MAX_LABEL, MAX_WIRE};
use crate::rdata;

#[derive(Clone, Debug, PartialEq, Eq)]
pub enum WireErr {
    /// ran off the end of the buffer
    Eom,
    /// label type 01/10 or length > 63
    BadLabel,
    /// name longer than 255 octets
    NameTooLong,
    /// pointer does not point strictly backwards
    BadPointer,
    /// RDATA malformed for its type
    BadRdata,
    /// octets remain after the last counted record
    Trailing,
    /// header shorter than 12 octets
    ShortHeader,
}

/// One compression pointer found while decoding.
#[derive(Clone, Debug, PartialEq, Eq)]
pub struct Pointer {
    /// offset of the first pointer octet
    pub pos: usize,
    /// offset it points to
    pub target: usize,
}

#[derive(Clone, Debug, PartialEq, Eq)]
pub struct NameDecode {
    pub name: MName,
    /// number of contiguous octets the name occupies at its start offset
    pub first_chunk_len: usize,
    /// message offsets of every non-root label's length octet, in name order
    pub label_starts: Vec<usize>,
    /// pointers followed, in order
    pub pointers: Vec<Pointer>,
}

/// Decodes a possibly compressed name at `start`.  A pointer must target an
/// offset strictly below the start of the chunk it terminates ("prior
/// occurrence", RFC 1035 §4.1.4), which also rules out loops.
pub fn decode_name(buf: &[u8], start: usize) -> Result<NameDecode, WireErr> {
    let mut labels: Vec<Vec<u8>> = Vec::new();
    let mut label_starts = Vec::new();
    let mut pointers = Vec::new();
    let mut wire_len = 0usize; // uncompressed length so far (without root)
    let mut chunk_start = start;
    let mut pos = start;
    let mut first_chunk_len: Option<usize> = None;
    loop {
        let b = *buf.get(pos).ok_or(WireErr::Eom)?;
        match b >> 6 {
            0b11 => {
                let b2 = *buf.get(pos + 1).ok_or(WireErr::Eom)?;
                let target = (((b & 0x3f) as usize) << 8) | b2 as usize;
                if target >= chunk_start {
                    return Err(WireErr::BadPointer);
                }
                pointers.push(Pointer { pos, target });
                if first_chunk_len.is_none() {
                    first_chunk_len = Some(pos + 2 - start);
                }
                chunk_start = target;
                pos = target;
            }
            0b00 => {
                let len = b as usize;
                if len == 0 {
                    if first_chunk_len.is_none() {
                        first_chunk_len = Some(pos + 1 - start);
                    }
                    break;
                }
                debug_assert!(len <= MAX_LABEL);
                let data = buf.get(pos + 1..pos + 1 + len).ok_or(WireErr::Eom)?;
                wire_len += 1 + len;
                if wire_len + 1 > MAX_WIRE {
                    return Err(WireErr::NameTooLong);
                }
                labels.push(data.to_vec());
                label_starts.push(pos);
                pos += 1 + len;
            }
            _ => return Err(WireErr::BadLabel),
        }
    }
    Ok(NameDecode {
        name: MName { labels },
        first_chunk_len: first_chunk_len.unwrap(),
        label_starts,
        pointers,
    })
}

/// Delimits the first chunk of a name at `start` without following pointers:
/// labels (each <= 63 octets) up to a zero octet or a two-octet pointer; the
/// uncompressed length implied by the chunk must not exceed 255.  Returns the
/// chunk length.
pub fn delimit_name(buf: &[u8], start: usize) -> Result<usize, WireErr> {
    let mut pos = start;
    loop {
        let b = *buf.get(pos).ok_or(WireErr::Eom)?;
        match b >> 6 {
            0b11 => {
                buf.get(pos + 1).ok_or(WireErr::Eom)?;
                // labels so far + at least a root octet
                if pos - start + 1 > MAX_WIRE {
                    return Err(WireErr::NameTooLong);
                }
                return Ok(pos + 2 - start);
            }
            0b00 => {
                let len = b as usize;
                if len == 0 {
                    if pos - start + 1 > MAX_WIRE {
                        return Err(WireErr::NameTooLong);
                    }
                    return Ok(pos + 1 - start);
                }
                if pos + 1 + len > buf.len() {
                    return Err(WireErr::Eom);
                }
                pos += 1 + len;
                if pos - start + 1 > MAX_WIRE {
                    return Err(WireErr::NameTooLong);
                }
            }
            _ => return Err(WireErr::BadLabel),
        }
    }
}

pub fn u16_at(buf: &[u8], pos: usize) -> Option<u16> {
    let s = buf.get(pos..pos + 2)?;
    Some(u16::from_be_bytes([s[0], s[1]]))
}

pub fn u32_at(buf: &[u8], pos: usize) -> Option<u32> {
    let s = buf.get(pos..pos + 4)?;
    Some(u32::from_be_bytes([s[0], s[1], s[2], s[3]]))
}

#[derive(Clone, Debug, PartialEq, Eq)]
pub struct Header {
    pub id: u16,
    pub qr: bool,
    pub opcode: u8,
    pub aa: bool,
    pub tc: bool,
    pub rd: bool,
    pub ra: bool,
    pub z: bool,
    pub ad: bool,
    pub cd: bool,
    pub rcode: u8,
    pub qdcount: u16,
    pub ancount: u16,
    pub nscount: u16,
    pub arcount: u16,
}

pub fn decode_header(buf: &[u8]) -> Result<Header, WireErr> {
    if buf.len() < 12 {
        return Err(WireErr::ShortHeader);
    }
    let f1 = buf[2];
    let f2 = buf[3];
    Ok(Header {
        id: u16_at(buf, 0).unwrap(),
        qr: f1 & 0x80 != 0,
        opcode: (f1 >> 3) & 0x0f,
        aa: f1 & 0x04 != 0,
        tc: f1 & 0x02 != 0,
        rd: f1 & 0x01 != 0,
        ra: f2 & 0x80 != 0,
        z: f2 & 0x40 != 0,
        ad: f2 & 0x20 != 0,
        cd: f2 & 0x10 != 0,
        rcode: f2 & 0x0f,
        qdcount: u16_at(buf, 4).unwrap(),
        ancount: u16_at(buf, 6).unwrap(),
        nscount: u16_at(buf, 8).unwrap(),
        arcount: u16_at(buf, 10).unwrap(),
    })
}

#[derive(Clone, Debug, PartialEq, Eq)]
pub struct QuestionDecode {
    pub start: usize,
    pub end: usize,
    pub qname: NameDecode,
    pub qtype: u16,
    pub qclass: u16,
}

pub fn decode_question(buf: &[u8], start: usize) -> Result<QuestionDecode, WireErr> {
    let qname = decode_name(buf, start)?;
    let p = start + qname.first_chunk_len;
    let qtype = u16_at(buf, p).ok_or(WireErr::Eom)?;
    let qclass = u16_at(buf, p + 2).ok_or(WireErr::Eom)?;
    Ok(QuestionDecode {
        start,
        end: p + 4,
        qname,
        qtype,
        qclass,
    })
}

#[derive(Clone, Debug, PartialEq, Eq)]
pub struct RrDecode {
    pub start: usize,
    pub end: usize,
    pub owner: NameDecode,
    pub rtype: u16,
    pub class: u16,
    /// the raw 32-bit TTL field
    pub ttl_raw: u32,
    pub rdata_start: usize,
    pub rdlength: u16,
    /// RDATA with names of RFC 1035 types decompressed (raw otherwise)
    pub rdata: Vec<u8>,
    /// names found inside the RDATA (decoded at their message offsets)
    pub rdata_names: Vec<(usize, NameDecode, bool)>, // (offset, decode, compression permitted by RFC 3597 §4)
}

/// Delimits a record at `start`: first owner chunk + 10 octets + RDLENGTH
/// octets, all inside the buffer.  Returns (end, type, class, ttl_raw, rdata_start, rdlength).
pub fn delimit_rr(buf: &[u8], start: usize) -> Result<(usize, u16, u16, u32, usize, u16), WireErr> {
    let chunk = delimit_name(buf, start)?;
    let p = start + chunk;
    let rtype = u16_at(buf, p).ok_or(WireErr::Eom)?;
    let class = u16_at(buf, p + 2).ok_or(WireErr::Eom)?;
    let ttl = u32_at(buf, p + 4).ok_or(WireErr::Eom)?;
    let rdlength = u16_at(buf, p + 8).ok_or(WireErr::Eom)?;
    let rdata_start = p + 10;
    let end = rdata_start + rdlength as usize;
    if end > buf.len() {
        return Err(WireErr::Eom);
    }
    Ok((end, rtype, class, ttl, rdata_start, rdlength))
}

/// Like `decode_rr`, but RDATA is decoded leniently (see
/// `rdata::decode_in_message_lenient`): used where the producer is allowed to
/// pass through RDATA it was given without validating it.
pub fn decode_rr_lenient(buf: &[u8], start: usize) -> Result<RrDecode, WireErr> {
    let owner = decode_name(buf, start)?;
    let p = start + owner.first_chunk_len;
    let rtype = u16_at(buf, p).ok_or(WireErr::Eom)?;
    let class = u16_at(buf, p + 2).ok_or(WireErr::Eom)?;
    let ttl_raw = u32_at(buf, p + 4).ok_or(WireErr::Eom)?;
    let rdlength = u16_at(buf, p + 8).ok_or(WireErr::Eom)?;
    let rdata_start = p + 10;
    let end = rdata_start + rdlength as usize;
    if end > buf.len() {
        return Err(WireErr::Eom);
    }
    let (rdata, rdata_names) =
        rdata::decode_in_message_lenient(class, rtype, buf, rdata_start, rdlength as usize).ok_or(WireErr::BadRdata)?;
    Ok(RrDecode {
        start,
        end,
        owner,
        rtype,
        class,
        ttl_raw,
        rdata_start,
        rdlength,
        rdata,
        rdata_names,
    })
}

/// Fully decodes a record at `start` (owner decompressed, RDATA decoded by type).
pub fn decode_rr(buf: &[u8], start: usize) -> Result<RrDecode, WireErr> {
    let owner = decode_name(buf, start)?;
    let p = start + owner.first_chunk_len;
    let rtype = u16_at(buf, p).ok_or(WireErr::Eom)?;
    let class = u16_at(buf, p + 2).ok_or(WireErr::Eom)?;
    let ttl_raw = u32_at(buf, p + 4).ok_or(WireErr::Eom)?;
    let rdlength = u16_at(buf, p + 8).ok_or(WireErr::Eom)?;
    let rdata_start = p + 10;
    let end = rdata_start + rdlength as usize;
    if end > buf.len() {
        return Err(WireErr::Eom);
    }
    let (rdata, rdata_names) = rdata::decode_in_message(class, rtype, buf, rdata_start, rdlength as usize)?;
    Ok(RrDecode {
        start,
        end,
        owner,
        rtype,
        class,
        ttl_raw,
        rdata_start,
        rdlength,
        rdata,
        rdata_names,
    })
}

#[derive(Clone, Debug, PartialEq, Eq)]
pub struct MessageDecode {
    pub header: Header,
    pub questions: Vec<QuestionDecode>,
    pub answers: Vec<RrDecode>,
    pub authority: Vec<RrDecode>,
    pub additional: Vec<RrDecode>,
    pub len: usize,
}

impl MessageDecode {
    pub fn all_rrs(&self) -> impl Iterator<Item = &RrDecode> {
        self.answers.iter().chain(self.authority.iter()).chain(self.additional.iter())
    }
    /// 12-bit extended RCODE using the OPT record if present.
    pub fn extended_rcode(&self) -> u16 {
        let upper = self
            .additional
            .iter()
            .find(|r| r.rtype == 41)
            .map(|r| (r.ttl_raw >> 24) as u16)
            .unwrap_or(0);
        (upper << 4) | self.header.rcode as u16
    }
    pub fn opt(&self) -> Option<&RrDecode> {
        self.additional.iter().find(|r| r.rtype == 41)
    }
    pub fn tsig(&self) -> Option<&RrDecode> {
        self.additional.iter().find(|r| r.rtype == 250)
    }
}

/// Strict decode of a whole message: header, all counted entries, nothing after.
pub fn decode_message(buf: &[u8]) -> Result<MessageDecode, WireErr> {
    decode_message_opts(buf, false)
}

/// As `decode_message`; with `lenient_rdata` records are decoded with `decode_rr_lenient`.
pub fn decode_message_opts(buf: &[u8], lenient_rdata: bool) -> Result<MessageDecode, WireErr> {
    let header = decode_header(buf)?;
    let mut pos = 12;
    let mut questions = Vec::new();
    for _ in 0..header.qdcount {
        let q = decode_question(buf, pos)?;
        pos = q.end;
        questions.push(q);
    }
    let mut sections: [Vec<RrDecode>; 3] = [Vec::new(), Vec::new(), Vec::new()];
    for (i, count) in [header.ancount, header.nscount, header.arcount].iter().enumerate() {
        for _ in 0..*count {
            let rr = if lenient_rdata { decode_rr_lenient(buf, pos)? } else { decode_rr(buf, pos)? };
            pos = rr.end;
            sections[i].push(rr);
        }
    }
    if pos != buf.len() {
        return Err(WireErr::Trailing);
    }
    let [answers, authority, additional] = sections;
    Ok(MessageDecode {
        header,
        questions,
        answers,
        authority,
        additional,
        len: pos,
    })
}

////////////////////////////////////////////////////////////////////////
// ENCODER (plain, for building requests)                             //
////////////////////////////////////////////////////////////////////////

#[derive(Clone, Debug, Default)]
pub struct Builder {
    pub buf: Vec<u8>,
}

impl Builder {
    pub fn new(id: u16, flags: u16) -> Self {
        let mut buf = vec![0u8; 12];
        buf[0..2].copy_from_slice(&id.to_be_bytes());
        buf[2..4].copy_from_slice(&flags.to_be_bytes());
        Builder { buf }
    }
    pub fn set_counts(&mut self, qd: u16, an: u16, ns: u16, ar: u16) {
        self.buf[4..6].copy_from_slice(&qd.to_be_bytes());
        self.buf[6..8].copy_from_slice(&an.to_be_bytes());
        self.buf[8..10].copy_from_slice(&ns.to_be_bytes());
        self.buf[10..12].copy_from_slice(&ar.to_be_bytes());
    }
    pub fn bump(&mut self, section: usize) {
        let off = 4 + 2 * section;
        let v = u16::from_be_bytes([self.buf[off], self.buf[off + 1]]).wrapping_add(1);
        self.buf[off..off + 2].copy_from_slice(&v.to_be_bytes());
    }
    pub fn question(&mut self, name: &MName, qtype: u16, qclass: u16) {
        self.buf.extend_from_slice(&name.wire());
        self.buf.extend_from_slice(&qtype.to_be_bytes());
        self.buf.extend_from_slice(&qclass.to_be_bytes());
        self.bump(0);
    }
    /// Appends a record with raw owner octets (may contain pointers).
    pub fn rr_raw(&mut self, section: usize, owner_wire: &[u8], rtype: u16, class: u16, ttl: u32, rdata: &[u8]) {
        self.buf.extend_from_slice(owner_wire);
        self.buf.extend_from_slice(&rtype.to_be_bytes());
        self.buf.extend_from_slice(&class.to_be_bytes());
        self.buf.extend_from_slice(&ttl.to_be_bytes());
        self.buf.extend_from_slice(&(rdata.len() as u16).to_be_bytes());
        self.buf.extend_from_slice(rdata);
        self.bump(section);
    }
    pub fn rr(&mut self, section: usize, owner: &MName, rtype: u16, class: u16, ttl: u32, rdata: &[u8]) {
        self.rr_raw(section, &owner.wire(), rtype, class, ttl, rdata);
    }
}

#[cfg(test)]
mod tests {
    use super::*;

    #[test]
    fn rfc1035_compression_example() {
        // RFC 1035 §4.1.4: F.ISI.ARPA at 20, FOO.F.ISI.ARPA at 40 with a pointer to 20,
        // ARPA at 64 as a pointer to 26, root at 92.
        let mut buf = vec![0u8; 93];
        buf[20..32].copy_from_slice(b"\x01F\x03ISI\x04ARPA\x00");
        buf[40..44].copy_from_slice(b"\x03FOO");
        buf[44] = 0xc0;
        buf[45] = 20;
        buf[64] = 0xc0;
        buf[65] = 26;
        buf[92] = 0;
        let a = decode_name(&buf, 20).unwrap();
        assert_eq!(a.name.to_text(), "F.ISI.ARPA.");
        assert_eq!(a.first_chunk_len, 12);
        let b = decode_name(&buf, 40).unwrap();
        assert_eq!(b.name.to_text(), "FOO.F.ISI.ARPA.");
        assert_eq!(b.first_chunk_len, 6);
        assert_eq!(b.label_starts, vec![40, 20, 22, 26]);
        let c = decode_name(&buf, 64).unwrap();
        assert_eq!(c.name.to_text(), "ARPA.");
        assert_eq!(c.first_chunk_len, 2);
        let d = decode_name(&buf, 92).unwrap();
        assert_eq!(d.name, MName::root());
        // loops and forward pointers are rejected
        assert_eq!(decode_name(&[0xc0, 0x00], 0), Err(WireErr::BadPointer));
        assert_eq!(decode_name(&[0xc0, 0x02, 0x00], 0), Err(WireErr::BadPointer));
        assert_eq!(decode_name(&[0x40, 0x00], 0), Err(WireErr::BadLabel));
        assert_eq!(decode_name(&[0x01], 0), Err(WireErr::Eom));
        assert_eq!(decode_name(&[], 0), Err(WireErr::Eom));
        assert_eq!(delimit_name(&[0xc0], 0), Err(WireErr::Eom));
        assert_eq!(delimit_name(&[0x01, b'a', 0xc0, 0xff], 0), Ok(4));
    }
}
