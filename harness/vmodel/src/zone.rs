//! R3 — flat reference model of a zone and the RFC 1034 §4.3.2 / RFC 4592
//! lookup, R10 — reference catalog.  No tree, no hashing; no dependency on
//! quandary.

use std::collections::BTreeMap;

use crate::name::MName;
use crate::rdata::{self, C_IN, T_A, T_AAAA, T_CNAME, T_NS};

#[derive(Clone, Debug, PartialEq, Eq)]
pub struct MRrset {
    pub ttl: u32,
    /// de-duplicated, in insertion order
    pub rdatas: Vec<Vec<u8>>,
}

#[derive(Clone, Debug, Default, PartialEq, Eq)]
pub struct MNode {
    /// name as first given (case preserved)
    pub name: Option<MName>,
    pub rrsets: BTreeMap<u16, MRrset>,
}

#[derive(Clone, Debug, PartialEq, Eq)]
pub enum AddError {
    NotInZone,
    ClassMismatch,
    TtlMismatch,
}

#[derive(Clone, Debug)]
pub struct MZone {
    pub apex: MName,
    pub class: u16,
    /// keyed by case-folded owner
    pub nodes: BTreeMap<MName, MNode>,
}

#[derive(Clone, Debug, PartialEq, Eq)]
pub enum Base<'a> {
    /// the node found (None = empty non-terminal), and the wildcard source of synthesis if one was used
    Found(Option<&'a MNode>, Option<MName>),
    /// owner of the delegation and its NS RRset
    Referral(MName, &'a MRrset),
    NxDomain,
    WrongZone,
}

#[derive(Clone, Debug, PartialEq, Eq)]
pub enum Lookup<'a> {
    Found(&'a MRrset, Option<MName>),
    Cname(&'a MRrset, Option<MName>),
    Referral(MName, &'a MRrset),
    NoRecords(Option<MName>),
    NxDomain,
    WrongZone,
}

impl MZone {
    pub fn new(apex: MName, class: u16) -> Self {
        MZone {
            apex,
            class,
            nodes: BTreeMap::new(),
        }
    }

    /// Adds one record with the consistency rules of a zone store: the owner
    /// must be at or below the apex, the class must be the zone's, and all
    /// records of an RRset share one TTL.  Duplicate RDATA (by RDATA equality)
    /// is dropped silently.
    pub fn add(&mut self, owner: &MName, rtype: u16, class: u16, ttl: u32, rd: &[u8]) -> Result<(), AddError> {
        if !owner.at_or_below(&self.apex) {
            return Err(AddError::NotInZone);
        }
        if class != self.class {
            return Err(AddError::ClassMismatch);
        }
        let key = owner.folded();
        if let Some(rs) = self.nodes.get(&key).and_then(|n| n.rrsets.get(&rtype)) {
            if rs.ttl != ttl {
                return Err(AddError::TtlMismatch);
            }
        }
        let node = self.nodes.entry(key).or_default();
        if node.name.is_none() {
            node.name = Some(owner.clone());
        }
        let rs = node.rrsets.entry(rtype).or_insert_with(|| MRrset { ttl, rdatas: Vec::new() });
        if !rs.rdatas.iter().any(|e| rdata::equal(class, rtype, rd, e)) {
            rs.rdatas.push(rd.to_vec());
        }
        Ok(())
    }

    pub fn node(&self, name: &MName) -> Option<&MNode> {
        self.nodes.get(&name.folded())
    }

    /// A name exists if it owns records or has a descendant that does (empty
    /// non-terminal), or is the apex.
    pub fn exists(&self, name: &MName) -> bool {
        name.eq_fold(&self.apex) || self.nodes.keys().any(|k| k.at_or_below(name))
    }

    /// All existing names (owners and empty non-terminals, apex included), folded.
    pub fn all_names(&self) -> Vec<MName> {
        let mut out: std::collections::BTreeSet<MName> = std::collections::BTreeSet::new();
        out.insert(self.apex.folded());
        for k in self.nodes.keys() {
            let mut n = k.clone();
            while n.labels.len() > self.apex.labels.len() {
                out.insert(n.clone());
                n = n.parent().unwrap();
            }
        }
        out.into_iter().collect()
    }

    /// RFC 1034 §4.3.2 step 3 with RFC 4592 wildcards.
    pub fn lookup_base(&self, name: &MName, checked: bool, below_cuts: bool) -> Base<'_> {
        if !name.at_or_below(&self.apex) {
            if checked {
                return Base::WrongZone;
            }
            panic!("model: unchecked lookup outside the zone violates the documented precondition");
        }
        let extra = name.labels.len() - self.apex.labels.len();
        for depth in 1..=extra {
            let n = name.superdomain(extra - depth).unwrap();
            if !self.exists(&n) {
                let ce = n.parent().unwrap();
                let w = ce.child(b"*");
                if self.exists(&w) {
                    return Base::Found(self.node(&w), Some(w));
                }
                return Base::NxDomain;
            }
            if !below_cuts {
                if let Some(ns) = self.node(&n).and_then(|nd| nd.rrsets.get(&T_NS)) {
                    return Base::Referral(n, ns);
                }
            }
        }
        Base::Found(self.node(name), None)
    }

    pub fn lookup(&self, name: &MName, rtype: u16, checked: bool, below_cuts: bool) -> Lookup<'_> {
        match self.lookup_base(name, checked, below_cuts) {
            Base::Found(node, src) => {
                if let Some(rs) = node.and_then(|n| n.rrsets.get(&rtype)) {
                    Lookup::Found(rs, src)
                } else if let Some(rs) = node.and_then(|n| n.rrsets.get(&T_CNAME)) {
                    Lookup::Cname(rs, src)
                } else {
                    Lookup::NoRecords(src)
                }
            }
            Base::Referral(n, ns) => Lookup::Referral(n, ns),
            Base::NxDomain => Lookup::NxDomain,
            Base::WrongZone => Lookup::WrongZone,
        }
    }

    /// (A RRset, AAAA RRset — the latter only in class IN) of a found node.
    pub fn addrs_of<'a>(&self, node: Option<&'a MNode>) -> (Option<&'a MRrset>, Option<&'a MRrset>) {
        let a = node.and_then(|n| n.rrsets.get(&T_A));
        let aaaa = if self.class == C_IN { node.and_then(|n| n.rrsets.get(&T_AAAA)) } else { None };
        (a, aaaa)
    }
}

////////////////////////////////////////////////////////////////////////
// R10 CATALOG                                                        //
////////////////////////////////////////////////////////////////////////

/// Reference catalog: entries keyed by (class, folded name).
#[derive(Clone, Debug, Default)]
pub struct MCatalog<E> {
    pub entries: BTreeMap<(u16, MName), E>,
}

impl<E> MCatalog<E> {
    pub fn new() -> Self {
        MCatalog { entries: BTreeMap::new() }
    }
    pub fn insert(&mut self, name: &MName, class: u16, e: E) -> Option<E> {
        self.entries.insert((class, name.folded()), e)
    }
    pub fn remove(&mut self, name: &MName, class: u16) -> Option<E> {
        self.entries.remove(&(class, name.folded()))
    }
    pub fn get(&self, name: &MName, class: u16) -> Option<&E> {
        self.entries.get(&(class, name.folded()))
    }
    /// The entry of `class` whose name is the longest suffix of `name`.
    pub fn lookup(&self, name: &MName, class: u16) -> Option<(&MName, &E)> {
        let mut n = name.folded();
        loop {
            if let Some((k, e)) = self.entries.get_key_value(&(class, n.clone())) {
                return Some((&k.1, e));
            }
            n = n.parent()?;
        }
    }
}

#[cfg(test)]
mod tests {
    use super::*;

    fn n(s: &str) -> MName {
        MName::parse_text(s).unwrap()
    }

    /// RFC 4592 §2.2.1 example zone and the responses listed there.
    #[test]
    fn rfc4592_example() {
        let mut z = MZone::new(n("example."), 1);
        let a = |z: &mut MZone, o: &str, t: u16| z.add(&n(o), t, 1, 3600, b"x").unwrap();
        a(&mut z, "example.", 6);
        a(&mut z, "example.", 2);
        a(&mut z, "*.example.", 16);
        a(&mut z, "*.example.", 15);
        a(&mut z, "sub.*.example.", 16);
        a(&mut z, "host1.example.", 1);
        a(&mut z, "_ssh._tcp.host1.example.", 33);
        a(&mut z, "_ssh._tcp.host2.example.", 33);
        a(&mut z, "subdel.example.", 2);
        // synthesized from the wildcard
        assert!(matches!(z.lookup(&n("host3.example."), 15, true, false), Lookup::Found(_, Some(_))));
        assert!(matches!(z.lookup(&n("host3.example."), 1, true, false), Lookup::NoRecords(Some(_))));
        assert!(matches!(z.lookup(&n("foo.bar.example."), 16, true, false), Lookup::Found(_, Some(_))));
        // not synthesized
        assert!(matches!(z.lookup(&n("host1.example."), 15, true, false), Lookup::NoRecords(None)));
        assert!(matches!(z.lookup(&n("sub.*.example."), 15, true, false), Lookup::NoRecords(None)));
        assert!(matches!(z.lookup(&n("_telnet._tcp.host1.example."), 33, true, false), Lookup::NxDomain));
        assert!(matches!(z.lookup(&n("host.subdel.example."), 1, true, false), Lookup::Referral(_, _)));
        assert!(matches!(z.lookup(&n("ghost.*.example."), 15, true, false), Lookup::NxDomain));
        // empty non-terminal: _tcp.host1.example exists without data
        assert!(matches!(z.lookup(&n("_tcp.host1.example."), 1, true, false), Lookup::NoRecords(None)));
        assert!(matches!(z.lookup(&n("other."), 1, true, false), Lookup::WrongZone));
        // below cuts
        assert!(matches!(z.lookup(&n("subdel.example."), 2, true, true), Lookup::Found(_, None)));
    }

    #[test]
    fn catalog_longest_match() {
        let mut c: MCatalog<u32> = MCatalog::new();
        c.insert(&n("test."), 1, 1);
        c.insert(&n("a.test."), 1, 2);
        c.insert(&n("."), 3, 3);
        assert_eq!(c.lookup(&n("x.a.test."), 1).map(|e| *e.1), Some(2));
        assert_eq!(c.lookup(&n("b.test."), 1).map(|e| *e.1), Some(1));
        assert_eq!(c.lookup(&n("b.test."), 3).map(|e| *e.1), Some(3));
        assert_eq!(c.lookup(&n("other."), 1).map(|e| *e.1), None);
        c.remove(&n("a.test."), 1);
        assert_eq!(c.lookup(&n("x.a.test."), 1).map(|e| *e.1), Some(1));
    }
}

////////////////////////////////////////////////////////////////////////
// R11 ZONE VALIDATION                                                //
////////////////////////////////////////////////////////////////////////

/// Semantic issues of a zone (names case-folded).
#[derive(Clone, Debug, PartialEq, Eq, PartialOrd, Ord, Hash)]
pub enum Issue {
    MissingApexSoa,
    TooManyApexSoas,
    MissingApexNs,
    MissingNsAddress(MName),
    MissingMxAddress(MName),
    MissingGlue(MName),
    DuplicateCname(MName),
    OtherRecordsAtCname(MName),
    NsAtWildcard(MName),
}

impl Issue {
    /// Only the MX-address and NS-at-wildcard issues are warnings.
    pub fn is_error(&self) -> bool {
        !matches!(self, Issue::MissingMxAddress(_) | Issue::NsAtWildcard(_))
    }
}

/// The reference checker (DESIGN.md Appendix D).  `wide_glue`: glue is required
/// for every name server that lies below any zone cut; otherwise only when it
/// lies below the cut of the delegation being checked.  Err(()) when RDATA that
/// must be inspected (NS targets, MX exchanges in classes with addresses) is
/// malformed.
pub fn validate(z: &MZone, wide_glue: bool) -> Result<std::collections::BTreeSet<Issue>, ()> {
    use crate::rdata::{C_CH, T_MX, T_SOA};
    let mut issues = std::collections::BTreeSet::new();
    let has_addrs = z.class == C_IN || z.class == C_CH;
    let addressed = |node: Option<&MNode>| {
        let (a, aaaa) = z.addrs_of(node);
        a.is_some() || aaaa.is_some()
    };
    let apex = z.node(&z.apex);
    match apex.and_then(|n| n.rrsets.get(&T_SOA)) {
        None => {
            issues.insert(Issue::MissingApexSoa);
        }
        Some(rs) if rs.rdatas.len() != 1 => {
            issues.insert(Issue::TooManyApexSoas);
        }
        _ => {}
    }
    let parse_all = |rd: &[u8]| -> Result<MName, ()> {
        match MName::from_wire(rd) {
            Some((n, len)) if len == rd.len() => Ok(n),
            _ => Err(()),
        }
    };
    match apex.and_then(|n| n.rrsets.get(&T_NS)) {
        None => {
            issues.insert(Issue::MissingApexNs);
        }
        Some(rs) => {
            if has_addrs {
                for rd in &rs.rdatas {
                    let t = parse_all(rd)?;
                    match z.lookup_base(&t, true, false) {
                        Base::Found(node, _) => {
                            if !addressed(node) {
                                issues.insert(Issue::MissingNsAddress(t.folded()));
                            }
                        }
                        Base::NxDomain => {
                            issues.insert(Issue::MissingNsAddress(t.folded()));
                        }
                        Base::Referral(..) | Base::WrongZone => {}
                    }
                }
            }
        }
    }
    for (owner, node) in &z.nodes {
        if let Some(cn) = node.rrsets.get(&T_CNAME) {
            if node.rrsets.len() != 1 {
                issues.insert(Issue::OtherRecordsAtCname(owner.clone()));
            }
            if cn.rdatas.len() != 1 {
                issues.insert(Issue::DuplicateCname(owner.clone()));
            }
        }
        if let Some(mx) = node.rrsets.get(&T_MX) {
            if has_addrs {
                for rd in &mx.rdatas {
                    let t = parse_all(rd.get(2..).ok_or(())?)?;
                    match z.lookup_base(&t, true, false) {
                        Base::Found(n, _) => {
                            if !addressed(n) {
                                issues.insert(Issue::MissingMxAddress(t.folded()));
                            }
                        }
                        Base::NxDomain => {
                            issues.insert(Issue::MissingMxAddress(t.folded()));
                        }
                        _ => {}
                    }
                }
            }
        }
        if let Some(ns) = node.rrsets.get(&T_NS) {
            if owner.is_wildcard() {
                issues.insert(Issue::NsAtWildcard(owner.clone()));
            }
            let at_apex = owner.eq_fold(&z.apex);
            if !at_apex && has_addrs {
                for rd in &ns.rdatas {
                    let t = parse_all(rd)?;
                    match z.lookup_base(&t, true, false) {
                        Base::Found(n, _) => {
                            if !addressed(n) {
                                issues.insert(Issue::MissingNsAddress(t.folded()));
                            }
                        }
                        Base::NxDomain => {
                            issues.insert(Issue::MissingNsAddress(t.folded()));
                        }
                        Base::Referral(cut, _) => {
                            let needed = wide_glue || cut.eq_fold(owner);
                            if needed {
                                let ok = match z.lookup_base(&t, true, true) {
                                    Base::Found(n, _) => addressed(n),
                                    _ => false,
                                };
                                if !ok {
                                    issues.insert(Issue::MissingGlue(t.folded()));
                                }
                            }
                        }
                        Base::WrongZone => {}
                    }
                }
            }
        }
    }
    Ok(issues)
}
