//! R4 — reference resolution (DESIGN.md Appendix A): RFC 1034 §4.3.2 with
//! RFC 4592 wildcards, RFC 6604 CNAME-chain RCODEs, in-zone CNAME chasing,
//! referrals with glue, additional-section processing and RFC 2308 negative
//! answers.  Built on the flat zone model; no dependency on quandary.

use crate::name::MName;
use crate::rdata::*;
use crate::zone::{Base, MCatalog, MNode, MRrset, MZone};

#[derive(Clone, Debug)]
pub enum MEntry {
    Loaded(MZone),
    NotYetLoaded,
    FailedToLoad,
}

#[derive(Clone, Debug, PartialEq, Eq, PartialOrd, Ord, Hash)]
pub struct MRec {
    pub owner: MName,
    pub rtype: u16,
    pub class: u16,
    pub ttl: u32,
    pub rdata: Vec<u8>,
}

#[derive(Clone, Debug, Default, PartialEq, Eq)]
pub struct Answer {
    pub rcode: u8,
    pub aa: bool,
    pub answer: Vec<MRec>,
    pub authority: Vec<MRec>,
    /// additional records that may not be dropped (glue at or below the delegation)
    pub additional_mandatory: Vec<MRec>,
    /// additional records that may be dropped when space is short
    pub additional_optional: Vec<MRec>,
    /// wildcard owner used to synthesise the first answer, if any (for RRL stream keys)
    pub source_of_synthesis: Option<MName>,
    /// labels describing which paths of the algorithm were taken
    pub tags: Vec<&'static str>,
}

#[derive(Clone, Debug, PartialEq, Eq)]
pub enum Outcome {
    NotImp,
    Refused,
    ServFail,
    Answer(Answer),
}

pub const RC_NOERROR: u8 = 0;
pub const RC_FORMERR: u8 = 1;
pub const RC_SERVFAIL: u8 = 2;
pub const RC_NXDOMAIN: u8 = 3;
pub const RC_NOTIMP: u8 = 4;
pub const RC_REFUSED: u8 = 5;
pub const RC_NOTAUTH: u8 = 9;

pub const MAX_CNAME_LINKS: usize = 8;

fn recs(owner: &MName, rtype: u16, class: u16, rs: &MRrset) -> Vec<MRec> {
    rs.rdatas
        .iter()
        .map(|rd| MRec {
            owner: owner.clone(),
            rtype,
            class,
            ttl: rs.ttl,
            rdata: rd.clone(),
        })
        .collect()
}

fn name_at(rd: &[u8], offset: usize) -> Option<MName> {
    let s = rd.get(offset..)?;
    match MName::from_wire(s) {
        Some((n, len)) if len == s.len() => Some(n),
        _ => None,
    }
}

/// A and (class IN) AAAA records of the node that an ordinary checked lookup
/// of `name` finds, owned by `name`.
fn addresses(zone: &MZone, name: &MName, below_cuts: bool) -> Vec<MRec> {
    let mut out = Vec::new();
    if let Base::Found(node, _) = zone.lookup_base(name, true, below_cuts) {
        let (a, aaaa) = zone.addrs_of(node);
        if let Some(a) = a {
            out.extend(recs(name, T_A, zone.class, a));
        }
        if let Some(aaaa) = aaaa {
            out.extend(recs(name, T_AAAA, zone.class, aaaa));
        }
    }
    out
}

/// Additional-section processing for an answer RRset (RFC 1034 §3.6/§4.3.2,
/// RFC 1035 §3.3, RFC 2782, RFC 3596).  Err = malformed RDATA in the zone.
fn additional_for(zone: &MZone, rtype: u16, rs: &MRrset, out: &mut Vec<MRec>) -> Result<(), ()> {
    if zone.class != C_IN && zone.class != C_CH {
        return Ok(());
    }
    let offset = match rtype {
        T_NS | T_MB | T_MD | T_MF => 0,
        T_MX => 2,
        T_SRV => 6,
        _ => return Ok(()),
    };
    for rd in &rs.rdatas {
        let t = name_at(rd, offset).ok_or(())?;
        out.extend(addresses(zone, &t, false));
    }
    Ok(())
}

fn negative_soa(zone: &MZone) -> Result<MRec, ()> {
    let soa = zone.node(&zone.apex).and_then(|n| n.rrsets.get(&T_SOA)).ok_or(())?;
    let rd = soa.rdatas.first().ok_or(())?;
    let fields = split_fields(zone.class, T_SOA, rd).ok_or(())?;
    let fixed = fields[2].1;
    let minimum = u32::from_be_bytes([fixed[16], fixed[17], fixed[18], fixed[19]]);
    // RFC 2308 §3: "the TTL of this record is set from the minimum of the
    // MINIMUM field of the SOA record and the TTL of the SOA itself"
    let ttl = std::cmp::min(soa.ttl, minimum);
    Ok(MRec {
        owner: zone.apex.clone(),
        rtype: T_SOA,
        class: zone.class,
        ttl,
        rdata: rd.clone(),
    })
}

fn negative_soa_tagged(zone: &MZone, ans: &mut Answer) -> Result<MRec, ()> {
    match negative_soa(zone) {
        Ok(r) => Ok(r),
        Err(()) => {
            ans.tags.push("no-usable-soa");
            Err(())
        }
    }
}

fn referral(zone: &MZone, cut: &MName, ns: &MRrset, ans: &mut Answer) -> Result<(), ()> {
    ans.authority.extend(recs(cut, T_NS, zone.class, ns));
    ans.tags.push("referral");
    let mut glue = Vec::new();
    let mut other = Vec::new();
    for rd in &ns.rdatas {
        let t = name_at(rd, 0).ok_or(())?;
        let addrs = addresses(zone, &t, true);
        if t.at_or_below(cut) {
            glue.extend(addrs);
        } else {
            other.extend(addrs);
        }
    }
    if !glue.is_empty() {
        ans.tags.push("referral-with-in-bailiwick-glue");
    }
    if !other.is_empty() {
        ans.tags.push("referral-with-sibling-or-parent-side-addresses");
    }
    ans.additional_mandatory.extend(glue);
    ans.additional_optional.extend(other);
    Ok(())
}

/// Answers a query from one zone.  Err(()) = SERVFAIL.
pub fn answer_from_zone(zone: &MZone, qname: &MName, qtype: u16) -> Result<Answer, ()> {
    answer_from_zone_tagged(zone, qname, qtype).0
}

/// As `answer_from_zone`, also returning the path tags when the result is SERVFAIL.
pub fn answer_from_zone_tagged(zone: &MZone, qname: &MName, qtype: u16) -> (Result<Answer, ()>, Vec<&'static str>) {
    let mut ans = Answer::default();
    match answer_into(zone, qname, qtype, &mut ans) {
        Ok(()) => {
            let tags = ans.tags.clone();
            (Ok(ans), tags)
        }
        Err(()) => {
            let mut tags = ans.tags.clone();
            tags.push("servfail");
            (Err(()), tags)
        }
    }
}

fn answer_into(zone: &MZone, qname: &MName, qtype: u16, ans: &mut Answer) -> Result<(), ()> {
    let base = zone.lookup_base(qname, false, false);
    match base {
        Base::WrongZone => unreachable!(),
        Base::Referral(cut, ns) => {
            referral(zone, &cut, ns, ans)?;
            Ok(())
        }
        Base::NxDomain => {
            ans.aa = true;
            ans.rcode = RC_NXDOMAIN;
            ans.tags.push("nxdomain");
            {
                let soa = negative_soa_tagged(zone, ans)?;
                ans.authority.push(soa);
            }
            Ok(())
        }
        Base::Found(node, src) => {
            ans.aa = true;
            if src.is_some() {
                ans.tags.push("wildcard");
            }
            ans.source_of_synthesis = src;
            if qtype == T_ANY {
                ans.tags.push("any");
                let sets: Vec<(&u16, &MRrset)> = node.map_or(Vec::new(), |n| n.rrsets.iter().collect());
                if sets.is_empty() {
                    ans.tags.push("nodata");
                    {
                let soa = negative_soa_tagged(zone, ans)?;
                ans.authority.push(soa);
            }
                } else {
                    for (t, rs) in sets {
                        ans.answer.extend(recs(qname, *t, zone.class, rs));
                    }
                }
                return Ok(());
            }
            if let Some(rs) = node.and_then(|n| n.rrsets.get(&qtype)) {
                ans.answer.extend(recs(qname, qtype, zone.class, rs));
                let before = ans.additional_optional.len();
                additional_for(zone, qtype, rs, &mut ans.additional_optional)?;
                if ans.additional_optional.len() > before {
                    ans.tags.push("additional-data");
                }
                return Ok(());
            }
            if let Some(cn) = node.and_then(|n| n.rrsets.get(&T_CNAME)) {
                chase(zone, qname, qtype, cn, ans)?;
                return Ok(());
            }
            if node.is_none() {
                ans.tags.push("nodata-at-empty-non-terminal");
            } else {
                ans.tags.push("nodata");
            }
            {
                let soa = negative_soa_tagged(zone, ans)?;
                ans.authority.push(soa);
            }
            Ok(())
        }
    }
}

fn has<'a>(node: Option<&'a MNode>, t: u16) -> Option<&'a MRrset> {
    node.and_then(|n| n.rrsets.get(&t))
}

fn chase(zone: &MZone, qname: &MName, qtype: u16, first: &MRrset, ans: &mut Answer) -> Result<(), ()> {
    let mut seen: Vec<MName> = vec![qname.folded()];
    let mut owner = qname.clone();
    let mut cname = first;
    let mut links = 0usize;
    loop {
        let t = name_at(cname.rdatas.first().ok_or(())?, 0).ok_or(())?;
        if seen.contains(&t.folded()) {
            ans.tags.push("cname-loop");
            return Err(());
        }
        ans.answer.push(MRec {
            owner: owner.clone(),
            rtype: T_CNAME,
            class: zone.class,
            ttl: cname.ttl,
            rdata: t.wire(),
        });
        links += 1;
        if links >= 2 {
            ans.tags.push("cname-chain>=2");
        }
        match zone.lookup_base(&t, true, false) {
            Base::WrongZone => {
                ans.tags.push("cname-to-outside");
                return Ok(());
            }
            Base::Referral(cut, ns) => {
                ans.tags.push("cname-to-referral");
                return referral(zone, &cut, ns, ans);
            }
            Base::NxDomain => {
                ans.tags.push("cname-to-nxdomain");
                ans.rcode = RC_NXDOMAIN;
                ans.authority.push(negative_soa(zone)?);
                return Ok(());
            }
            Base::Found(node, _) => {
                if let Some(rs) = has(node, qtype) {
                    ans.answer.extend(recs(&t, qtype, zone.class, rs));
                    let before = ans.additional_optional.len();
                    additional_for(zone, qtype, rs, &mut ans.additional_optional)?;
                    if ans.additional_optional.len() > before {
                        ans.tags.push("additional-data");
                    }
                    return Ok(());
                }
                if let Some(next) = has(node, T_CNAME) {
                    if links >= MAX_CNAME_LINKS {
                        ans.tags.push("cname-chain-too-long");
                        return Err(());
                    }
                    seen.push(t.folded());
                    owner = t;
                    cname = next;
                    continue;
                }
                ans.tags.push("cname-to-nodata");
                ans.authority.push(negative_soa(zone)?);
                return Ok(());
            }
        }
    }
}

/// Zone selection and unsupported queries (Appendix A `respond`).
pub fn respond(catalog: &MCatalog<MEntry>, qname: &MName, qtype: u16, qclass: u16) -> Outcome {
    if matches!(qtype, T_AXFR | T_IXFR | T_MAILA | T_MAILB) || qclass == C_ANY {
        return Outcome::NotImp;
    }
    match catalog.lookup(qname, qclass) {
        None => Outcome::Refused,
        Some((_, MEntry::NotYetLoaded)) | Some((_, MEntry::FailedToLoad)) => Outcome::ServFail,
        Some((_, MEntry::Loaded(zone))) => match answer_from_zone(zone, qname, qtype) {
            Ok(a) => Outcome::Answer(a),
            Err(()) => Outcome::ServFail,
        },
    }
}

/// As `respond`, plus the path tags (also for SERVFAIL outcomes of a loaded zone).
pub fn respond_tagged(catalog: &MCatalog<MEntry>, qname: &MName, qtype: u16, qclass: u16) -> (Outcome, Vec<&'static str>) {
    let o = respond(catalog, qname, qtype, qclass);
    let tags = match (&o, catalog.lookup(qname, qclass)) {
        (Outcome::Answer(a), _) => a.tags.clone(),
        (Outcome::ServFail, Some((_, MEntry::Loaded(zone)))) => answer_from_zone_tagged(zone, qname, qtype).1,
        _ => Vec::new(),
    };
    (o, tags)
}

#[cfg(test)]
mod tests {
    use super::*;

    fn n(s: &str) -> MName {
        MName::parse_text(s).unwrap()
    }

    fn soa_rdata(minimum: u32) -> Vec<u8> {
        let mut rd = n("ns.example.").wire();
        rd.extend_from_slice(&n("admin.example.").wire());
        rd.extend_from_slice(&[0u8; 16]);
        rd.extend_from_slice(&minimum.to_be_bytes());
        rd
    }

    #[test]
    fn basic_paths() {
        let mut z = MZone::new(n("example."), C_IN);
        z.add(&n("example."), T_SOA, C_IN, 60, &soa_rdata(3600)).unwrap();
        z.add(&n("example."), T_NS, C_IN, 300, &n("ns.example.").wire()).unwrap();
        z.add(&n("ns.example."), T_A, C_IN, 300, &[10, 0, 0, 1]).unwrap();
        z.add(&n("a.example."), T_CNAME, C_IN, 300, &n("b.example.").wire()).unwrap();
        z.add(&n("b.example."), T_CNAME, C_IN, 300, &n("ns.example.").wire()).unwrap();
        z.add(&n("l1.example."), T_CNAME, C_IN, 300, &n("l2.example.").wire()).unwrap();
        z.add(&n("l2.example."), T_CNAME, C_IN, 300, &n("l1.example.").wire()).unwrap();
        z.add(&n("sub.example."), T_NS, C_IN, 300, &n("ns.sub.example.").wire()).unwrap();
        z.add(&n("ns.sub.example."), T_A, C_IN, 300, &[10, 0, 0, 2]).unwrap();
        let mut c = MCatalog::new();
        c.insert(&n("example."), C_IN, MEntry::Loaded(z));
        // negative answer: SOA TTL = min(60, 3600)
        match respond(&c, &n("nope.example."), T_A, C_IN) {
            Outcome::Answer(a) => {
                assert_eq!(a.rcode, RC_NXDOMAIN);
                assert!(a.aa);
                assert_eq!(a.authority[0].ttl, 60);
            }
            o => panic!("{o:?}"),
        }
        // chain of two CNAMEs ending in data
        match respond(&c, &n("a.example."), T_A, C_IN) {
            Outcome::Answer(a) => {
                assert_eq!(a.answer.len(), 3);
                assert_eq!(a.answer[2].owner, n("ns.example."));
            }
            o => panic!("{o:?}"),
        }
        assert_eq!(respond(&c, &n("l1.example."), T_A, C_IN), Outcome::ServFail);
        match respond(&c, &n("x.sub.example."), T_A, C_IN) {
            Outcome::Answer(a) => {
                assert!(!a.aa);
                assert_eq!(a.authority.len(), 1);
                assert_eq!(a.additional_mandatory.len(), 1);
            }
            o => panic!("{o:?}"),
        }
        assert_eq!(respond(&c, &n("example."), T_AXFR, C_IN), Outcome::NotImp);
        assert_eq!(respond(&c, &n("example."), T_A, C_ANY), Outcome::NotImp);
        assert_eq!(respond(&c, &n("other."), T_A, C_IN), Outcome::Refused);
        assert_eq!(respond(&c, &n("example."), T_A, C_CH), Outcome::Refused);
        // NS answer with additional data
        match respond(&c, &n("example."), T_NS, C_IN) {
            Outcome::Answer(a) => assert_eq!(a.additional_optional.len(), 1),
            o => panic!("{o:?}"),
        }
    }
}
