//! R2 — reference model of domain names (RFC 1034 §3.1, RFC 1035 §3.1/§5.1,
//! RFC 4343 §2.1, RFC 4034 §6.1).  No dependency on quandary.

use std::cmp::Ordering;

/// A domain name as a list of non-root labels, leftmost first.  The root is
/// the empty list.
#[derive(Clone, Debug, PartialEq, Eq, Hash, PartialOrd, Ord, serde::Serialize, serde::Deserialize)]
pub struct MName {
    pub labels: Vec<Vec<u8>>,
}

pub const MAX_WIRE: usize = 255;
pub const MAX_LABEL: usize = 63;

impl MName {
    pub fn root() -> Self {
        MName { labels: Vec::new() }
    }

    /// Builds a name, checking the RFC 1035 size limits.
    pub fn new(labels: Vec<Vec<u8>>) -> Option<Self> {
        let n = MName { labels };
        if n.is_valid() {
            Some(n)
        } else {
            None
        }
    }

    pub fn is_valid(&self) -> bool {
        self.labels.iter().all(|l| !l.is_empty() && l.len() <= MAX_LABEL) && self.wire_len() <= MAX_WIRE
    }

    pub fn wire_len(&self) -> usize {
        self.labels.iter().map(|l| l.len() + 1).sum::<usize>() + 1
    }

    /// Uncompressed wire form.
    pub fn wire(&self) -> Vec<u8> {
        let mut out = Vec::with_capacity(self.wire_len());
        for l in &self.labels {
            out.push(l.len() as u8);
            out.extend_from_slice(l);
        }
        out.push(0);
        out
    }

    /// Parses an uncompressed wire-form name at the start of `buf`; returns the
    /// name and its length.
    pub fn from_wire(buf: &[u8]) -> Option<(MName, usize)> {
        let mut labels = Vec::new();
        let mut pos = 0usize;
        loop {
            let len = *buf.get(pos)? as usize;
            if len == 0 {
                pos += 1;
                break;
            }
            if len > MAX_LABEL {
                return None;
            }
            let l = buf.get(pos + 1..pos + 1 + len)?;
            labels.push(l.to_vec());
            pos += 1 + len;
            if pos + 1 > MAX_WIRE {
                return None;
            }
        }
        Some((MName { labels }, pos))
    }

    /// Number of labels counting the root label (quandary's `len()`).
    pub fn n_labels_with_root(&self) -> usize {
        self.labels.len() + 1
    }

    pub fn folded(&self) -> MName {
        MName {
            labels: self.labels.iter().map(|l| l.to_ascii_lowercase()).collect(),
        }
    }

    pub fn eq_fold(&self, other: &MName) -> bool {
        self.labels.len() == other.labels.len()
            && self
                .labels
                .iter()
                .zip(other.labels.iter())
                .all(|(a, b)| a.eq_ignore_ascii_case(b))
    }

    /// self is equal to or a subdomain of `other` (case-insensitive).
    pub fn at_or_below(&self, other: &MName) -> bool {
        if self.labels.len() < other.labels.len() {
            return false;
        }
        let skip = self.labels.len() - other.labels.len();
        self.labels[skip..]
            .iter()
            .zip(other.labels.iter())
            .all(|(a, b)| a.eq_ignore_ascii_case(b))
    }

    /// The name with the first `skip` labels removed; None if skip exceeds the
    /// number of labels counting the root.
    pub fn superdomain(&self, skip: usize) -> Option<MName> {
        if skip <= self.labels.len() {
            Some(MName {
                labels: self.labels[skip..].to_vec(),
            })
        } else {
            None
        }
    }

    pub fn parent(&self) -> Option<MName> {
        if self.labels.is_empty() {
            None
        } else {
            self.superdomain(1)
        }
    }

    pub fn child(&self, label: &[u8]) -> MName {
        let mut labels = Vec::with_capacity(self.labels.len() + 1);
        labels.push(label.to_vec());
        labels.extend(self.labels.iter().cloned());
        MName { labels }
    }

    pub fn is_wildcard(&self) -> bool {
        self.labels.first().map_or(false, |l| l == b"*")
    }

    /// RFC 4034 §6.1 canonical order: names are sorted as sequences of labels
    /// read right to left; labels compare as left-justified octet strings with
    /// upper-case US-ASCII folded to lower case; a missing label sorts first.
    pub fn canonical_cmp(&self, other: &MName) -> Ordering {
        let a: Vec<Vec<u8>> = self.labels.iter().rev().map(|l| l.to_ascii_lowercase()).collect();
        let b: Vec<Vec<u8>> = other.labels.iter().rev().map(|l| l.to_ascii_lowercase()).collect();
        a.cmp(&b)
    }

    /// Master-file text form (RFC 1035 §5.1): every label followed by a dot;
    /// '.' and '\\' and anything outside 0x21..=0x7e escaped.  `style` selects
    /// among equivalent escapes so that parsers see variety: bit 0 = use \DDD
    /// for '.'/'\\' as well.
    pub fn to_text(&self) -> String {
        if self.labels.is_empty() {
            return ".".to_string();
        }
        let mut s = String::new();
        for l in &self.labels {
            for &b in l {
                if b == b'.' || b == b'\\' {
                    s.push('\\');
                    s.push(b as char);
                } else if (0x21..=0x7e).contains(&b) {
                    s.push(b as char);
                } else {
                    s.push_str(&format!("\\{:03}", b));
                }
            }
            s.push('.');
        }
        s
    }

    /// Parses an absolute name in master-file text form.  Accepts exactly:
    /// "." or a sequence of non-empty labels each followed by '.', labels of at
    /// most 63 octets, total wire length at most 255, ASCII only, escapes
    /// "\DDD" (000-255) and "\X" for a non-digit X.
    pub fn parse_text(s: &str) -> Option<MName> {
        let b = s.as_bytes();
        if b.is_empty() {
            return None;
        }
        if s == "." {
            return Some(MName::root());
        }
        let mut labels: Vec<Vec<u8>> = Vec::new();
        let mut cur: Vec<u8> = Vec::new();
        let mut i = 0;
        let mut ended_with_dot = false;
        while i < b.len() {
            let c = b[i];
            ended_with_dot = false;
            if c == b'\\' {
                let n = *b.get(i + 1)?;
                if n.is_ascii_digit() {
                    let d1 = *b.get(i + 2)?;
                    let d2 = *b.get(i + 3)?;
                    if !d1.is_ascii_digit() || !d2.is_ascii_digit() {
                        return None;
                    }
                    let v = (n - b'0') as u32 * 100 + (d1 - b'0') as u32 * 10 + (d2 - b'0') as u32;
                    if v > 255 {
                        return None;
                    }
                    cur.push(v as u8);
                    i += 4;
                } else {
                    if !n.is_ascii() {
                        return None;
                    }
                    cur.push(n);
                    i += 2;
                }
            } else if c == b'.' {
                if cur.is_empty() {
                    return None;
                }
                labels.push(std::mem::take(&mut cur));
                ended_with_dot = true;
                i += 1;
            } else if !c.is_ascii() {
                return None;
            } else {
                cur.push(c);
                i += 1;
            }
            if cur.len() > MAX_LABEL {
                return None;
            }
        }
        if !ended_with_dot {
            return None;
        }
        MName::new(labels)
    }
}

impl std::fmt::Display for MName {
    fn fmt(&self, f: &mut std::fmt::Formatter<'_>) -> std::fmt::Result {
        f.write_str(&self.to_text())
    }
}

#[cfg(test)]
mod tests {
    use super::*;

    fn n(s: &str) -> MName {
        MName::parse_text(s).unwrap()
    }

    #[test]
    fn rfc4034_order_example() {
        // RFC 4034 §6.1 example list, already sorted.
        let sorted = [
            "example.",
            "a.example.",
            "yljkjljk.a.example.",
            "Z.a.example.",
            "zABC.a.EXAMPLE.",
            "z.example.",
            "\\001.z.example.",
            "*.z.example.",
            "\\200.z.example.",
        ];
        for i in 0..sorted.len() {
            for j in 0..sorted.len() {
                assert_eq!(n(sorted[i]).canonical_cmp(&n(sorted[j])), i.cmp(&j), "{} vs {}", sorted[i], sorted[j]);
            }
        }
    }

    #[test]
    fn text_roundtrip_and_limits() {
        assert_eq!(n("a\\.b.c.").labels, vec![b"a.b".to_vec(), b"c".to_vec()]);
        assert_eq!(n("\\065.").labels, vec![b"A".to_vec()]);
        assert!(MName::parse_text("a").is_none());
        assert!(MName::parse_text("a..b.").is_none());
        assert!(MName::parse_text(".a.").is_none());
        assert!(MName::parse_text("\\256.").is_none());
        assert!(MName::parse_text("\\25.").is_none());
        assert!(MName::parse_text("").is_none());
        let l63 = "x".repeat(63);
        let l64 = "x".repeat(64);
        assert!(MName::parse_text(&format!("{l63}.")).is_some());
        assert!(MName::parse_text(&format!("{l64}.")).is_none());
        // 255 octets: 3*64 + 62 + 1 = 255
        let ok = format!("{l63}.{l63}.{l63}.{}.", "y".repeat(61));
        assert_eq!(n(&ok).wire_len(), 255);
        let bad = format!("{l63}.{l63}.{l63}.{}.", "y".repeat(62));
        assert!(MName::parse_text(&bad).is_none());
        let m = n("A.b\\032c.");
        assert_eq!(MName::parse_text(&m.to_text()).unwrap(), m);
        assert!(n("www.Example.").at_or_below(&n("example.")));
        assert!(!n("example.").at_or_below(&n("www.example.")));
        assert_eq!(MName::from_wire(&n("ab.c.").wire()).unwrap(), (n("ab.c."), 6));
    }
}
