//! R8 — an independent zone-file pretty-printer (RFC 1035 §5, RFC 2308 §4 `$TTL`,
//! RFC 3597 §5 generic forms).  Given a list of records it emits master-file
//! text, making a presentation choice for every field from a "choice tape"
//! (so that a test library can shrink the choices towards the plainest form),
//! and returns the records with the line each one starts on.  It never emits
//! text with more than one reading.  No dependency on quandary.

use std::net::Ipv6Addr;

use crate::name::MName;
use crate::rdata::*;

/// Semantic RDATA of the types the printer can render in type-specific text.
#[derive(Clone, Debug, PartialEq, Eq, Hash, serde::Serialize, serde::Deserialize)]
pub enum RData {
    A([u8; 4]),
    Aaaa([u8; 16]),
    /// NS, MD, MF, CNAME, MB, MG, MR, PTR
    Name(u16, MName),
    Soa { mname: MName, rname: MName, serial: u32, refresh: u32, retry: u32, expire: u32, minimum: u32 },
    Mx(u16, MName),
    Minfo(MName, MName),
    Hinfo(Vec<u8>, Vec<u8>),
    Txt(Vec<Vec<u8>>),
    Srv { priority: u16, weight: u16, port: u16, target: MName },
    ChA(MName, u16),
    Wks { addr: [u8; 4], proto: u8, ports: Vec<u16> },
    /// any other type (or a known type in a class where it is not defined): generic form only
    Generic(u16, Vec<u8>),
}

impl RData {
    pub fn rtype(&self) -> u16 {
        match self {
            RData::A(_) | RData::ChA(..) => T_A,
            RData::Aaaa(_) => T_AAAA,
            RData::Name(t, _) => *t,
            RData::Soa { .. } => T_SOA,
            RData::Mx(..) => T_MX,
            RData::Minfo(..) => T_MINFO,
            RData::Hinfo(..) => T_HINFO,
            RData::Txt(_) => T_TXT,
            RData::Srv { .. } => T_SRV,
            RData::Wks { .. } => T_WKS,
            RData::Generic(t, _) => *t,
        }
    }

    /// Wire form per the defining RFCs.
    pub fn wire(&self) -> Vec<u8> {
        match self {
            RData::A(a) => a.to_vec(),
            RData::Aaaa(a) => a.to_vec(),
            RData::Name(_, n) => n.wire(),
            RData::Soa { mname, rname, serial, refresh, retry, expire, minimum } => {
                let mut v = mname.wire();
                v.extend(rname.wire());
                for x in [serial, refresh, retry, expire, minimum] {
                    v.extend_from_slice(&x.to_be_bytes());
                }
                v
            }
            RData::Mx(p, n) => {
                let mut v = p.to_be_bytes().to_vec();
                v.extend(n.wire());
                v
            }
            RData::Minfo(a, b) => {
                let mut v = a.wire();
                v.extend(b.wire());
                v
            }
            RData::Hinfo(a, b) => {
                let mut v = vec![a.len() as u8];
                v.extend_from_slice(a);
                v.push(b.len() as u8);
                v.extend_from_slice(b);
                v
            }
            RData::Txt(strings) => {
                let mut v = Vec::new();
                for s in strings {
                    v.push(s.len() as u8);
                    v.extend_from_slice(s);
                }
                v
            }
            RData::Srv { priority, weight, port, target } => {
                let mut v = Vec::new();
                for x in [priority, weight, port] {
                    v.extend_from_slice(&x.to_be_bytes());
                }
                v.extend(target.wire());
                v
            }
            RData::ChA(n, a) => {
                let mut v = n.wire();
                v.extend_from_slice(&a.to_be_bytes());
                v
            }
            RData::Wks { addr, proto, ports } => {
                // RFC 1035 §3.4.2: "The first bit corresponds to port 0, the second to port 1, etc.";
                // §2.3.2: bit 0 of an octet is the most significant bit.
                let mut v = addr.to_vec();
                v.push(*proto);
                if let Some(max) = ports.iter().max() {
                    let mut bm = vec![0u8; *max as usize / 8 + 1];
                    for p in ports {
                        bm[*p as usize / 8] |= 0x80 >> (p % 8);
                    }
                    v.extend(bm);
                }
                v
            }
            RData::Generic(_, b) => b.clone(),
        }
    }

    /// The same record with the WKS bit map in least-significant-bit-first order
    /// (to recognise that particular deviation).
    pub fn wire_wks_lsb_first(&self) -> Option<Vec<u8>> {
        if let RData::Wks { addr, proto, ports } = self {
            let mut v = addr.to_vec();
            v.push(*proto);
            if let Some(max) = ports.iter().max() {
                let mut bm = vec![0u8; *max as usize / 8 + 1];
                for p in ports {
                    bm[*p as usize / 8] |= 1 << (p % 8);
                }
                v.extend(bm);
            }
            Some(v)
        } else {
            None
        }
    }
}

#[derive(Clone, Debug, PartialEq, Eq, Hash, serde::Serialize, serde::Deserialize)]
pub struct ZRec {
    pub owner: MName,
    pub ttl: u32,
    pub class: u16,
    pub data: RData,
}

/// A tape of presentation choices; exhausted tape = 0 = the plainest form.
pub struct Tape<'a> {
    tape: &'a [u16],
    pos: usize,
    /// names of the features used (for coverage statistics)
    pub features: std::collections::BTreeSet<&'static str>,
}

impl<'a> Tape<'a> {
    pub fn new(tape: &'a [u16]) -> Self {
        Tape {
            tape,
            pos: 0,
            features: Default::default(),
        }
    }
    /// A value in 0..n (monotonic in the tape value).
    pub fn pick(&mut self, n: usize) -> usize {
        let v = self.tape.get(self.pos).copied().unwrap_or(0);
        self.pos += 1;
        (v as usize * n) >> 16
    }
    pub fn flag(&mut self, feature: &'static str, one_in: usize) -> bool {
        let yes = self.pick(one_in * 4) % one_in == one_in - 1 && one_in > 0;
        if yes {
            self.features.insert(feature);
        }
        yes
    }
    fn raw(&mut self) -> u16 {
        let v = self.tape.get(self.pos).copied().unwrap_or(0);
        self.pos += 1;
        v
    }
}

fn mix_case(s: &str, t: &mut Tape) -> String {
    if !t.flag("mnemonic-case-variant", 3) {
        return s.to_string();
    }
    let mask = t.raw();
    s.chars()
        .enumerate()
        .map(|(i, c)| if mask & (1 << (i % 16)) != 0 { c.to_ascii_lowercase() } else { c.to_ascii_uppercase() })
        .collect()
}

fn class_text(class: u16, t: &mut Tape) -> String {
    let mn = match class {
        C_IN => Some("IN"),
        C_CH => Some("CH"),
        C_HS => Some("HS"),
        _ => None,
    };
    match mn {
        Some(m) if !t.flag("generic-class-form", 8) => mix_case(m, t),
        _ => format!("{}{}", mix_case("CLASS", t), class),
    }
}

pub fn type_mnemonic(rtype: u16) -> Option<&'static str> {
    Some(match rtype {
        T_A => "A",
        T_NS => "NS",
        T_MD => "MD",
        T_MF => "MF",
        T_CNAME => "CNAME",
        T_SOA => "SOA",
        T_MB => "MB",
        T_MG => "MG",
        T_MR => "MR",
        T_WKS => "WKS",
        T_PTR => "PTR",
        T_HINFO => "HINFO",
        T_MINFO => "MINFO",
        T_MX => "MX",
        T_TXT => "TXT",
        T_AAAA => "AAAA",
        T_SRV => "SRV",
        _ => return None,
    })
}

fn type_text(rtype: u16, t: &mut Tape) -> String {
    match type_mnemonic(rtype) {
        Some(m) if !t.flag("generic-type-form", 8) => mix_case(m, t),
        _ => format!("{}{}", mix_case("TYPE", t), rtype),
    }
}

/// Escapes one octet for use inside a name label or an unquoted string.
fn esc_octet(b: u8, in_name: bool, t: &mut Tape, out: &mut String) {
    // RFC 1035 §5.1: \X quotes any character other than a digit - also the newline itself, which then
    // is data and does not end the line (the file still has one more physical line afterwards)
    if b == b'\n' && t.flag("backslash-newline", 2) {
        out.push_str("\\\n");
        return;
    }
    let special = matches!(b, b' ' | b'\t' | b'(' | b')' | b';' | b'"' | b'\\' | b'@' | b'$') || (in_name && b == b'.');
    if !(0x21..=0x7e).contains(&b) {
        out.push_str(&format!("\\{b:03}"));
        t.features.insert("decimal-escape");
    } else if special || b.is_ascii_digit() && false {
        if t.pick(2) == 1 {
            out.push_str(&format!("\\{b:03}"));
            t.features.insert("decimal-escape");
        } else {
            out.push('\\');
            out.push(b as char);
            t.features.insert("char-escape");
        }
    } else if t.flag("needless-escape", 24) && !b.is_ascii_digit() && b != b'#' {
        // ('#' is never escaped: a field that reads `\#` is the RFC 3597 generic-RDATA marker)
        out.push('\\');
        out.push(b as char);
    } else {
        out.push(b as char);
    }
}

/// Text of a name: absolute, or relative to `origin` ('@' when equal).
fn name_text(n: &MName, origin: Option<&MName>, t: &mut Tape) -> String {
    if let Some(o) = origin {
        // exact (case-sensitive) suffix so that the parse reproduces the same octets
        let k = n.labels.len();
        let m = o.labels.len();
        if k >= m && n.labels[k - m..] == o.labels[..] && t.pick(3) != 0 {
            if k == m {
                t.features.insert("at-sign");
                return "@".to_string();
            }
            t.features.insert("relative-name");
            let mut s = String::new();
            for (i, l) in n.labels[..k - m].iter().enumerate() {
                if i > 0 {
                    s.push('.');
                }
                for b in l {
                    esc_octet(*b, true, t, &mut s);
                }
            }
            return s;
        }
    }
    if n.labels.is_empty() {
        return ".".to_string();
    }
    let mut s = String::new();
    for l in &n.labels {
        for b in l {
            esc_octet(*b, true, t, &mut s);
        }
        s.push('.');
    }
    s
}

/// Absolute name in the most conservative master-file spelling: letters,
/// digits, '-', '_' and '*' as they are, every other octet as `\DDD`.
pub fn absolute_name_text(n: &MName) -> String {
    if n.labels.is_empty() {
        return ".".to_string();
    }
    let mut s = String::new();
    for l in &n.labels {
        for &b in l {
            if b.is_ascii_alphanumeric() || b == b'-' || b == b'_' || b == b'*' {
                s.push(b as char);
            } else {
                s.push_str(&format!("\\{b:03}"));
            }
        }
        s.push('.');
    }
    s
}

fn char_string_text(s: &[u8], t: &mut Tape) -> String {
    let must_quote = s.is_empty();
    if must_quote || t.pick(2) == 0 {
        t.features.insert("quoted-string");
        let mut out = String::from("\"");
        for &b in s {
            if b == b'"' || b == b'\\' {
                out.push('\\');
                out.push(b as char);
            } else if b == b'\n' && t.flag("backslash-newline", 2) {
                out.push_str("\\\n");
            } else if (0x20..=0x7e).contains(&b) || b == b'\t' {
                // raw spaces, tabs, semicolons and parentheses are fine inside quotes
                out.push(b as char);
            } else {
                out.push_str(&format!("\\{b:03}"));
            }
        }
        out.push('"');
        out
    } else {
        t.features.insert("unquoted-string");
        let mut out = String::new();
        for &b in s {
            esc_octet(b, false, t, &mut out);
        }
        out
    }
}

fn ipv6_text(a: &[u8; 16], t: &mut Tape) -> String {
    let addr = Ipv6Addr::from(*a);
    if t.pick(3) == 1 {
        // full uncompressed form
        let seg = addr.segments();
        seg.iter().map(|s| format!("{s:x}")).collect::<Vec<_>>().join(":")
    } else {
        addr.to_string()
    }
}

fn generic_rdata_fields(rd: &[u8], t: &mut Tape) -> Vec<String> {
    t.features.insert("generic-rdata");
    let mut fields = vec!["\\#".to_string(), rd.len().to_string()];
    if !rd.is_empty() {
        let hex: String = rd
            .iter()
            .map(|b| if t.pick(2) == 1 { format!("{b:02X}") } else { format!("{b:02x}") })
            .collect();
        // RFC 3597 §5: the hexadecimal data may be split into several white-space separated words
        let words = 1 + t.pick(4);
        if words > 1 && rd.len() >= words {
            t.features.insert("generic-rdata-several-words");
            let per = (rd.len() + words - 1) / words * 2;
            let mut i = 0;
            while i < hex.len() {
                fields.push(hex[i..(i + per).min(hex.len())].to_string());
                i += per;
            }
        } else {
            fields.push(hex);
        }
    }
    fields
}

/// RDATA as a list of fields (type-specific text or generic form).
fn rdata_fields(class: u16, data: &RData, origin: Option<&MName>, t: &mut Tape) -> Vec<String> {
    let generic_only = matches!(data, RData::Generic(..));
    if generic_only || t.flag("generic-form-for-known-type", 10) {
        return generic_rdata_fields(&data.wire(), t);
    }
    let _ = class;
    match data {
        RData::A(a) => vec![format!("{}.{}.{}.{}", a[0], a[1], a[2], a[3])],
        RData::Aaaa(a) => vec![ipv6_text(a, t)],
        RData::Name(_, n) => vec![name_text(n, origin, t)],
        RData::Soa { mname, rname, serial, refresh, retry, expire, minimum } => vec![
            name_text(mname, origin, t),
            name_text(rname, origin, t),
            serial.to_string(),
            refresh.to_string(),
            retry.to_string(),
            expire.to_string(),
            minimum.to_string(),
        ],
        RData::Mx(p, n) => vec![p.to_string(), name_text(n, origin, t)],
        RData::Minfo(a, b) => vec![name_text(a, origin, t), name_text(b, origin, t)],
        RData::Hinfo(a, b) => vec![char_string_text(a, t), char_string_text(b, t)],
        RData::Txt(strings) => strings.iter().map(|s| char_string_text(s, t)).collect(),
        RData::Srv { priority, weight, port, target } => vec![priority.to_string(), weight.to_string(), port.to_string(), name_text(target, origin, t)],
        RData::ChA(n, a) => vec![name_text(n, origin, t), format!("{a:o}")],
        RData::Wks { addr, proto, ports } => {
            let mut f = vec![format!("{}.{}.{}.{}", addr[0], addr[1], addr[2], addr[3])];
            f.push(match (*proto, t.pick(2)) {
                (6, 1) => mix_case("TCP", t),
                (17, 1) => mix_case("UDP", t),
                _ => proto.to_string(),
            });
            for p in ports {
                f.push(p.to_string());
            }
            f
        }
        RData::Generic(..) => unreachable!(),
    }
}

fn separator(t: &mut Tape) -> String {
    match t.pick(5) {
        0 | 1 => " ".to_string(),
        2 => "\t".to_string(),
        3 => "  \t ".to_string(),
        _ => "\t\t".to_string(),
    }
}

pub struct Printed {
    pub text: Vec<u8>,
    /// (1-based line the record starts on, record)
    pub expected: Vec<(usize, ZRec)>,
    pub features: std::collections::BTreeSet<&'static str>,
}

/// Presentation context, mirrors what a master-file reader keeps (RFC 1035 §5.1, RFC 2308 §4).
#[derive(Clone, Debug, Default)]
pub struct Ctx {
    pub origin: Option<MName>,
    pub default_ttl: Option<u32>,
    pub prev_owner: Option<MName>,
    pub prev_ttl: Option<u32>,
    pub prev_class: Option<u16>,
}

/// Renders `records` as a zone file starting from `ctx`; `ctx` is updated to the context at the end.
pub fn print(records: &[ZRec], tape: &[u16], ctx: &mut Ctx) -> Printed {
    let mut t = Tape::new(tape);
    let crlf = t.flag("crlf", 4);
    let nl = if crlf { "\r\n" } else { "\n" };
    let mut out = String::new();
    let mut line = 1usize;
    let mut expected = Vec::new();
    let emit_nl = |out: &mut String, line: &mut usize| {
        out.push_str(nl);
        *line += 1;
    };
    for (ri, r) in records.iter().enumerate() {
        // blank, whitespace-only and comment-only lines
        for _ in 0..t.pick(3) {
            match t.pick(3) {
                0 => {}
                1 => out.push_str("  \t"),
                _ => out.push_str("; a comment ( with \" characters ) $ORIGIN nothing."),
            }
            t.features.insert("blank-or-comment-line");
            emit_nl(&mut out, &mut line);
        }
        // directives
        if t.flag("origin-directive", 4) || (ctx.origin.is_none() && t.pick(2) == 1) {
            // an ancestor of the owner (so relative forms become possible), or the root
            let k = r.owner.labels.len();
            let skip = t.pick(k + 1);
            let new_origin = r.owner.superdomain(skip).unwrap_or_else(MName::root);
            let mut text = {
                let cur = ctx.origin.clone();
                name_text(&new_origin, cur.as_ref(), &mut t)
            };
            while text.ends_with("\\\n") {
                text.truncate(text.len() - 2);
                text.push_str("\\010");
            }
            // a relative origin is only unambiguous if it is not '@' of nothing: name_text handles it
            out.push_str(&mix_case("$ORIGIN", &mut t));
            out.push_str(&separator(&mut t));
            out.push_str(&text);
            if t.pick(4) == 3 {
                out.push_str(" ; new origin");
            }
            emit_nl(&mut out, &mut line);
            ctx.origin = Some(new_origin);
            t.features.insert("origin-directive");
        }
        if t.flag("ttl-directive", 5) {
            out.push_str(&mix_case("$TTL", &mut t));
            out.push_str(&separator(&mut t));
            out.push_str(&r.ttl.to_string());
            emit_nl(&mut out, &mut line);
            ctx.default_ttl = Some(r.ttl);
        }
        // the record
        // (counted from the text itself: directive lines and fields may contain quoted newlines)
        let start_line = 1 + out.bytes().filter(|b| *b == b'\n').count();
        let _ = line;
        let origin = ctx.origin.clone();
        let mut fields: Vec<String> = Vec::new();
        let omit_owner = ctx.prev_owner.as_ref() == Some(&r.owner) && t.pick(3) != 0;
        if omit_owner {
            t.features.insert("omitted-owner");
        } else {
            let mut text = name_text(&r.owner, origin.as_ref(), &mut t);
            if text.starts_with('$') {
                text = format!("\\{text}");
            }
            fields.push(text);
        }
        let ttl_omittable = match ctx.default_ttl {
            Some(d) => d == r.ttl,
            None => ctx.prev_ttl == Some(r.ttl),
        };
        let class_omittable = ctx.prev_class == Some(r.class);
        let ttl_text = if ttl_omittable && t.pick(2) == 1 {
            t.features.insert("omitted-ttl");
            None
        } else {
            Some(r.ttl.to_string())
        };
        let class_text_v = if class_omittable && t.pick(2) == 1 {
            t.features.insert("omitted-class");
            None
        } else {
            Some(class_text(r.class, &mut t))
        };
        match (ttl_text, class_text_v) {
            (Some(a), Some(b)) => {
                if t.pick(2) == 1 {
                    t.features.insert("class-before-ttl");
                    fields.push(b);
                    fields.push(a);
                } else {
                    fields.push(a);
                    fields.push(b);
                }
            }
            (Some(a), None) => fields.push(a),
            (None, Some(b)) => fields.push(b),
            (None, None) => {}
        }
        fields.push(type_text(r.data.rtype(), &mut t));
        fields.extend(rdata_fields(r.class, &r.data, origin.as_ref(), &mut t));
        // a field never *ends* with a quoted newline: whatever follows (the separator, the end of the line)
        // would have to be told apart from it; the last octet is written as \010 instead
        for f in fields.iter_mut() {
            while f.ends_with("\\\n") {
                f.truncate(f.len() - 2);
                f.push_str("\\010");
            }
        }
        // layout: optional parentheses with line breaks
        let use_parens = t.flag("parentheses", 3);
        let n = fields.len();
        // the parenthesis may open after any field (not before the first: leading white space is significant)
        let open_after = if use_parens { 1 + t.pick(n.max(1)) } else { usize::MAX };
        let mut in_parens = false;
        if omit_owner {
            out.push_str(if t.pick(2) == 1 { "\t" } else { "    " });
        }
        for (i, f) in fields.iter().enumerate() {
            if i > 0 {
                if in_parens && t.pick(3) == 2 {
                    if t.pick(3) == 2 {
                        out.push_str(" ; comment inside parentheses )");
                    }
                    emit_nl(&mut out, &mut line);
                    out.push_str("   ");
                    t.features.insert("line-break-inside-parentheses");
                } else {
                    out.push_str(&separator(&mut t));
                }
            }
            out.push_str(f);
            if i + 1 == open_after.min(n) && use_parens && !in_parens {
                if t.pick(2) == 1 {
                    out.push(' ');
                }
                out.push('(');
                in_parens = true;
                if i + 1 == n {
                    // nothing follows: close right away, possibly on the next line
                    if t.pick(2) == 1 {
                        emit_nl(&mut out, &mut line);
                        t.features.insert("line-break-inside-parentheses");
                    }
                }
            }
        }
        if in_parens {
            if t.pick(3) == 2 {
                emit_nl(&mut out, &mut line);
                t.features.insert("line-break-inside-parentheses");
            }
            out.push_str(" )");
        }
        if t.flag("trailing-comment", 5) {
            out.push_str(" ; trailing comment");
        }
        let last = ri + 1 == records.len();
        if !last || t.pick(4) != 3 {
            emit_nl(&mut out, &mut line);
        } else {
            t.features.insert("no-final-newline");
        }
        expected.push((start_line, r.clone()));
        ctx.prev_owner = Some(r.owner.clone());
        ctx.prev_ttl = Some(r.ttl);
        ctx.prev_class = Some(r.class);
    }
    Printed {
        text: out.into_bytes(),
        expected,
        features: t.features,
    }
}

#[cfg(test)]
mod tests {
    use super::*;

    fn n(s: &str) -> MName {
        MName::parse_text(s).unwrap()
    }

    #[test]
    fn plain_output_is_canonical() {
        let recs = vec![
            ZRec { owner: n("example."), ttl: 3600, class: C_IN, data: RData::Soa { mname: n("ns.example."), rname: n("admin.example."), serial: 1, refresh: 2, retry: 3, expire: 4, minimum: 5 } },
            ZRec { owner: n("www.example."), ttl: 300, class: C_IN, data: RData::A([192, 0, 2, 1]) },
            ZRec { owner: n("www.example."), ttl: 300, class: C_IN, data: RData::Txt(vec![b"hello world".to_vec(), b"".to_vec()]) },
        ];
        let mut ctx = Ctx::default();
        let p = print(&recs, &[], &mut ctx);
        let text = String::from_utf8(p.text).unwrap();
        assert_eq!(
            text,
            "example. 3600 IN SOA ns.example. admin.example. 1 2 3 4 5\nwww.example. 300 IN A 192.0.2.1\nwww.example. 300 IN TXT \"hello world\" \"\"\n"
        );
        assert_eq!(p.expected.iter().map(|e| e.0).collect::<Vec<_>>(), vec![1, 2, 3]);
    }

    #[test]
    fn wks_bitmap_is_msb_first() {
        let w = RData::Wks { addr: [127, 0, 0, 1], proto: 6, ports: vec![25] };
        assert_eq!(w.wire(), vec![127, 0, 0, 1, 6, 0, 0, 0, 0x40]);
    }
}
