//! R5 — "first problem in message order" scanner for requests (DESIGN.md
//! Appendix B; RFC 1035 §4.1, RFC 6891 §6.1/§7, RFC 8945 §5.1-§5.3).  Decides
//! what an authoritative server must do with a request before it looks at
//! the question: no response, FORMERR, BADVERS, a TSIG error, NOTIMP, or
//! "answer the query".  No dependency on quandary.

use crate::name::MName;
use crate::rdata::{parse_tsig, validate, C_ANY, T_OPT, T_TSIG};
use crate::tsig::{self, Alg};
use crate::wire::{decode_header, decode_name, decode_question, delimit_rr, Header, QuestionDecode};

#[derive(Clone, Debug, PartialEq, Eq)]
pub enum Stage {
    /// RCODE FORMERR (1), no answer/authority data
    FormErr,
    /// extended RCODE 16 via the OPT record
    BadVers,
    /// RCODE NOTAUTH with the given TSIG error (16 BADSIG, 17 BADKEY, 18 BADTIME)
    NotAuth(u16),
    /// RCODE FORMERR with TSIG error BADSIG (MAC length outside the permitted range)
    TsigMacFormErr,
    NotImp,
    /// the request is a well-formed QUERY with one question: answer it
    Query,
}

#[derive(Clone, Debug, PartialEq, Eq)]
pub struct KeyM {
    pub name: MName,
    pub alg: Alg,
    pub secret: Vec<u8>,
}

/// What the TSIG record of the request says and how verification went.
#[derive(Clone, Debug, PartialEq, Eq)]
pub struct TsigScan {
    pub key_name: MName,
    pub alg_name: MName,
    pub request_mac: Vec<u8>,
    pub time_signed: u64,
    pub fudge: u16,
    pub original_id: u16,
    /// offset where the TSIG RR starts (the digest covers the message up to here)
    pub rr_start: usize,
    /// the key, when name and algorithm matched a configured key
    pub key: Option<KeyM>,
}

#[derive(Clone, Debug, PartialEq, Eq)]
pub struct Scan {
    pub header: Option<Header>,
    /// false: the request must be dropped silently
    pub respond: bool,
    /// the question that the response must repeat (None: the response has no question)
    pub question: Option<QuestionDecode>,
    /// true when processing reached an OPT record in the additional section:
    /// the response must carry exactly one OPT
    pub edns: bool,
    /// the OPT record's advertised payload size, when reached
    pub advertised: Option<u16>,
    /// acceptable outcomes (more than one only where the specifications leave the precedence open)
    pub accept: Vec<Stage>,
    /// the TSIG record, if processing reached a well-formed one
    pub tsig: Option<TsigScan>,
    /// human-readable reason for the first problem found
    pub reason: &'static str,
    /// upper bound on the size of the TSIG RR a response to this request has
    /// to carry (None when no well-formed TSIG record is reached)
    pub tsig_need_max: Option<usize>,
}

impl Scan {
    fn drop(header: Option<Header>, reason: &'static str) -> Scan {
        Scan {
            header,
            respond: false,
            question: None,
            edns: false,
            advertised: None,
            accept: Vec::new(),
            tsig: None,
            reason,
            tsig_need_max: None,
        }
    }
    /// May a response be withheld because the TSIG RR it would have to carry
    /// cannot fit the size limit?  (`limit` = 65535 over TCP, the UDP limit otherwise.)
    pub fn tsig_may_not_fit(&self, limit: usize) -> bool {
        match self.tsig_need_max {
            None => false,
            Some(need) => {
                let q = self.question.as_ref().map_or(0, |q| q.qname.name.wire_len() + 4);
                12 + q + if self.edns { 11 } else { 0 } + need > limit
            }
        }
    }
    /// UDP size limit for the response given the server's configured payload size.
    pub fn udp_limit(&self, server_payload: u16) -> usize {
        match self.advertised {
            Some(a) => a.clamp(512, server_payload.max(512)) as usize,
            None => 512,
        }
    }
    pub fn is_only(&self, s: &Stage) -> bool {
        self.accept.len() == 1 && self.accept[0] == *s
    }
}

/// Scans a request.  `now_lo..=now_hi` is the interval in which the server's
/// clock reading may lie (both outcomes are accepted when the TSIG time check
/// depends on where in the interval the reading falls).
pub fn scan(req: &[u8], keys: &[KeyM], now_lo: u64, now_hi: u64) -> Scan {
    let header = match decode_header(req) {
        Ok(h) => h,
        Err(_) => return Scan::drop(None, "shorter than a header"),
    };
    if header.qr {
        return Scan::drop(Some(header), "QR set");
    }
    if header.qdcount > 1 {
        return Scan::drop(Some(header), "more than one question");
    }
    let mut s = Scan {
        header: Some(header.clone()),
        respond: true,
        question: None,
        edns: false,
        advertised: None,
        accept: Vec::new(),
        tsig: None,
        reason: "",
        tsig_need_max: None,
    };
    let done = |mut s: Scan, stages: Vec<Stage>, reason: &'static str| -> Scan {
        s.accept = stages;
        s.reason = reason;
        s
    };
    let mut pos = 12;
    if header.qdcount == 1 {
        match decode_question(req, pos) {
            Ok(q) => {
                pos = q.end;
                s.question = Some(q);
            }
            Err(_) => return done(s, vec![Stage::FormErr], "question cannot be parsed"),
        }
    }
    for _ in 0..(header.ancount as usize + header.nscount as usize) {
        match delimit_rr(req, pos) {
            Ok((end, rtype, ..)) => {
                if rtype == T_OPT || rtype == T_TSIG {
                    return done(s, vec![Stage::FormErr], "OPT or TSIG outside the additional section");
                }
                pos = end;
            }
            Err(_) => return done(s, vec![Stage::FormErr], "answer/authority record cannot be delimited"),
        }
    }
    let arcount = header.arcount as usize;
    // extra outcomes accepted because of an open precedence question met on the way
    let mut also: Vec<Stage> = Vec::new();
    for i in 0..arcount {
        let (end, rtype, class, ttl_raw, rd_start, rdlen) = match delimit_rr(req, pos) {
            Ok(v) => v,
            Err(_) => return done(s, vec![Stage::FormErr], "additional record cannot be delimited"),
        };
        if rtype == T_OPT {
            if s.edns {
                return done(s, vec![Stage::FormErr], "second OPT record");
            }
            s.edns = true;
            // the record must be fully well formed: owner decodes, RDATA is a list of options
            let owner = decode_name(req, pos);
            let rdata = &req[rd_start..rd_start + rdlen as usize];
            let owner = match owner {
                Ok(o) if validate(class, T_OPT, rdata) => o,
                _ => return done(s, vec![Stage::FormErr], "malformed OPT record"),
            };
            s.advertised = Some(class);
            let version = ((ttl_raw >> 16) & 0xff) as u8;
            let bad_owner = !owner.name.labels.is_empty();
            if bad_owner && version != 0 {
                return done(s, vec![Stage::FormErr, Stage::BadVers], "OPT with non-root owner and unsupported version");
            }
            if bad_owner {
                return done(s, vec![Stage::FormErr], "OPT owner is not the root");
            }
            if version != 0 {
                return done(s, vec![Stage::BadVers], "unsupported EDNS version");
            }
        } else if rtype == T_TSIG {
            if i != arcount - 1 {
                return done(s, vec![Stage::FormErr], "TSIG is not the last record");
            }
            let owner = decode_name(req, pos);
            let rdata = &req[rd_start..rd_start + rdlen as usize];
            let (owner, t) = match (owner, parse_tsig(rdata)) {
                (Ok(o), Some(t)) => (o, t),
                _ => return done(s, vec![Stage::FormErr], "malformed TSIG record"),
            };
            if class != C_ANY {
                return done(s, vec![Stage::FormErr], "TSIG class is not ANY");
            }
            if ttl_raw != 0 {
                if ttl_raw > i32::MAX as u32 {
                    // RFC 2181 §8 reads such a TTL as zero; both readings are accepted
                    also.push(Stage::FormErr);
                } else {
                    return done(s, vec![Stage::FormErr], "TSIG TTL is not zero");
                }
            }
            let alg = Alg::from_name(&t.algorithm);
            let key = alg.and_then(|a| keys.iter().find(|k| k.name.eq_fold(&owner.name) && k.alg == a).cloned());
            // owner + 10 fixed octets + algorithm + 16 fixed RDATA octets + BADTIME other data + largest MAC
            s.tsig_need_max = Some(owner.name.wire_len() + t.algorithm.wire_len() + 26 + 6 + 32);
            s.tsig = Some(TsigScan {
                key_name: owner.name.clone(),
                alg_name: t.algorithm.clone(),
                request_mac: t.mac.clone(),
                time_signed: t.time_signed,
                fudge: t.fudge,
                original_id: t.original_id,
                rr_start: pos,
                key: key.clone(),
            });
            let (alg, key) = match (alg, key) {
                (Some(a), Some(k)) => (a, k),
                _ => {
                    also.push(Stage::NotAuth(17));
                    return done(s, also, "unknown TSIG key or algorithm");
                }
            };
            if !alg.mac_len_ok(t.mac.len()) {
                also.push(Stage::TsigMacFormErr);
                return done(s, also, "TSIG MAC length outside the permitted range");
            }
            let vars = tsig::Vars {
                key_name: owner.name.clone(),
                alg_name: t.algorithm.clone(),
                time_signed: t.time_signed,
                fudge: t.fudge,
                error: t.error,
                other: t.other.clone(),
            };
            let full = tsig::hmac(alg, &key.secret, &tsig::request_digest_input(&req[..pos], t.original_id, &vars));
            if full[..t.mac.len()] != t.mac[..] {
                also.push(Stage::NotAuth(16));
                return done(s, also, "TSIG MAC does not verify");
            }
            let ok_lo = tsig::time_ok(t.time_signed, t.fudge, now_lo);
            let ok_hi = tsig::time_ok(t.time_signed, t.fudge, now_hi);
            if !ok_lo && !ok_hi {
                also.push(Stage::NotAuth(18));
                return done(s, also, "TSIG time outside the fudge window");
            }
            if ok_lo != ok_hi {
                also.push(Stage::NotAuth(18));
            }
        }
        pos = end;
    }
    if pos != req.len() {
        also.push(Stage::FormErr);
        // a TSIG TTL ambiguity cannot rescue trailing octets: FORMERR either way
        also.dedup();
        return done(s, vec![Stage::FormErr], "octets after the last counted record");
    }
    if header.opcode != 0 {
        also.push(Stage::NotImp);
        return done(s, also, "opcode other than QUERY");
    }
    if header.qdcount == 0 {
        also.push(Stage::FormErr);
        also.dedup();
        return done(s, also, "QUERY without a question");
    }
    also.push(Stage::Query);
    done(s, also, "")
}

#[cfg(test)]
mod tests {
    use super::*;
    use crate::wire::Builder;

    fn n(s: &str) -> MName {
        MName::parse_text(s).unwrap()
    }

    #[test]
    fn basic() {
        let mut b = Builder::new(7, 0);
        b.question(&n("a.test."), 1, 1);
        assert!(scan(&b.buf, &[], 0, 0).is_only(&Stage::Query));
        let mut junk = b.buf.clone();
        junk.push(0xff);
        assert!(scan(&junk, &[], 0, 0).is_only(&Stage::FormErr));
        // additional = [A, OPT]: the OPT must be reached
        let mut c = b.clone();
        c.rr(3, &n("x."), 1, 1, 0, &[1, 2, 3, 4]);
        c.rr(3, &MName::root(), 41, 1232, 0, &[]);
        let s = scan(&c.buf, &[], 0, 0);
        assert!(s.edns && s.is_only(&Stage::Query) && s.udp_limit(4096) == 1232);
        // version 1 with the top TTL bit set
        let mut d = b.clone();
        d.rr(3, &MName::root(), 41, 1232, 0x8001_0000, &[]);
        assert!(scan(&d.buf, &[], 0, 0).is_only(&Stage::BadVers));
        // OPT in the answer section
        let mut e = b.clone();
        e.rr(1, &MName::root(), 41, 1232, 0, &[]);
        assert!(scan(&e.buf, &[], 0, 0).is_only(&Stage::FormErr));
        assert!(!scan(&b.buf[..11], &[], 0, 0).respond);
        let mut f = Builder::new(7, 0x2800);
        f.question(&n("a.test."), 1, 1);
        assert!(scan(&f.buf, &[], 0, 0).is_only(&Stage::NotImp));
        let g = Builder::new(7, 0);
        assert!(scan(&g.buf, &[], 0, 0).is_only(&Stage::FormErr));
    }
}
