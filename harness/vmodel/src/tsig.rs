//! R6 — RFC 8945 §4.3 digest composition, written from the RFC text.  The HMAC
//! and hash primitives come from the `hmac`/`sha1`/`sha2` crates and are
//! checked against RFC 2202 / RFC 4231 vectors in the unit tests; what this
//! module contributes independently is the *composition* of the digest input.

use hmac::{Hmac, Mac};
use sha1::Sha1;
use sha2::Sha256;

use crate::name::MName;

#[derive(Clone, Copy, Debug, PartialEq, Eq, Hash, serde::Serialize, serde::Deserialize)]
pub enum Alg {
    Sha1,
    Sha256,
}

impl Alg {
    pub fn name(self) -> MName {
        match self {
            Alg::Sha1 => MName::parse_text("hmac-sha1.").unwrap(),
            Alg::Sha256 => MName::parse_text("hmac-sha256.").unwrap(),
        }
    }
    pub fn output_len(self) -> usize {
        match self {
            Alg::Sha1 => 20,
            Alg::Sha256 => 32,
        }
    }
    pub fn from_name(n: &MName) -> Option<Alg> {
        if n.eq_fold(&Alg::Sha1.name()) {
            Some(Alg::Sha1)
        } else if n.eq_fold(&Alg::Sha256.name()) {
            Some(Alg::Sha256)
        } else {
            None
        }
    }
    /// RFC 8945 §5.2.2.1: a truncated MAC must be at least max(10, half the
    /// output) octets and at most the output length.
    pub fn mac_len_ok(self, len: usize) -> bool {
        let out = self.output_len();
        len <= out && len >= std::cmp::max(10, (out + 1) / 2)
    }
}

pub fn hmac(alg: Alg, key: &[u8], data: &[u8]) -> Vec<u8> {
    match alg {
        Alg::Sha1 => {
            let mut m = Hmac::<Sha1>::new_from_slice(key).unwrap();
            m.update(data);
            m.finalize().into_bytes().to_vec()
        }
        Alg::Sha256 => {
            let mut m = Hmac::<Sha256>::new_from_slice(key).unwrap();
            m.update(data);
            m.finalize().into_bytes().to_vec()
        }
    }
}

/// The TSIG variables that enter the digest (RFC 8945 §4.3.3).
#[derive(Clone, Debug, PartialEq, Eq)]
pub struct Vars {
    pub key_name: MName,
    pub alg_name: MName,
    pub time_signed: u64,
    pub fudge: u16,
    pub error: u16,
    pub other: Vec<u8>,
}

/// §4.3.2: the message without the TSIG RR, with the original ID and ARCOUNT
/// decremented.  `msg_without_tsig` still carries the ARCOUNT that counts the TSIG RR.
pub fn prepared_message(msg_without_tsig: &[u8], original_id: u16) -> Vec<u8> {
    let mut m = msg_without_tsig.to_vec();
    m[0..2].copy_from_slice(&original_id.to_be_bytes());
    let ar = u16::from_be_bytes([m[10], m[11]]).wrapping_sub(1);
    m[10..12].copy_from_slice(&ar.to_be_bytes());
    m
}

fn timers(v: &Vars) -> Vec<u8> {
    let mut out = Vec::new();
    out.extend_from_slice(&v.time_signed.to_be_bytes()[2..8]);
    out.extend_from_slice(&v.fudge.to_be_bytes());
    out
}

/// §4.3.3: NAME (canonical = lower case, uncompressed), CLASS ANY, TTL 0,
/// Algorithm Name (canonical), Time Signed, Fudge, Error, Other Len, Other Data.
fn variables(v: &Vars) -> Vec<u8> {
    let mut out = v.key_name.folded().wire();
    out.extend_from_slice(&[0x00, 0xff]);
    out.extend_from_slice(&[0, 0, 0, 0]);
    out.extend_from_slice(&v.alg_name.folded().wire());
    out.extend_from_slice(&timers(v));
    out.extend_from_slice(&v.error.to_be_bytes());
    out.extend_from_slice(&(v.other.len() as u16).to_be_bytes());
    out.extend_from_slice(&v.other);
    out
}

fn mac_prefix(mac: &[u8]) -> Vec<u8> {
    let mut out = (mac.len() as u16).to_be_bytes().to_vec();
    out.extend_from_slice(mac);
    out
}

pub fn request_digest_input(msg_without_tsig: &[u8], original_id: u16, v: &Vars) -> Vec<u8> {
    let mut d = prepared_message(msg_without_tsig, original_id);
    d.extend_from_slice(&variables(v));
    d
}

/// §4.3.1 + §5.3: a response digest starts with the request MAC (length-prefixed).
pub fn response_digest_input(request_mac: &[u8], msg_without_tsig: &[u8], original_id: u16, v: &Vars) -> Vec<u8> {
    let mut d = mac_prefix(request_mac);
    d.extend_from_slice(&prepared_message(msg_without_tsig, original_id));
    d.extend_from_slice(&variables(v));
    d
}

/// §5.3.1: subsequent messages: prior MAC, message, TSIG timers only.
pub fn subsequent_digest_input(prior_mac: &[u8], msg_without_tsig: &[u8], original_id: u16, v: &Vars) -> Vec<u8> {
    let mut d = mac_prefix(prior_mac);
    d.extend_from_slice(&prepared_message(msg_without_tsig, original_id));
    d.extend_from_slice(&timers(v));
    d
}

/// §5.2.3: |now - time signed| <= fudge.
pub fn time_ok(time_signed: u64, fudge: u16, now: u64) -> bool {
    let lo = time_signed.saturating_sub(fudge as u64);
    let hi = time_signed.saturating_add(fudge as u64);
    now >= lo && now <= hi
}

#[cfg(test)]
mod tests {
    use super::*;

    fn hex(b: &[u8]) -> String {
        b.iter().map(|x| format!("{x:02x}")).collect()
    }

    #[test]
    fn hmac_vectors() {
        // RFC 2202 test case 2 (HMAC-SHA1) and RFC 4231 test case 2 (HMAC-SHA256)
        assert_eq!(hex(&hmac(Alg::Sha1, b"Jefe", b"what do ya want for nothing?")), "effcdf6ae5eb2fa2d27416d5f184df9c259a7c79");
        assert_eq!(
            hex(&hmac(Alg::Sha256, b"Jefe", b"what do ya want for nothing?")),
            "5bdcc146bf60754e6a042426089575c75a003f089d2739839dec58b964ec3843"
        );
        // RFC 2202 test case 1
        assert_eq!(hex(&hmac(Alg::Sha1, &[0x0b; 20], b"Hi There")), "b617318655057264e28bc0b6fb378c8ef146be00");
    }

    #[test]
    fn mac_len_rule() {
        assert!(Alg::Sha1.mac_len_ok(10) && Alg::Sha1.mac_len_ok(20) && !Alg::Sha1.mac_len_ok(9) && !Alg::Sha1.mac_len_ok(21));
        assert!(Alg::Sha256.mac_len_ok(16) && Alg::Sha256.mac_len_ok(32) && !Alg::Sha256.mac_len_ok(15) && !Alg::Sha256.mac_len_ok(33));
    }

    #[test]
    fn digest_layout() {
        let msg = [0x12, 0x34, 0x80, 0x00, 0, 0, 0, 0, 0, 0, 0, 1];
        let v = Vars {
            key_name: MName::parse_text("Key.").unwrap(),
            alg_name: Alg::Sha256.name(),
            time_signed: 0x0102_0304_0506,
            fudge: 300,
            error: 0,
            other: vec![],
        };
        let d = request_digest_input(&msg, 0xabcd, &v);
        assert_eq!(
            hex(&d),
            "abcd80000000000000000000036b65790000ff000000000b686d61632d73686132353600010203040506012c00000000"
        );
        assert!(time_ok(1000, 300, 1300) && !time_ok(1000, 300, 1301) && time_ok(1000, 300, 700) && !time_ok(1000, 300, 699));
    }
}
