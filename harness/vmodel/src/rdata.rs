//! R7 — RDATA formats from the defining RFCs (RFC 1035 §3.3/§3.4, RFC 1034 §3.6
//! for Chaosnet A, RFC 3596, RFC 2782, RFC 6891 §6.1.2, RFC 8945 §4.2).
//! No dependency on quandary.

use crate::name::MName;
use crate::wire::{decode_name, NameDecode, WireErr};

pub const T_A: u16 = 1;
pub const T_NS: u16 = 2;
pub const T_MD: u16 = 3;
pub const T_MF: u16 = 4;
pub const T_CNAME: u16 = 5;
pub const T_SOA: u16 = 6;
pub const T_MB: u16 = 7;
pub const T_MG: u16 = 8;
pub const T_MR: u16 = 9;
pub const T_NULL: u16 = 10;
pub const T_WKS: u16 = 11;
pub const T_PTR: u16 = 12;
pub const T_HINFO: u16 = 13;
pub const T_MINFO: u16 = 14;
pub const T_MX: u16 = 15;
pub const T_TXT: u16 = 16;
pub const T_AAAA: u16 = 28;
pub const T_SRV: u16 = 33;
pub const T_OPT: u16 = 41;
pub const T_TSIG: u16 = 250;
pub const T_IXFR: u16 = 251;
pub const T_AXFR: u16 = 252;
pub const T_MAILB: u16 = 253;
pub const T_MAILA: u16 = 254;
pub const T_ANY: u16 = 255;

pub const C_IN: u16 = 1;
pub const C_CH: u16 = 3;
pub const C_HS: u16 = 4;
pub const C_NONE: u16 = 254;
pub const C_ANY: u16 = 255;

/// One field of an RDATA layout.
#[derive(Clone, Copy, Debug, PartialEq, Eq)]
pub enum Field {
    /// domain name that RFC 3597 §4 allows to be compressed (RFC 1035 types)
    CName,
    /// domain name that must not be compressed (SRV, class-specific types)
    UName,
    /// fixed number of octets
    Fixed(usize),
}

/// The layout of the types that embed names, or None when the type has no
/// embedded name known to this model.  After the listed fields nothing may
/// follow.
pub fn name_layout(class: u16, rtype: u16) -> Option<&'static [Field]> {
    match rtype {
        T_NS | T_MD | T_MF | T_CNAME | T_MB | T_MG | T_MR | T_PTR => Some(&[Field::CName]),
        T_SOA => Some(&[Field::CName, Field::CName, Field::Fixed(20)]),
        T_MINFO => Some(&[Field::CName, Field::CName]),
        T_MX => Some(&[Field::Fixed(2), Field::CName]),
        T_A if class == C_CH => Some(&[Field::UName, Field::Fixed(2)]),
        T_SRV if class == C_IN => Some(&[Field::Fixed(6), Field::UName]),
        _ => None,
    }
}

/// Types whose embedded names compare case-insensitively (they predate RFC 3597).
pub fn has_caseless_names(class: u16, rtype: u16) -> bool {
    name_layout(class, rtype).is_some()
}

fn char_string(buf: &[u8], pos: usize) -> Option<usize> {
    let len = *buf.get(pos)? as usize;
    if pos + 1 + len <= buf.len() {
        Some(pos + 1 + len)
    } else {
        None
    }
}

/// Splits uncompressed RDATA of a name-bearing type into its fields; None if malformed.
pub fn split_fields<'a>(class: u16, rtype: u16, rdata: &'a [u8]) -> Option<Vec<(Field, &'a [u8])>> {
    let layout = name_layout(class, rtype)?;
    let mut pos = 0;
    let mut out = Vec::new();
    for f in layout {
        match f {
            Field::CName | Field::UName => {
                let (_, len) = MName::from_wire(&rdata[pos..])?;
                out.push((*f, &rdata[pos..pos + len]));
                pos += len;
            }
            Field::Fixed(n) => {
                let s = rdata.get(pos..pos + n)?;
                out.push((*f, s));
                pos += n;
            }
        }
    }
    if pos == rdata.len() {
        Some(out)
    } else {
        None
    }
}

/// Is `rdata` (uncompressed) a valid encoding for this class/type?  Unknown
/// class/type combinations accept anything (RFC 3597).
pub fn validate(class: u16, rtype: u16, rdata: &[u8]) -> bool {
    if name_layout(class, rtype).is_some() {
        return split_fields(class, rtype, rdata).is_some();
    }
    match rtype {
        T_A if class == C_IN => rdata.len() == 4,
        T_AAAA if class == C_IN => rdata.len() == 16,
        // ADDRESS (4) + PROTOCOL (1) + variable-length bit map
        T_WKS if class == C_IN => rdata.len() >= 5,
        T_HINFO => match char_string(rdata, 0).and_then(|p| char_string(rdata, p)) {
            Some(end) => end == rdata.len(),
            None => false,
        },
        T_TXT => {
            // one or more <character-string>s
            if rdata.is_empty() {
                return false;
            }
            let mut pos = 0;
            while pos < rdata.len() {
                match char_string(rdata, pos) {
                    Some(p) => pos = p,
                    None => return false,
                }
            }
            true
        }
        T_OPT => {
            // zero or more {code u16, length u16, data}
            let mut pos = 0;
            while pos < rdata.len() {
                let len = match rdata.get(pos + 2..pos + 4) {
                    Some(l) => u16::from_be_bytes([l[0], l[1]]) as usize,
                    None => return false,
                };
                if pos + 4 + len > rdata.len() {
                    return false;
                }
                pos += 4 + len;
            }
            true
        }
        T_TSIG => parse_tsig(rdata).is_some(),
        _ => true,
    }
}

#[derive(Clone, Debug, PartialEq, Eq)]
pub struct TsigRdata {
    pub algorithm: MName,
    pub time_signed: u64,
    pub fudge: u16,
    pub mac: Vec<u8>,
    pub original_id: u16,
    pub error: u16,
    pub other: Vec<u8>,
}

pub fn parse_tsig(rdata: &[u8]) -> Option<TsigRdata> {
    let (algorithm, alen) = MName::from_wire(rdata)?;
    let mut p = alen;
    let t = rdata.get(p..p + 6)?;
    let mut time_signed = 0u64;
    for b in t {
        time_signed = (time_signed << 8) | *b as u64;
    }
    p += 6;
    let fudge = u16::from_be_bytes(rdata.get(p..p + 2)?.try_into().ok()?);
    p += 2;
    let mac_size = u16::from_be_bytes(rdata.get(p..p + 2)?.try_into().ok()?) as usize;
    p += 2;
    let mac = rdata.get(p..p + mac_size)?.to_vec();
    p += mac_size;
    let original_id = u16::from_be_bytes(rdata.get(p..p + 2)?.try_into().ok()?);
    p += 2;
    let error = u16::from_be_bytes(rdata.get(p..p + 2)?.try_into().ok()?);
    p += 2;
    let other_len = u16::from_be_bytes(rdata.get(p..p + 2)?.try_into().ok()?) as usize;
    p += 2;
    let other = rdata.get(p..p + other_len)?.to_vec();
    p += other_len;
    if p != rdata.len() {
        return None;
    }
    Some(TsigRdata {
        algorithm,
        time_signed,
        fudge,
        mac,
        original_id,
        error,
        other,
    })
}

pub fn encode_tsig(t: &TsigRdata) -> Vec<u8> {
    let mut out = t.algorithm.wire();
    out.extend_from_slice(&t.time_signed.to_be_bytes()[2..8]);
    out.extend_from_slice(&t.fudge.to_be_bytes());
    out.extend_from_slice(&(t.mac.len() as u16).to_be_bytes());
    out.extend_from_slice(&t.mac);
    out.extend_from_slice(&t.original_id.to_be_bytes());
    out.extend_from_slice(&t.error.to_be_bytes());
    out.extend_from_slice(&(t.other.len() as u16).to_be_bytes());
    out.extend_from_slice(&t.other);
    out
}

/// Decodes RDATA located in a message at `start` with length `rdlength`:
/// names of name-bearing types are decoded with pointer following (pointers
/// are only *permitted* in CName fields, but a decoder must follow them
/// wherever they are — RFC 3597 §4 asks receivers to decompress the RFC 1035
/// types; for UName fields this model still follows pointers and reports them
/// so that callers can flag them).  Returns the uncompressed RDATA and the
/// embedded names.  Other types are validated and returned raw.
pub fn decode_in_message(
    class: u16,
    rtype: u16,
    msg: &[u8],
    start: usize,
    rdlength: usize,
) -> Result<(Vec<u8>, Vec<(usize, NameDecode, bool)>), WireErr> {
    let end = start + rdlength;
    if end > msg.len() {
        return Err(WireErr::Eom);
    }
    // Names inside RDATA may not extend past the RDATA, so decode against the
    // message truncated at the RDATA's end.
    let view = &msg[..end];
    if let Some(layout) = name_layout(class, rtype) {
        let mut pos = start;
        let mut out = Vec::new();
        let mut names = Vec::new();
        for f in layout {
            match f {
                Field::CName | Field::UName => {
                    let d = decode_name(view, pos).map_err(|e| match e {
                        WireErr::Eom => WireErr::BadRdata,
                        other => other,
                    })?;
                    out.extend_from_slice(&d.name.wire());
                    let at = pos;
                    pos += d.first_chunk_len;
                    names.push((at, d, matches!(f, Field::CName)));
                }
                Field::Fixed(n) => {
                    let s = view.get(pos..pos + n).ok_or(WireErr::BadRdata)?;
                    out.extend_from_slice(s);
                    pos += n;
                }
            }
        }
        if pos != end {
            return Err(WireErr::BadRdata);
        }
        Ok((out, names))
    } else {
        let raw = &msg[start..end];
        if validate(class, rtype, raw) {
            Ok((raw.to_vec(), Vec::new()))
        } else {
            Err(WireErr::BadRdata)
        }
    }
}

/// The embedded names of RDATA as a serialiser that only needs to find the
/// names sees them: the layout's fields must parse, but octets after the last
/// field are tolerated.  None if a field does not parse.
pub fn leading_names(class: u16, rtype: u16, rdata: &[u8]) -> Option<Vec<(MName, bool)>> {
    let layout = match name_layout(class, rtype) {
        Some(l) => l,
        None => return Some(Vec::new()),
    };
    let mut pos = 0;
    let mut out = Vec::new();
    for f in layout {
        match f {
            Field::CName | Field::UName => {
                let (n, len) = MName::from_wire(rdata.get(pos..)?)?;
                out.push((n, matches!(f, Field::CName)));
                pos += len;
            }
            Field::Fixed(n) => {
                // SOA's trailing fixed block is not needed to locate names
                if rdata.len() < pos + n {
                    if out.len() == layout.iter().filter(|f| !matches!(f, Field::Fixed(_))).count() {
                        return Some(out);
                    }
                    return None;
                }
                pos += n;
            }
        }
    }
    Some(out)
}

/// Lenient in-message decode: follows the layout as far as it goes and copies
/// whatever follows verbatim; nameless types are returned raw without
/// validation.  None if an embedded name cannot be decoded.
pub fn decode_in_message_lenient(
    class: u16,
    rtype: u16,
    msg: &[u8],
    start: usize,
    rdlength: usize,
) -> Option<(Vec<u8>, Vec<(usize, NameDecode, bool)>)> {
    let end = start + rdlength;
    if end > msg.len() {
        return None;
    }
    let view = &msg[..end];
    let mut out = Vec::new();
    let mut names = Vec::new();
    let mut pos = start;
    if let Some(layout) = name_layout(class, rtype) {
        for f in layout {
            match f {
                Field::CName | Field::UName => {
                    let d = decode_name(view, pos).ok()?;
                    out.extend_from_slice(&d.name.wire());
                    let at = pos;
                    pos += d.first_chunk_len;
                    names.push((at, d, matches!(f, Field::CName)));
                }
                Field::Fixed(n) => {
                    let take = (*n).min(end - pos);
                    out.extend_from_slice(&view[pos..pos + take]);
                    pos += take;
                }
            }
        }
    }
    out.extend_from_slice(&view[pos..end]);
    Some((out, names))
}

/// RDATA equality (RFC 3597 §6 plus the pre-3597 case-insensitive names):
/// when both are well formed for a name-bearing type, compare field-wise with
/// names case-folded; otherwise octet-wise.
pub fn equal(class: u16, rtype: u16, a: &[u8], b: &[u8]) -> bool {
    if has_caseless_names(class, rtype) {
        if let (Some(fa), Some(fb)) = (split_fields(class, rtype, a), split_fields(class, rtype, b)) {
            return fa.len() == fb.len()
                && fa.iter().zip(fb.iter()).all(|((k, x), (_, y))| match k {
                    Field::Fixed(_) => x == y,
                    _ => x.eq_ignore_ascii_case(y),
                });
        }
    }
    a == b
}

/// RDATA with embedded names of pre-3597 types case-folded (for comparing
/// responses when compression may have changed case).
pub fn fold_names(class: u16, rtype: u16, rdata: &[u8]) -> Vec<u8> {
    match split_fields(class, rtype, rdata) {
        Some(fields) => {
            let mut out = Vec::with_capacity(rdata.len());
            for (k, s) in fields {
                match k {
                    Field::Fixed(_) => out.extend_from_slice(s),
                    _ => out.extend_from_slice(&s.to_ascii_lowercase()),
                }
            }
            out
        }
        None => rdata.to_vec(),
    }
}

/// Embedded names of well-formed RDATA, in order.
pub fn names_in(class: u16, rtype: u16, rdata: &[u8]) -> Vec<MName> {
    match split_fields(class, rtype, rdata) {
        Some(fields) => fields
            .into_iter()
            .filter(|(k, _)| !matches!(k, Field::Fixed(_)))
            .map(|(_, s)| MName::from_wire(s).unwrap().0)
            .collect(),
        None => Vec::new(),
    }
}

#[cfg(test)]
mod tests {
    use super::*;

    #[test]
    fn basics() {
        assert!(validate(C_IN, T_A, &[1, 2, 3, 4]));
        assert!(!validate(C_IN, T_A, &[1, 2, 3]));
        assert!(validate(C_HS, T_A, &[1, 2, 3]));
        assert!(validate(C_IN, T_TXT, b"\x01a\x00"));
        assert!(!validate(C_IN, T_TXT, b""));
        assert!(!validate(C_IN, T_TXT, b"\x02a"));
        assert!(validate(C_IN, T_HINFO, b"\x01a\x01b"));
        assert!(!validate(C_IN, T_HINFO, b"\x01a\x01bc"));
        assert!(validate(C_IN, T_MX, b"\x00\x01\x01a\x00"));
        assert!(!validate(C_IN, T_MX, b"\x00\x01\x01a\x00\x00"));
        assert!(validate(C_CH, T_A, b"\x01a\x00\x00\x01"));
        assert!(validate(C_IN, T_OPT, b"\x00\x01\x00\x01x"));
        assert!(!validate(C_IN, T_OPT, b"\x00\x01\x00\x02x"));
        assert!(equal(C_IN, T_NS, b"\x01a\x00", b"\x01A\x00"));
        assert!(!equal(C_IN, T_NS, b"\x01a\x00x", b"\x01A\x00x"));
        assert!(!equal(C_HS, T_SRV, b"\x00\x00\x00\x00\x00\x00\x01a\x00", b"\x00\x00\x00\x00\x00\x00\x01A\x00"));
        assert!(equal(C_IN, T_SRV, b"\x00\x00\x00\x00\x00\x00\x01a\x00", b"\x00\x00\x00\x00\x00\x00\x01A\x00"));
    }
}
