pub mod placeholder {}
