//! Independent reference components (no dependency on quandary).
pub mod name;
pub mod rdata;
pub mod resolve;
pub mod scan;
pub mod tsig;
pub mod wire;
pub mod zone;
pub mod zonefile;
