#![no_main]
use libfuzzer_sys::fuzz_target;

fuzz_target!(|data: &[u8]| {
    vchecks::fuzzglue::fuzz_one("fz_server", data);
});
