//! See Cargo.toml.  The generator is a small xorshift so that Miri does not
//! have to interpret a property-testing library; inputs are a pure function of
//! MIRI_NAMES_SEED and MIRI_NAMES_CASES.

#[cfg(test)]
mod tests {
    use quandary::name::{LowercaseName, Name, NameBuilder};
    use vmodel::name::MName;
    use vmodel::wire::decode_name;

    struct Rng(u64);
    impl Rng {
        fn next(&mut self) -> u64 {
            self.0 ^= self.0 << 13;
            self.0 ^= self.0 >> 7;
            self.0 ^= self.0 << 17;
            self.0
        }
        fn below(&mut self, n: u64) -> u64 {
            self.next() % n.max(1)
        }
    }

    fn env(name: &str, default: u64) -> u64 {
        std::env::var(name).ok().and_then(|v| v.parse().ok()).unwrap_or(default)
    }

    /// A buffer made of labels, pointers and junk, and a start offset.
    fn buffer(r: &mut Rng) -> (Vec<u8>, usize) {
        let mut buf = Vec::new();
        let mut starts = vec![0usize];
        for _ in 0..1 + r.below(6) {
            match r.below(8) {
                0 => buf.push(0),
                1 => {
                    let t = starts[r.below(starts.len() as u64) as usize];
                    buf.extend_from_slice(&[0xc0 | ((t >> 8) as u8 & 0x3f), t as u8]);
                }
                2 => buf.push(r.next() as u8),
                3 => {
                    let n = 60 + r.below(6) as usize;
                    buf.push(n as u8);
                    buf.extend(std::iter::repeat(b'x').take(n.min(63)));
                }
                _ => {
                    starts.push(buf.len());
                    let n = 1 + r.below(5) as usize;
                    buf.push(n as u8);
                    for _ in 0..n {
                        buf.push(b"aAzZ-0\x00\xff*."[r.below(10) as usize]);
                    }
                }
            }
        }
        if r.below(3) > 0 {
            buf.push(0);
        }
        let start = if r.below(4) == 0 { r.below(buf.len() as u64 + 2) as usize } else { starts[r.below(starts.len() as u64) as usize] };
        (buf, start)
    }

    #[test]
    fn decoding_agrees_with_the_model_and_is_memory_safe() {
        let mut r = Rng(env("MIRI_NAMES_SEED", 1) | 1 << 40);
        let cases = env("MIRI_NAMES_CASES", 300);
        let mut accepted = 0u64;
        for _ in 0..cases {
            let (buf, start) = buffer(&mut r);
            let model = decode_name(&buf, start);
            match Name::try_from_compressed(&buf, start) {
                Ok((name, len)) => {
                    let m = model.as_ref().unwrap_or_else(|e| panic!("quandary accepted {buf:?}@{start}, the model says {e:?}"));
                    assert_eq!(name.wire_repr(), &m.name.wire()[..], "{buf:?}@{start}");
                    assert_eq!(len, m.first_chunk_len);
                    accepted += 1;
                    // exercise the DST: clone into a box, lower-case, compare, hash-free accessors
                    let boxed: Box<Name> = name.clone();
                    assert_eq!(&*boxed, &*name);
                    let lower: Box<LowercaseName> = boxed.clone().into();
                    assert_eq!(lower.wire_repr(), &m.name.folded().wire()[..]);
                    assert_eq!(name.len(), m.name.labels.len() + 1);
                    for (i, l) in name.labels().enumerate() {
                        if i < m.name.labels.len() {
                            assert_eq!(l.octets(), &m.name.labels[i][..]);
                        }
                    }
                    if let Some(sup) = name.superdomain(1) {
                        assert!(name.eq_or_subdomain_of(&sup));
                    }
                    let text = name.to_string();
                    let back: Box<Name> = text.parse().unwrap_or_else(|e| panic!("{text:?} does not parse back: {e}"));
                    assert_eq!(back.wire_repr(), name.wire_repr());
                }
                Err(_) => assert!(model.is_err(), "quandary rejected {buf:?}@{start}, the model accepts it"),
            }
            let _ = Name::skip_compressed(&buf[start.min(buf.len())..]);
            let _ = Name::try_from_uncompressed(&buf[start.min(buf.len())..]);
            let _ = Name::validate_uncompressed_all(&buf);
        }
        assert!(accepted > 0, "the generator produced no valid name");
    }

    #[test]
    fn builder_and_text_round_trip() {
        let mut r = Rng(env("MIRI_NAMES_SEED", 1) | 1 << 41);
        for _ in 0..env("MIRI_NAMES_CASES", 300) / 3 {
            let mut labels: Vec<Vec<u8>> = Vec::new();
            for _ in 0..r.below(6) {
                let n = 1 + r.below(7) as usize;
                labels.push((0..n).map(|_| b"abAB09-_\\.\x00\xfe \"@"[r.below(15) as usize]).collect());
            }
            let m = MName { labels };
            if !m.is_valid() {
                continue;
            }
            let mut b = NameBuilder::new();
            for l in &m.labels {
                b.try_push_slice(l).expect("valid label");
                b.next_label().expect("label fits");
            }
            let name = b.finish().expect("ends with the null label");
            assert_eq!(name.wire_repr(), &m.wire()[..]);
            let text = name.to_string();
            assert_eq!(MName::parse_text(&text).as_ref(), Some(&m), "{text:?}");
            let back: Box<Name> = text.parse().expect("display output parses");
            assert_eq!(&*back, &*name);
        }
    }
}
