//! Running quandary's `Server` on generated catalogs and requests.

use std::net::{IpAddr, Ipv4Addr};
use std::sync::Arc;

use quandary::db::{HashMapTreeCatalog, HashMapTreeZone, SingleZoneCatalog};
use quandary::message::tsig::Algorithm;
use quandary::server::{ReceivedInfo, Response, RrlParams, Server, Transport, TsigKeyMap};
use serde::{Deserialize, Serialize};
use vmodel::name::MName;
use vmodel::resolve::MRec;
use vmodel::rdata as mr;
use vmodel::tsig::Alg;
use vmodel::wire::{MessageDecode, RrDecode};

use crate::fw::catch;
use crate::srvgen::{qn, BuiltCatalog};

#[derive(Clone, Debug, Serialize, Deserialize, PartialEq, Eq, Hash)]
pub struct KeySpec {
    pub name: MName,
    pub sha256: bool,
    pub secret: Vec<u8>,
}

impl KeySpec {
    pub fn alg(&self) -> Alg {
        if self.sha256 {
            Alg::Sha256
        } else {
            Alg::Sha1
        }
    }
}

#[derive(Clone, Debug, Serialize, Deserialize, PartialEq, Eq, Hash)]
pub struct RrlSpec {
    pub noerror: u32,
    pub nxdomain: u32,
    pub error: u32,
    pub window: u32,
    pub slip: usize,
    pub v4_prefix: u8,
    pub v6_prefix: u8,
    pub size: usize,
}

#[derive(Clone, Debug, Serialize, Deserialize, PartialEq, Eq, Hash)]
pub struct ServerCfg {
    pub payload: u16,
    pub keys: Vec<KeySpec>,
    pub rrl: Option<RrlSpec>,
}

impl Default for ServerCfg {
    fn default() -> Self {
        ServerCfg {
            payload: 1232,
            keys: Vec::new(),
            rrl: None,
        }
    }
}

pub enum AnyServer {
    Tree(Server<HashMapTreeCatalog<HashMapTreeZone, ()>>),
    Single(Server<SingleZoneCatalog<HashMapTreeZone, ()>>),
}

macro_rules! with_server {
    ($s:expr, $v:ident => $body:expr) => {
        match $s {
            AnyServer::Tree($v) => $body,
            AnyServer::Single($v) => $body,
        }
    };
}

pub fn make_server(cat: &BuiltCatalog, cfg: &ServerCfg) -> AnyServer {
    let mut s = match cat {
        BuiltCatalog::Tree(c) => AnyServer::Tree(Server::new(Arc::clone(c))),
        BuiltCatalog::Single(c) => AnyServer::Single(Server::new(Arc::clone(c))),
    };
    let payload = cfg.payload.max(512);
    let rrl = cfg.rrl.as_ref().and_then(|r| {
        let mut p = RrlParams::new(r.noerror.max(1), r.nxdomain.max(1), r.error.max(1), r.window.max(1)).ok()?;
        p.set_slip(r.slip);
        p.set_ipv4_prefix_len(r.v4_prefix.min(32)).ok()?;
        p.set_ipv6_prefix_len(r.v6_prefix.min(64)).ok()?;
        p.set_size(r.size.max(1)).ok()?;
        Some(p)
    });
    let mut keys = TsigKeyMap::new();
    for k in &cfg.keys {
        let alg = if k.sha256 { Algorithm::HmacSha256 } else { Algorithm::HmacSha1 };
        keys.insert(qn(&k.name.folded()), (alg, k.secret.clone().into_boxed_slice()));
    }
    with_server!(&mut s, v => {
        v.set_edns_udp_payload_size(payload).unwrap();
        v.set_rrl_params(rrl);
        v.set_tsig_keys(Arc::new(keys));
    });
    s
}

impl AnyServer {
    pub fn payload(&self) -> u16 {
        with_server!(self, v => v.edns_udp_payload_size())
    }

    /// Calls handle_message with a response buffer of exactly the documented
    /// minimum size; Err(panic description) if it panicked.
    pub fn handle(&self, request: &[u8], tcp: bool, source: IpAddr, buf: &mut Vec<u8>) -> Result<Option<usize>, String> {
        let need = if tcp { 65535 } else { self.payload() as usize };
        if buf.len() != need {
            buf.resize(need, 0);
        }
        // What the response buffer holds beforehand is the caller's business (the I/O providers
        // reuse theirs): half of the calls find what the previous response left behind, the others
        // find every octet set to 0xff or to 0x5a (chosen by the request's octets, so that a
        // replay sees the same).
        match request.iter().fold(0x811c_9dc5u32, |h, b| (h ^ *b as u32).wrapping_mul(0x0100_0193)) % 4 {
            2 => buf.fill(0xff),
            3 => buf.fill(0x5a),
            _ => {}
        }
        let info = ReceivedInfo::new(source, if tcp { Transport::Tcp } else { Transport::Udp });
        catch(|| {
            let r = with_server!(self, v => v.handle_message(request, info, &mut buf[..]));
            match r {
                Response::Single(n) => Some(n),
                Response::None => None,
            }
        })
    }

    pub fn shift_rrl_time(&self, secs: u64) {
        with_server!(self, v => v.verif_rrl_shift_time(secs))
    }

    pub fn shift_rrl_time_millis(&self, millis: u64) {
        with_server!(self, v => v.verif_rrl_shift_time_millis(millis))
    }
}

pub fn localhost() -> IpAddr {
    IpAddr::V4(Ipv4Addr::new(127, 0, 0, 1))
}

/// Canonical form of a record for multiset comparison: owner case-folded,
/// embedded names of name-bearing types case-folded.
pub fn canon_rec(owner: &MName, rtype: u16, class: u16, ttl: u32, rdata: &[u8]) -> (MName, u16, u16, u32, Vec<u8>) {
    (owner.folded(), rtype, class, ttl, mr::fold_names(class, rtype, rdata))
}

pub fn canon_decoded(rr: &RrDecode) -> (MName, u16, u16, u32, Vec<u8>) {
    canon_rec(&rr.owner.name, rr.rtype, rr.class, rr.ttl_raw, &rr.rdata)
}

pub fn canon_model(r: &MRec) -> (MName, u16, u16, u32, Vec<u8>) {
    canon_rec(&r.owner, r.rtype, r.class, r.ttl, &r.rdata)
}

/// Records of the additional section that are not OPT/TSIG.
pub fn plain_additional(d: &MessageDecode) -> Vec<&RrDecode> {
    d.additional.iter().filter(|r| r.rtype != mr::T_OPT && r.rtype != mr::T_TSIG).collect()
}

pub fn hex(b: &[u8]) -> String {
    b.iter().map(|x| format!("{x:02x}")).collect()
}

pub fn show_recs(v: &[(MName, u16, u16, u32, Vec<u8>)]) -> String {
    v.iter().map(|(o, t, c, ttl, rd)| format!("{o} {ttl} CLASS{c} TYPE{t} {}", hex(rd))).collect::<Vec<_>>().join("; ")
}
