//! Catalog / zone specifications for the server-level checks: one spec builds
//! both quandary's catalog and the reference catalog.

use std::sync::Arc;

use proptest::prelude::*;
use quandary::class::Class;
use quandary::db::catalog::Entry;
use quandary::db::zone::GluePolicy;
use quandary::db::{HashMapTreeCatalog, HashMapTreeZone, SingleZoneCatalog};
use quandary::name::Name;
use quandary::rr::{Rdata, Ttl, Type};
use serde::{Deserialize, Serialize};
use vmodel::name::MName;
use vmodel::rdata as mr;
use vmodel::resolve::MEntry;
use vmodel::zone::{MCatalog, MZone};

use crate::gen::flip_case;

pub fn qn(m: &MName) -> Box<Name> {
    Name::try_from_uncompressed_all(&m.wire()).unwrap()
}

/// A name relative to the zone apex, an absolute name, or a link of a generated CNAME chain.
#[derive(Clone, Debug, Serialize, Deserialize, PartialEq, Eq, Hash)]
pub enum NameSpec {
    Rel(Vec<Vec<u8>>, u64),
    Abs(Vec<Vec<u8>>),
}

#[derive(Clone, Debug, Serialize, Deserialize, PartialEq, Eq, Hash)]
pub enum RdSpec {
    A(u8),
    Aaaa(u8),
    /// single-name types: NS, CNAME, PTR, MB, MD, MF, MG, MR
    Single(u16, NameSpec),
    Mx(u16, NameSpec),
    Srv(u16, NameSpec),
    Soa { minimum: u32, serial: u8 },
    /// n character-strings of the given length (large RRsets for truncation)
    Txt(u8, u8, u8),
    /// arbitrary type/RDATA (may be malformed for its type)
    Raw(u16, Vec<u8>),
}

#[derive(Clone, Debug, Serialize, Deserialize, PartialEq, Eq, Hash)]
pub struct RecSpec {
    pub owner: NameSpec,
    pub ttl: u32,
    pub rd: RdSpec,
}

#[derive(Clone, Debug, Serialize, Deserialize, PartialEq, Eq, Hash)]
pub struct ZoneSpec {
    pub apex: MName,
    pub class: u16,
    /// 0 = loaded, 1 = not yet loaded, 2 = failed to load
    pub kind: u8,
    pub recs: Vec<RecSpec>,
}

#[derive(Clone, Debug, Serialize, Deserialize, PartialEq, Eq, Hash)]
pub struct CatalogSpec {
    pub zones: Vec<ZoneSpec>,
    /// serve only the first zone through a SingleZoneCatalog
    pub single: bool,
}

pub fn resolve_name(apex: &MName, n: &NameSpec) -> MName {
    let r = match n {
        NameSpec::Rel(rel, mask) => {
            let mut labels = rel.clone();
            labels.extend(apex.labels.iter().cloned());
            flip_case(&MName { labels }, *mask)
        }
        NameSpec::Abs(labels) => MName { labels: labels.clone() },
    };
    if r.is_valid() {
        r
    } else {
        apex.clone()
    }
}

pub fn render_rd(apex: &MName, class: u16, rd: &RdSpec) -> (u16, Vec<u8>) {
    match rd {
        RdSpec::A(v) => {
            if class == mr::C_CH {
                // Chaosnet A: name + 16-bit address
                let mut out = MName { labels: vec![b"chaos".to_vec()] }.wire();
                out.extend_from_slice(&[1, *v]);
                (mr::T_A, out)
            } else {
                (mr::T_A, vec![192, 0, 2, *v])
            }
        }
        RdSpec::Aaaa(v) => {
            let mut out = vec![0x20, 0x01, 0x0d, 0xb8, 0, 0, 0, 0, 0, 0, 0, 0, 0, 0, 0, 0];
            out[15] = *v;
            (mr::T_AAAA, out)
        }
        RdSpec::Single(t, n) => (*t, resolve_name(apex, n).wire()),
        RdSpec::Mx(p, n) => {
            let mut out = p.to_be_bytes().to_vec();
            out.extend_from_slice(&resolve_name(apex, n).wire());
            (mr::T_MX, out)
        }
        RdSpec::Srv(port, n) => {
            let mut out = vec![0, 1, 0, 2];
            out.extend_from_slice(&port.to_be_bytes());
            out.extend_from_slice(&resolve_name(apex, n).wire());
            (mr::T_SRV, out)
        }
        RdSpec::Soa { minimum, serial } => {
            let mut out = resolve_name(apex, &NameSpec::Rel(vec![b"ns".to_vec()], 0)).wire();
            out.extend_from_slice(&resolve_name(apex, &NameSpec::Rel(vec![b"hostmaster".to_vec()], 0)).wire());
            out.extend_from_slice(&[0, 0, 0, *serial]);
            out.extend_from_slice(&[0, 0, 0x0e, 0x10, 0, 0, 0x03, 0x84, 0, 0x09, 0x3a, 0x80]);
            out.extend_from_slice(&minimum.to_be_bytes());
            (mr::T_SOA, out)
        }
        RdSpec::Txt(n, len, fill) => {
            let mut out = Vec::new();
            for i in 0..(*n).max(1) {
                out.push(*len);
                out.extend(std::iter::repeat(fill.wrapping_add(i)).take(*len as usize));
            }
            (mr::T_TXT, out)
        }
        RdSpec::Raw(t, b) => (*t, b.clone()),
    }
}

pub enum BuiltCatalog {
    Tree(Arc<HashMapTreeCatalog<HashMapTreeZone, ()>>),
    Single(Arc<SingleZoneCatalog<HashMapTreeZone, ()>>),
}

/// Builds quandary's catalog and the reference catalog from a spec.  Records
/// the reference rejects (TTL mismatch, out of zone) are skipped for both.
pub fn build(spec: &CatalogSpec) -> (BuiltCatalog, MCatalog<MEntry>) {
    let mut tree: HashMapTreeCatalog<HashMapTreeZone, ()> = HashMapTreeCatalog::new();
    let mut model: MCatalog<MEntry> = MCatalog::new();
    let mut first: Option<Entry<HashMapTreeZone, ()>> = None;
    let zones: &[ZoneSpec] = if spec.single { &spec.zones[..spec.zones.len().min(1)] } else { &spec.zones };
    for z in zones {
        let entry = match z.kind % 3 {
            0 => {
                let mut qz = HashMapTreeZone::new(qn(&z.apex), Class::from(z.class), GluePolicy::Narrow);
                let mut mz = MZone::new(z.apex.clone(), z.class);
                for r in &z.recs {
                    let owner = resolve_name(&z.apex, &r.owner);
                    let (rtype, rd) = render_rd(&z.apex, z.class, &r.rd);
                    let ttl = r.ttl & 0x7fff_ffff;
                    if mz.add(&owner, rtype, z.class, ttl, &rd).is_ok() {
                        let rdata: &Rdata = rd.as_slice().try_into().unwrap();
                        qz.add(&qn(&owner), Type::from(rtype), Class::from(z.class), Ttl::from(ttl), rdata)
                            .expect("the reference accepted this record");
                    }
                }
                model.insert(&z.apex, z.class, MEntry::Loaded(mz));
                Entry::Loaded(Arc::new(qz), ())
            }
            1 => {
                model.insert(&z.apex, z.class, MEntry::NotYetLoaded);
                Entry::NotYetLoaded(qn(&z.apex), Class::from(z.class), ())
            }
            _ => {
                model.insert(&z.apex, z.class, MEntry::FailedToLoad);
                Entry::FailedToLoad(qn(&z.apex), Class::from(z.class), ())
            }
        };
        if first.is_none() {
            first = Some(entry.clone());
        }
        tree.insert(entry);
    }
    if spec.single {
        if let Some(e) = first {
            return (BuiltCatalog::Single(Arc::new(SingleZoneCatalog::new(e))), model);
        }
    }
    (BuiltCatalog::Tree(Arc::new(tree)), model)
}

////////////////////////////////////////////////////////////////////////
// STRATEGIES                                                         //
////////////////////////////////////////////////////////////////////////

pub fn zlabel() -> impl Strategy<Value = Vec<u8>> {
    prop_oneof![
        3 => Just(b"a".to_vec()),
        3 => Just(b"b".to_vec()),
        2 => Just(b"c".to_vec()),
        3 => Just(b"ns".to_vec()),
        2 => Just(b"mx".to_vec()),
        2 => Just(b"www".to_vec()),
        3 => Just(b"*".to_vec()),
        3 => Just(b"sub".to_vec()),
        1 => Just(b"A".to_vec()),
    ]
}

pub fn rel_name(max: usize) -> impl Strategy<Value = NameSpec> {
    (prop::collection::vec(zlabel(), 0..=max), prop_oneof![4 => Just(0u64), 1 => any::<u64>()]).prop_map(|(l, m)| NameSpec::Rel(l, m))
}

pub fn target_name() -> impl Strategy<Value = NameSpec> {
    prop_oneof![
        9 => rel_name(3),
        1 => prop::collection::vec(zlabel(), 1..3).prop_map(|mut l| {
            l.push(b"outside".to_vec());
            NameSpec::Abs(l)
        }),
        // out-of-zone targets of one label that swallows a whole apex of the pool (test., sub.test., example.,
        // Zone.example.): fewer labels than the apex, same wire-form tail
        1 => prop_oneof![
            Just(NameSpec::Abs(vec![b"x\x04test".to_vec()])),
            Just(NameSpec::Abs(vec![b"x\x03sub\x04test".to_vec()])),
            Just(NameSpec::Abs(vec![b"x\x07example".to_vec()])),
            Just(NameSpec::Abs(vec![b"x\x04Zone\x07example".to_vec()])),
            Just(NameSpec::Abs(vec![b"www".to_vec(), b"x\x04test".to_vec()])),
        ],
    ]
}

/// `valid_only`: RDATA always valid for its type (C02/C05); otherwise a few raw malformed records.
pub fn rec_spec(valid_only: bool, big: bool) -> BoxedStrategy<RecSpec> {
    let single_type = prop_oneof![6 => Just(mr::T_NS), 4 => Just(mr::T_CNAME), 1 => Just(mr::T_PTR), 1 => Just(mr::T_MB)];
    let rd = prop_oneof![
        8 => (0u8..4).prop_map(RdSpec::A),
        4 => (0u8..4).prop_map(RdSpec::Aaaa),
        8 => (single_type, target_name()).prop_map(|(t, n)| RdSpec::Single(t, n)),
        3 => (0u16..3, target_name()).prop_map(|(p, n)| RdSpec::Mx(p, n)),
        2 => (0u16..3, target_name()).prop_map(|(p, n)| RdSpec::Srv(p, n)),
        2 => if big { (1u8..40, 200u8..=255, any::<u8>()).prop_map(|(n, l, f)| RdSpec::Txt(n, l, f)).boxed() } else { (1u8..3, 0u8..12, any::<u8>()).prop_map(|(n, l, f)| RdSpec::Txt(n, l, f)).boxed() },
        1 => (prop_oneof![Just(99u16), Just(65280u16), Just(mr::T_HINFO)], prop::collection::vec(any::<u8>(), 0..12)).prop_map(|(t, b)| {
            if t == mr::T_HINFO {
                RdSpec::Raw(t, vec![1, b'x', 1, b'y'])
            } else {
                RdSpec::Raw(t, b)
            }
        }),
        2 => if valid_only {
            (0u8..4).prop_map(RdSpec::A).boxed()
        } else {
            (prop_oneof![Just(mr::T_A), Just(mr::T_NS), Just(mr::T_CNAME), Just(mr::T_SOA), Just(mr::T_MX), Just(mr::T_SRV), Just(mr::T_TXT), Just(mr::T_AAAA)], prop::collection::vec(any::<u8>(), 0..8)).prop_map(|(t, b)| RdSpec::Raw(t, b)).boxed()
        },
    ];
    (rel_name(4), prop_oneof![5 => Just(300u32), 2 => Just(60u32), 1 => Just(0u32), 1 => Just(86400u32)], rd)
        .prop_map(|(owner, ttl, rd)| RecSpec { owner, ttl, rd })
        .boxed()
}

/// Records forming a CNAME chain of `len` links starting at `start` and ending as `end` says.
fn chain_recs(start: Vec<u8>, len: usize, end: u8) -> Vec<RecSpec> {
    let link = |i: usize| -> NameSpec {
        if i == 0 {
            NameSpec::Rel(vec![start.clone()], 0)
        } else {
            NameSpec::Rel(vec![format!("l{i}").into_bytes(), start.clone()], if i % 3 == 0 { 0xaaaa } else { 0 })
        }
    };
    let mut out = Vec::new();
    for i in 0..len {
        let target = if i + 1 == len {
            match end % 8 {
                0 | 1 => link(len),                                          // ends in data / nodata below
                2 => NameSpec::Rel(vec![b"nonexistent".to_vec(), start.clone()], 0), // NXDOMAIN (unless a wildcard covers it)
                3 => NameSpec::Abs(vec![b"far".to_vec(), b"outside".to_vec()]),
                4 => link(len / 2),                                          // loop
                5 => NameSpec::Rel(vec![b"x".to_vec(), b"sub".to_vec()], 0),  // possibly below a cut
                6 => NameSpec::Rel(vec![b"w".to_vec(), b"a".to_vec()], 0),    // possibly wildcard-covered
                _ => NameSpec::Rel(vec![], 0),                               // the apex
            }
        } else {
            link(i + 1)
        };
        out.push(RecSpec {
            owner: link(i),
            ttl: 300,
            rd: RdSpec::Single(mr::T_CNAME, target),
        });
    }
    if end % 8 == 0 {
        out.push(RecSpec {
            owner: link(len),
            ttl: 300,
            rd: RdSpec::A(7),
        });
        out.push(RecSpec {
            owner: link(len),
            ttl: 300,
            rd: RdSpec::Mx(1, NameSpec::Rel(vec![b"mx".to_vec()], 0)),
        });
    } else if end % 8 == 1 {
        out.push(RecSpec {
            owner: link(len),
            ttl: 300,
            rd: RdSpec::Txt(1, 3, b'q'),
        });
    }
    out
}

/// A delegation with name servers inside the child (with glue), in a sibling
/// delegation, in the parent zone proper, and outside.
fn delegation_recs(cut: Vec<Vec<u8>>, shape: u8, glue_mask: u8) -> Vec<RecSpec> {
    let rel = |l: &[&[u8]]| -> NameSpec {
        let mut labels: Vec<Vec<u8>> = l.iter().map(|x| x.to_vec()).collect();
        labels.extend(cut.iter().cloned());
        NameSpec::Rel(labels, 0)
    };
    let mut out = Vec::new();
    let mut ns = |target: NameSpec| RecSpec {
        owner: NameSpec::Rel(cut.clone(), 0),
        ttl: 300,
        rd: RdSpec::Single(mr::T_NS, target),
    };
    let addr = |owner: NameSpec, v6: bool, v: u8| RecSpec {
        owner,
        ttl: 300,
        rd: if v6 { RdSpec::Aaaa(v) } else { RdSpec::A(v) },
    };
    // in-bailiwick servers
    if shape & 1 != 0 {
        out.push(ns(rel(&[b"ns1"])));
        if glue_mask & 1 != 0 {
            out.push(addr(rel(&[b"ns1"]), false, 1));
        }
        if glue_mask & 2 != 0 {
            out.push(addr(rel(&[b"ns1"]), true, 1));
        }
    }
    if shape & 2 != 0 {
        out.push(ns(rel(&[b"ns2", b"deep"])));
        if glue_mask & 4 != 0 {
            out.push(addr(rel(&[b"ns2", b"deep"]), false, 2));
        }
    }
    // server in the parent zone proper
    if shape & 4 != 0 {
        out.push(ns(NameSpec::Rel(vec![b"ns".to_vec()], 0)));
        if glue_mask & 8 != 0 {
            out.push(addr(NameSpec::Rel(vec![b"ns".to_vec()], 0), false, 3));
        }
    }
    // server below a sibling delegation ("sibling glue")
    if shape & 8 != 0 {
        out.push(ns(NameSpec::Rel(vec![b"ns".to_vec(), b"sibling".to_vec()], 0)));
        out.push(RecSpec {
            owner: NameSpec::Rel(vec![b"sibling".to_vec()], 0),
            ttl: 300,
            rd: RdSpec::Single(mr::T_NS, NameSpec::Abs(vec![b"ns".to_vec(), b"outside".to_vec()])),
        });
        if glue_mask & 16 != 0 {
            out.push(addr(NameSpec::Rel(vec![b"ns".to_vec(), b"sibling".to_vec()], 0), false, 4));
        }
    }
    if shape & 16 != 0 {
        out.push(ns(NameSpec::Abs(vec![b"ns".to_vec(), b"outside".to_vec()])));
    }
    // the delegation point itself is one of its name servers (its addresses are glue at the cut)
    if shape & 32 != 0 {
        out.push(ns(NameSpec::Rel(cut.clone(), 0)));
        if glue_mask & 32 != 0 {
            out.push(addr(NameSpec::Rel(cut.clone(), 0), false, 5));
        }
        if glue_mask & 64 != 0 {
            out.push(addr(NameSpec::Rel(cut.clone(), 0), true, 5));
        }
    }
    if shape & 63 == 0 {
        out.push(ns(rel(&[b"ns1"])));
    }
    out
}

/// A host with addresses plus records (MX / SRV / NS / MB) pointing at it.
fn host_recs(host: Vec<u8>, user: Vec<u8>, kinds: u8) -> Vec<RecSpec> {
    let h = NameSpec::Rel(vec![host.clone()], 0);
    let u = NameSpec::Rel(vec![user], 0);
    let mut out = vec![RecSpec {
        owner: h.clone(),
        ttl: 300,
        rd: RdSpec::A(9),
    }];
    if kinds & 1 != 0 {
        out.push(RecSpec {
            owner: h.clone(),
            ttl: 300,
            rd: RdSpec::Aaaa(9),
        });
    }
    if kinds & 2 != 0 {
        out.push(RecSpec {
            owner: u.clone(),
            ttl: 300,
            rd: RdSpec::Mx(10, NameSpec::Rel(vec![host.clone()], 0x3)),
        });
    }
    if kinds & 4 != 0 {
        out.push(RecSpec {
            owner: u.clone(),
            ttl: 300,
            rd: RdSpec::Srv(53, h.clone()),
        });
    }
    if kinds & 8 != 0 {
        out.push(RecSpec {
            owner: NameSpec::Rel(vec![], 0),
            ttl: 300,
            rd: RdSpec::Single(mr::T_NS, h.clone()),
        });
    }
    if kinds & 16 != 0 {
        out.push(RecSpec {
            owner: u,
            ttl: 300,
            rd: RdSpec::Single(mr::T_MB, h),
        });
    }
    out
}

pub fn zone_spec(apex: MName, valid_only: bool, big: bool, soa_min_lt_2_31: bool) -> impl Strategy<Value = ZoneSpec> {
    let apex2 = apex.clone();
    (
        // 255 and 254 are the QCLASS values ANY and NONE: nothing stops a catalog entry from having such a class
        prop_oneof![12 => Just(mr::C_IN), 4 => Just(mr::C_CH), 2 => Just(mr::C_HS), 2 => Just(300u16), 1 => Just(255u16), 1 => Just(254u16)],
        prop_oneof![8 => Just(0u8), 1 => Just(1u8), 1 => Just(2u8)],
        // apex records
        prop::option::weighted(0.9, (prop_oneof![Just(60u32), Just(300), Just(3600), Just(7200)], prop_oneof![Just(30u32), Just(300), Just(3600), Just(86400), if soa_min_lt_2_31 { Just(0x7fff_ffffu32).boxed() } else { any::<u32>().boxed() }], 0u8..2)),
        prop::collection::vec(target_name(), 0..3),
        prop::collection::vec(rec_spec(valid_only, big), 0..30),
        prop::collection::vec((zlabel(), 1usize..=10, any::<u8>()), 0..3),
        prop::collection::vec((prop::collection::vec(prop_oneof![Just(b"sub".to_vec()), Just(b"del".to_vec()), Just(b"a".to_vec())], 1..3), any::<u8>(), any::<u8>()), 0..3),
        prop::collection::vec((prop_oneof![Just(b"mx".to_vec()), Just(b"h".to_vec()), Just(b"ns".to_vec())], zlabel(), any::<u8>()), 0..3),
        // a delegation with many long name-server names, glue and parent-side addresses (truncation tests)
        if big {
            prop::option::weighted(0.6, (prop_oneof![8 => 1usize..14, 1 => 14usize..26], prop_oneof![6 => 1usize..=60, 2 => 1usize..=6], prop_oneof![8 => 0usize..8, 1 => 8usize..26], any::<u8>())).boxed()
        } else {
            Just(None).boxed()
        },
        // an RRset of more than 16 records whose targets have addresses in the zone (MX / SRV at
        // "wide", or NS at the apex): additional-section processing for every one of them
        prop::option::weighted(0.08, (17usize..24, 0u8..3, any::<u8>())),
    )
        .prop_map(move |(class, kind, soa, apex_ns, mut recs, chains, delegations, hosts, bigdel, wide)| {
            let mut all = Vec::new();
            if let Some((ttl, minimum, serial)) = soa {
                all.push(RecSpec {
                    owner: NameSpec::Rel(vec![], 0),
                    ttl,
                    rd: RdSpec::Soa { minimum, serial },
                });
            }
            for n in apex_ns {
                all.push(RecSpec {
                    owner: NameSpec::Rel(vec![], 0),
                    ttl: 300,
                    rd: RdSpec::Single(mr::T_NS, n),
                });
            }
            // no NS at wildcard owners (RFC 4592 §4.2: undefined); at most one CNAME target per owner is
            // not enforced here — the first record wins in both implementations
            for r in recs.iter_mut() {
                if let (NameSpec::Rel(l, _), RdSpec::Single(t, _)) = (&r.owner, &mut r.rd) {
                    if *t == mr::T_NS && l.first().map_or(false, |x| x == b"*") {
                        *t = mr::T_PTR;
                    }
                }
            }
            all.append(&mut recs);
            for (start, len, end) in chains {
                if start != b"*" {
                    all.extend(chain_recs(start, len, end));
                }
            }
            for (cut, shape, glue_mask) in delegations {
                all.extend(delegation_recs(cut, shape, glue_mask));
            }
            for (host, user, kinds) in hosts {
                if user != b"*" {
                    all.extend(host_recs(host, user, kinds));
                }
            }
            if let Some((n_glue, lablen, n_other, addr_mask)) = bigdel {
                let cut = vec![b"big".to_vec()];
                for i in 0..n_glue + n_other {
                    let mut label = vec![b'n'; lablen];
                    label[0] = b'a' + (i % 26) as u8;
                    let in_bailiwick = i < n_glue;
                    let target = if in_bailiwick {
                        NameSpec::Rel(vec![label, b"big".to_vec()], 0)
                    } else {
                        NameSpec::Rel(vec![label, b"servers".to_vec()], 0)
                    };
                    all.push(RecSpec {
                        owner: NameSpec::Rel(cut.clone(), 0),
                        ttl: 300,
                        rd: RdSpec::Single(mr::T_NS, target.clone()),
                    });
                    if addr_mask & 1 != 0 || i % 2 == 0 {
                        all.push(RecSpec { owner: target.clone(), ttl: 300, rd: RdSpec::A(i as u8) });
                    }
                    if addr_mask & 2 != 0 {
                        all.push(RecSpec { owner: target.clone(), ttl: 300, rd: RdSpec::Aaaa(i as u8) });
                    }
                    if addr_mask & 4 != 0 {
                        all.push(RecSpec { owner: target, ttl: 300, rd: RdSpec::A(100 + i as u8) });
                    }
                }
                // the delegation point is its own (last) name server; its addresses are required glue
                if addr_mask & 8 != 0 {
                    let target = NameSpec::Rel(cut.clone(), 0);
                    all.push(RecSpec { owner: target.clone(), ttl: 300, rd: RdSpec::Single(mr::T_NS, target.clone()) });
                    all.push(RecSpec { owner: target.clone(), ttl: 300, rd: RdSpec::A(200) });
                    if addr_mask & 16 != 0 {
                        all.push(RecSpec { owner: target, ttl: 300, rd: RdSpec::Aaaa(200) });
                    }
                }
            }
            if let Some((n, shape, addr_mask)) = wide {
                for i in 0..n {
                    let target = if addr_mask & 4 != 0 {
                        NameSpec::Rel(vec![format!("t{i}").into_bytes(), format!("late{}", (i / 2) % 2).into_bytes(), b"wide".to_vec()], 0)
                    } else {
                        NameSpec::Rel(vec![format!("t{i}").into_bytes(), b"wide".to_vec()], 0)
                    };
                    if addr_mask & 8 != 0 && i % 4 == 2 {
                        for k in 0..12u8 {
                            all.push(RecSpec { owner: target.clone(), ttl: 300, rd: RdSpec::A(100 + k) });
                        }
                    }
                    let (owner, rd) = match (shape, class) {
                        (1, c) if c == mr::C_IN => (NameSpec::Rel(vec![b"wide".to_vec()], 0), RdSpec::Srv(80 + i as u16, target.clone())),
                        (2, _) => (NameSpec::Rel(vec![], 0), RdSpec::Single(mr::T_NS, target.clone())),
                        _ => (NameSpec::Rel(vec![b"wide".to_vec()], 0), RdSpec::Mx(i as u16, target.clone())),
                    };
                    all.push(RecSpec { owner, ttl: 300, rd });
                    if addr_mask & 1 != 0 || i % 3 != 1 {
                        all.push(RecSpec { owner: target.clone(), ttl: 300, rd: RdSpec::A(i as u8) });
                    }
                    if addr_mask & 2 != 0 && i % 2 == 0 {
                        all.push(RecSpec { owner: target, ttl: 300, rd: RdSpec::Aaaa(i as u8) });
                    }
                }
            }
            ZoneSpec {
                apex: apex2.clone(),
                class,
                kind,
                recs: all,
            }
        })
}

pub fn apex_pool() -> Vec<MName> {
    let n = |s: &[&[u8]]| MName {
        labels: s.iter().map(|l| l.to_vec()).collect(),
    };
    vec![n(&[b"test"]), n(&[b"sub", b"test"]), n(&[b"a", b"sub", b"test"]), n(&[b"example"]), n(&[]), n(&[b"b", b"test"]), n(&[b"Zone", b"example"])]
}

pub fn catalog_spec(valid_only: bool, big: bool, soa_min_lt_2_31: bool) -> impl Strategy<Value = CatalogSpec> {
    let pool = apex_pool();
    (prop::collection::vec((0usize..pool.len(), any::<u16>()), 1..5), prop::bool::weighted(0.15))
        .prop_flat_map(move |(picks, single)| {
            let zones: Vec<_> = picks.iter().map(|(i, _)| zone_spec(pool[*i].clone(), valid_only, big, soa_min_lt_2_31)).collect();
            (zones, Just(single))
        })
        .prop_map(|(zones, single)| CatalogSpec { zones, single })
}
