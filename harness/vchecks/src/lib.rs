//! The check library: framework, generators and one module per property.
//! `vcheck` (src/main.rs) is the command-line driver; the fuzz targets in
//! ../fuzz call the same oracles through `fuzzglue`.

pub mod checks;
pub mod fuzzglue;
pub mod fw;
pub mod gen;
pub mod msggen;
pub mod reqgen;
pub mod srvgen;
pub mod srvrun;
