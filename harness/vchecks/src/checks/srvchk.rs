//! Server-level request/response checks sharing one case shape:
//! C01 (survives every request), C02 (responses are well formed), C03 (header
//! and question echo), C08 (FORMERR for malformed requests), C09 (EDNS).
//! Oracles: vmodel::wire (strict decoder) and vmodel::scan (Appendix B).

use std::time::{SystemTime, UNIX_EPOCH};

use proptest::prelude::*;
use serde::{Deserialize, Serialize};
use serde_json::json;
use vmodel::rdata as mr;
use vmodel::scan::{scan, KeyM, Scan, Stage};
use vmodel::wire::{decode_message, MessageDecode};

use crate::fw::{panic_signature, run_prop, Ctx, Fail, PropSpec, Report, Stats, Verdict};
use crate::reqgen::{key_specs, render, req_spec, source_addr, ReqSpec};
use crate::srvgen::{build, catalog_spec, CatalogSpec};
use crate::srvrun::{hex, make_server, plain_additional, AnyServer, RrlSpec, ServerCfg};
use crate::{ensure, fail};

use super::c05::query_names;

#[derive(Clone, Debug, Serialize, Deserialize, PartialEq, Eq, Hash)]
pub struct Case {
    pub catalog: CatalogSpec,
    pub cfg: ServerCfg,
    pub requests: Vec<ReqSpec>,
    /// raw byte strings sent as they are (C01/C03)
    pub raw: Vec<(Vec<u8>, bool)>,
}

pub fn now_secs() -> u64 {
    SystemTime::now().duration_since(UNIX_EPOCH).map(|d| d.as_secs()).unwrap_or(0)
}

pub fn keys_for_scan(cfg: &ServerCfg) -> Vec<KeyM> {
    cfg.keys
        .iter()
        .map(|k| KeyM {
            name: k.name.clone(),
            alg: k.alg(),
            secret: k.secret.clone(),
        })
        .collect()
}

#[derive(Clone, Copy, PartialEq, Eq)]
pub enum Prop {
    C01,
    C02,
    C03,
    C08,
    C09,
}

fn no_data(d: &MessageDecode) -> bool {
    d.answers.is_empty() && d.authority.is_empty() && plain_additional(d).is_empty()
}

/// One request/response exchange judged for one property.
pub fn judge(prop: Prop, req: &[u8], tcp: bool, resp: Option<&[u8]>, sc: &Scan, server_payload: u16, st: &mut Stats) -> Verdict {
    let what = || format!("request {} over {}", hex(req), if tcp { "TCP" } else { "UDP" });
    // A response that must carry a TSIG RR which cannot fit the size limit may be withheld.
    let limit = if tcp { 65535 } else { sc.udp_limit(server_payload) };
    if sc.respond && resp.is_none() && sc.tsig_may_not_fit(limit) && !matches!(prop, Prop::C01 | Prop::C02) {
        st.class("withheld-because-tsig-cannot-fit");
        return Ok(());
    }
    match prop {
        Prop::C01 => Ok(()),
        Prop::C02 => {
            let resp = match resp {
                Some(r) => r,
                None => return Ok(()),
            };
            let d = match decode_message(resp) {
                Ok(d) => d,
                Err(e) => fail!(
                    format!("response-malformed-{e:?}"),
                    "{}: the response {} is not a well-formed DNS message: {e:?}",
                    what(),
                    hex(resp)
                ),
            };
            ensure!(d.header.qdcount <= 1, "response-qdcount", "{}: response has {} questions", what(), d.header.qdcount);
            let opt_elsewhere = d.answers.iter().chain(d.authority.iter()).filter(|r| r.rtype == mr::T_OPT).count();
            let opts = d.additional.iter().filter(|r| r.rtype == mr::T_OPT).count();
            ensure!(opt_elsewhere == 0 && opts <= 1, "response-opt-placement", "{}: response {} has {opts} OPT records in the additional section and {opt_elsewhere} elsewhere", what(), hex(resp));
            let n = d.all_rrs().count();
            for (i, r) in d.all_rrs().enumerate() {
                if r.rtype == mr::T_TSIG {
                    ensure!(i == n - 1 && i >= d.answers.len() + d.authority.len(), "response-tsig-not-last", "{}: TSIG is record {i} of {n} in response {}", what(), hex(resp));
                }
            }
            if n > 0 {
                st.class("response-with-records");
            }
            if !sc.is_only(&Stage::Query) {
                st.class("response-to-irregular-request");
            }
            if d.all_rrs().any(|r| r.rtype != mr::T_OPT && r.rtype != mr::T_TSIG) || !sc.is_only(&Stage::Query) {
                st.nontrivial(&(req, tcp), || json!({"request_hex": hex(req), "tcp": tcp, "response_hex": hex(resp)}));
            }
            Ok(())
        }
        Prop::C03 => {
            if !sc.respond {
                st.class("must-drop");
                ensure!(resp.is_none(), "response-to-droppable", "{}: got a response {} although {}", what(), resp.map(hex).unwrap_or_default(), sc.reason);
                return Ok(());
            }
            let resp = match resp {
                Some(r) => r,
                None => fail!("no-response", "{}: no response (request has QR clear, a full header and at most one question)", what()),
            };
            ensure!(resp.len() >= 12, "short-response", "{}: response of {} octets", what(), resp.len());
            let h = sc.header.as_ref().unwrap();
            let rid = u16::from_be_bytes([resp[0], resp[1]]);
            ensure!(rid == h.id, "id-not-echoed", "{}: response ID {rid}, request ID {}", what(), h.id);
            ensure!(resp[2] & 0x80 != 0, "qr-clear", "{}: response has QR clear", what());
            let ropcode = (resp[2] >> 3) & 0xf;
            ensure!(ropcode == h.opcode, "opcode-not-echoed", "{}: response opcode {ropcode}, request {}", what(), h.opcode);
            let rrd = resp[2] & 1 != 0;
            let want_rd = h.opcode == 0 && h.rd;
            ensure!(rrd == want_rd, "rd-copy", "{}: response RD = {rrd}, expected {want_rd} (request opcode {}, RD {})", what(), h.opcode, h.rd);
            ensure!(resp[3] & 0x80 == 0, "ra-set", "{}: response sets RA", what());
            ensure!(resp[3] & 0x70 == 0, "reserved-bits-set", "{}: response sets Z/AD/CD bits: {:#04x}", what(), resp[3] & 0x70);
            st.class(&format!("opcode-{}", h.opcode));
            if let Some(q) = &sc.question {
                st.class("parseable-question");
                let rq = u16::from_be_bytes([resp[4], resp[5]]);
                ensure!(rq == 1, "question-not-echoed", "{}: response QDCOUNT {rq}", what());
                if q.qname.pointers.is_empty() {
                    let qlen = q.end - q.start;
                    let got = resp.get(12..12 + qlen);
                    ensure!(
                        got == Some(&req[12..12 + qlen]),
                        "question-not-verbatim",
                        "{}: question section {} differs from the request's {}",
                        what(),
                        got.map(hex).unwrap_or_default(),
                        hex(&req[12..12 + qlen])
                    );
                    if q.qname.name.labels.iter().any(|l| l.iter().any(|b| b.is_ascii_uppercase())) {
                        st.class("mixed-case-qname");
                    }
                } else {
                    st.class("qname-with-pointer");
                    let d = match vmodel::wire::decode_question(resp, 12) {
                        Ok(d) => d,
                        Err(e) => fail!("question-not-echoed", "{}: response question undecodable: {e:?}", what()),
                    };
                    ensure!(
                        d.qname.name == q.qname.name && d.qtype == q.qtype && d.qclass == q.qclass,
                        "question-not-echoed",
                        "{}: response question {} {} {}, request {} {} {}",
                        what(),
                        d.qname.name,
                        d.qtype,
                        d.qclass,
                        q.qname.name,
                        q.qtype,
                        q.qclass
                    );
                }
            }
            st.nontrivial(&(resp[2], resp[3], h.opcode, h.qdcount, sc.question.is_some(), req[2], req[3]), || json!({"request_hex": hex(req), "response_header_hex": hex(&resp[..12])}));
            Ok(())
        }
        Prop::C08 => {
            if !sc.respond {
                return Ok(());
            }
            let resp = match resp {
                Some(r) => r,
                None => fail!("no-response", "{}: no response", what()),
            };
            let d = match decode_message(resp) {
                Ok(d) => d,
                Err(e) => fail!("response-undecodable", "{}: response {} does not decode: {e:?}", what(), hex(resp)),
            };
            let rc = d.extended_rcode();
            let formerr_ok = sc.accept.iter().any(|s| matches!(s, Stage::FormErr | Stage::TsigMacFormErr));
            let matches_stage = |s: &Stage| -> bool {
                match s {
                    Stage::FormErr | Stage::TsigMacFormErr => rc == 1 && d.answers.is_empty() && d.authority.is_empty(),
                    Stage::BadVers => rc == 16,
                    Stage::NotAuth(_) => rc == 9,
                    Stage::NotImp => rc == 4,
                    Stage::Query => rc != 1,
                }
            };
            if formerr_ok {
                st.class(&format!("formerr: {}", sc.reason));
                st.nontrivial(&(req, tcp), || json!({"request_hex": hex(req), "reason": sc.reason, "response_rcode": rc}));
            } else {
                st.class("not-formerr");
            }
            if !sc.accept.iter().any(matches_stage) {
                if formerr_ok && sc.accept.len() == 1 {
                    let with_data = rc == 1;
                    fail!(
                        if with_data { "formerr-with-data".to_string() } else { format!("formerr-replaced-by-{rc}") },
                        "{}: {} -> the response must be FORMERR without answer or authority data, but it has RCODE {rc}, {} answer and {} authority records (response {})",
                        what(),
                        sc.reason,
                        d.answers.len(),
                        d.authority.len(),
                        hex(resp)
                    );
                }
                if !formerr_ok && rc == 1 {
                    fail!("spurious-formerr", "{}: the reference finds no format problem (expects {:?}) but the response is FORMERR", what(), sc.accept);
                }
                // other mismatches (e.g. NOTIMP vs NOTAUTH) are outside C08 unless FORMERR is involved
                if formerr_ok {
                    fail!(
                        format!("formerr-or-earlier-error-expected-got-{rc}"),
                        "{}: {} -> expected one of {:?}, got RCODE {rc}",
                        what(),
                        sc.reason,
                        sc.accept
                    );
                }
            }
            Ok(())
        }
        Prop::C09 => {
            if !sc.respond {
                return Ok(());
            }
            let resp = match resp {
                Some(r) => r,
                None => fail!("no-response", "{}: no response", what()),
            };
            let d = match decode_message(resp) {
                Ok(d) => d,
                Err(e) => fail!("response-undecodable", "{}: response {} does not decode: {e:?}", what(), hex(resp)),
            };
            let opts: Vec<_> = d.all_rrs().filter(|r| r.rtype == mr::T_OPT).collect();
            if sc.edns {
                st.class("opt-reached");
                ensure!(
                    opts.len() == 1,
                    "opt-missing",
                    "{}: processing reaches an OPT record in the additional section ({}), but the response has {} OPT records",
                    what(),
                    if sc.reason.is_empty() { "well-formed request" } else { sc.reason },
                    opts.len()
                );
                let o = opts[0];
                ensure!(d.additional.iter().any(|r| std::ptr::eq(r, o)), "opt-wrong-section", "{}: OPT outside the additional section", what());
                ensure!(o.owner.name.labels.is_empty(), "opt-owner", "{}: response OPT owner {}", what(), o.owner.name);
                ensure!(o.class == server_payload, "opt-payload-size", "{}: response OPT class {} but the server's payload size is {server_payload}", what(), o.class);
                ensure!((o.ttl_raw >> 16) & 0xff == 0, "opt-version", "{}: response OPT version {}", what(), (o.ttl_raw >> 16) & 0xff);
            } else {
                st.class("no-opt-reached");
                ensure!(opts.is_empty(), "opt-unexpected", "{}: no OPT record is reached in the request ({}), but the response has {} OPT records", what(), sc.reason, opts.len());
            }
            let rc = d.extended_rcode();
            if sc.is_only(&Stage::BadVers) {
                st.class("badvers");
                ensure!(rc == 16, "badvers-expected", "{}: unsupported EDNS version -> expected extended RCODE 16, got {rc}", what());
                ensure!(no_data(&d), "badvers-with-data", "{}: BADVERS response carries data", what());
            } else if sc.accept == vec![Stage::FormErr, Stage::BadVers] {
                ensure!(rc == 16 || rc == 1, "opt-owner-or-version", "{}: expected FORMERR or BADVERS, got {rc}", what());
                ensure!(no_data(&d), "opt-error-with-data", "{}: error response carries data", what());
            } else if sc.reason == "OPT owner is not the root" {
                st.class("opt-non-root-owner");
                ensure!(rc == 1, "opt-owner-formerr", "{}: OPT with a non-root owner -> expected FORMERR, got {rc}", what());
            } else if !sc.accept.contains(&Stage::BadVers) {
                ensure!(rc != 16 || sc.accept.contains(&Stage::NotAuth(16)), "spurious-badvers", "{}: extended RCODE 16 although the request's EDNS version is 0 / no OPT was reached", what());
            }
            // non-trivial: OPT TTL not 0, or misplaced / duplicated OPT
            let mut interesting = false;
            if let Ok(rd) = vmodel::wire::decode_message_opts(req, true) {
                let all: Vec<_> = rd.all_rrs().filter(|r| r.rtype == mr::T_OPT).collect();
                if all.iter().any(|r| r.ttl_raw != 0) || all.len() >= 2 || rd.answers.iter().chain(rd.authority.iter()).any(|r| r.rtype == mr::T_OPT) {
                    interesting = true;
                }
                if all.iter().any(|r| r.ttl_raw & 0x8000_0000 != 0) {
                    st.class("opt-ttl-top-bit-set");
                }
                if rd.additional.iter().position(|r| r.rtype == mr::T_OPT).map_or(false, |p| p > 0) {
                    st.class("opt-after-another-additional-record");
                }
            }
            if interesting {
                st.nontrivial(&(req, tcp), || json!({"request_hex": hex(req), "edns_reached": sc.edns, "reason": sc.reason, "response_rcode": rc}));
            }
            Ok(())
        }
    }
}

pub fn exchange(server: &AnyServer, req: &[u8], tcp: bool, src: std::net::IpAddr, buf: &mut Vec<u8>) -> Result<Option<Vec<u8>>, Fail> {
    match server.handle(req, tcp, src, buf) {
        Ok(Some(n)) => Ok(Some(buf[..n].to_vec())),
        Ok(None) => Ok(None),
        Err(p) => Err(Fail::new(
            panic_signature(&p),
            format!("handle_message panicked on request {} over {}: {p}", hex(req), if tcp { "TCP" } else { "UDP" }),
        )),
    }
}

pub fn oracle(prop: Prop, case: &Case, st: &mut Stats) -> Verdict {
    let (cat, model) = build(&case.catalog);
    let mut cfg = case.cfg.clone();
    if prop != Prop::C01 {
        // a limiter that never limits (10^6 responses per second and stream) in the cases that
        // have one: every response must be what it is without a limiter
        if let Some(r) = cfg.rrl.as_mut() {
            r.noerror = 1_000_000;
            r.nxdomain = 1_000_000;
            r.error = 1_000_000;
            r.window = 1;
            st.class("server-with-a-rate-limiter-that-never-limits");
        }
    }
    let pool = query_names(&model, &[], 400);
    // One key in three is renamed to a name that occurs in the catalog (selector = octets of
    // its secret), so that the TSIG owner can share labels with names inside the response.
    if !pool.is_empty() {
        for k in cfg.keys.iter_mut() {
            if k.secret.len() % 3 == 0 {
                let cand = pool[(k.secret[0] as usize * 7 + k.secret.len()) % pool.len()].0.folded();
                if cand.is_valid() && !cand.labels.is_empty() {
                    k.name = cand;
                }
            }
        }
        let mut seen = std::collections::BTreeSet::new();
        cfg.keys.retain(|k| seen.insert(k.name.folded()));
    }
    let server = make_server(&cat, &cfg);
    let payload = server.payload();
    let keys = keys_for_scan(&cfg);
    let mut buf = Vec::new();
    for r in &case.requests {
        st.eval();
        let t0 = now_secs();
        let rendered = render(r, &pool, &cfg.keys, t0);
        let src = source_addr(&r.source);
        let resp = exchange(&server, &rendered.bytes, r.tcp, src, &mut buf)?;
        let t1 = now_secs();
        if prop == Prop::C01 {
            if rendered.bytes.len() >= 12 && rendered.bytes[2] & 0x80 == 0 {
                let beyond_question = rendered.bytes[6..12].iter().any(|b| *b != 0) || !r.mutations.is_empty();
                if beyond_question {
                    st.nontrivial(&(&rendered.bytes, r.tcp), || json!({"request_hex": hex(&rendered.bytes), "tcp": r.tcp, "responded": resp.is_some()}));
                }
            }
            st.class(if resp.is_some() { "responded" } else { "no-response" });
            if r.tsig.is_some() {
                st.class("with-tsig");
            }
            continue;
        }
        let sc = scan(&rendered.bytes, &keys, t0, t1);
        judge(prop, &rendered.bytes, r.tcp, resp.as_deref(), &sc, payload, st)?;
    }
    for (raw, tcp) in &case.raw {
        st.eval();
        let resp = exchange(&server, raw, *tcp, crate::srvrun::localhost(), &mut buf)?;
        st.class("raw-bytes");
        if let Some(r) = &resp {
            if r.len() > 16384 {
                st.class("response-larger-than-16-KiB");
                if let Ok(d) = vmodel::wire::decode_message(r) {
                    // a name inside RDATA written in full, starting at or before offset 16383 and ending beyond it
                    if d.answers.iter().any(|rr| rr.rdata_names.iter().any(|(off, nd, _)| nd.pointers.is_empty() && *off <= 16383 && *off + nd.name.wire_len() > 16384)) {
                        st.class("response-with-an-uncompressed-RDATA-name-straddling-offset-16383");
                    }
                }
            }
            if std::env::var("VERIF_DEBUG_LARGE").is_ok() {
                eprintln!("raw response: {} octets", r.len());
                if let Ok(d) = vmodel::wire::decode_message(r) {
                    let v: Vec<_> = d.answers.iter().flat_map(|rr| rr.rdata_names.iter().map(move |(off, nd, _)| (rr.rtype, *off, nd.name.wire_len(), nd.pointers.len()))).collect();
                    eprintln!("  rdata names: {v:?}; answers {}", d.answers.len());
                }
            }
        }
        if prop == Prop::C01 {
            if raw.len() >= 12 && raw[2] & 0x80 == 0 {
                st.nontrivial(&(raw, *tcp), || json!({"raw_request_hex": hex(raw), "tcp": tcp, "responded": resp.is_some()}));
            }
            continue;
        }
        let t = now_secs();
        let sc = scan(raw, &keys, t, t);
        judge(prop, raw, *tcp, resp.as_deref(), &sc, payload, st)?;
    }
    Ok(())
}

fn rrl_spec() -> impl Strategy<Value = RrlSpec> {
    (1u32..5, 1u32..5, 1u32..5, 1u32..4, 0usize..4, 0u8..=32, 0u8..=64, prop_oneof![Just(1usize), Just(7), Just(251)]).prop_map(|(noerror, nxdomain, error, window, slip, v4_prefix, v6_prefix, size)| RrlSpec {
        noerror,
        nxdomain,
        error,
        window,
        slip,
        v4_prefix,
        v6_prefix,
        size,
    })
}

fn raw_bytes() -> impl Strategy<Value = (Vec<u8>, bool)> {
    (
        prop_oneof![
            // header-like prefix with small counts, then junk
            4 => (any::<u16>(), any::<u16>(), prop::collection::vec(0u8..3, 4), prop::collection::vec(prop_oneof![3 => Just(0u8), 2 => 0u8..8, 1 => Just(0xc0u8), 1 => Just(41u8), 1 => Just(250u8), 2 => any::<u8>()], 0..80)).prop_map(|(id, flags, counts, tail)| {
                let mut v = id.to_be_bytes().to_vec();
                v.extend_from_slice(&(flags & 0x7fff).to_be_bytes());
                for c in counts {
                    v.extend_from_slice(&[0, c]);
                }
                v.extend_from_slice(&tail);
                v
            }),
            1 => prop::collection::vec(any::<u8>(), 0..700),
        ],
        any::<bool>(),
    )
}

fn case_strategy(prop: Prop) -> BoxedStrategy<Case> {
    let (valid_only, big, p_mut, p_tsig, n_req, n_raw) = match prop {
        Prop::C01 => (false, true, 45, 0.3, 12, 6),
        Prop::C02 => (true, true, 30, 0.25, 12, 2),
        Prop::C03 => (true, false, 25, 0.05, 12, 4),
        Prop::C08 => (true, false, 60, 0.25, 14, 2),
        Prop::C09 => (true, false, 15, 0.1, 14, 0),
    };
    let cfg = (
        prop_oneof![2 => Just(512u16), 3 => Just(1232u16), 2 => Just(4096u16), 1 => Just(65535u16), 2 => 512u16..=65535],
        key_specs(),
        prop::option::weighted(0.4, rrl_spec()),
    )
        .prop_map(|(payload, keys, rrl)| ServerCfg { payload, keys, rrl });
    (
        catalog_spec(valid_only, big, false),
        cfg,
        prop::collection::vec(req_spec(p_mut, p_tsig), 1..=n_req),
        prop::collection::vec(raw_bytes(), 0..=n_raw),
    )
        .prop_map(|(catalog, cfg, requests, raw)| Case { catalog, cfg, requests, raw })
        .boxed()
}

/// Responses larger than 16 KiB (TCP): a node that owns about 16 KiB of NULL data plus MX / PTR
/// RRsets with multi-label out-of-zone targets, so that names are written around offset
/// 16383, the largest offset a compression pointer can name.  The filler size is generated,
/// which sweeps the alignment.
fn large_case_strategy() -> impl Strategy<Value = Case> {
    use crate::srvgen::{NameSpec, RdSpec, RecSpec, ZoneSpec};
    use vmodel::name::MName;
    // the offset at which the first name after the filler is to start (exact when the filler is
    // answered first: 12 header + 20 question + 268 per full NULL record + 13 + last + 14)
    ((16300u32..=16440).prop_map(|t| (((t - 59) / 268) as u8, ((t - 59) % 268).min(255) as u8)), prop::bool::weighted(0.75), 0u8..6, any::<u16>(), prop::collection::vec(prop::collection::vec(prop_oneof![Just(b"mail1".to_vec()), Just(b"mx-one".to_vec()), Just(b"alpha".to_vec()), Just(b"bravo".to_vec()), Just(b"ns".to_vec())], 2..4), 2..4)).prop_map(
        |((full, last), filler_first, qkind, id, targets)| {
            let rel = |l: &[&[u8]]| NameSpec::Rel(l.iter().map(|x| x.to_vec()).collect(), 0);
            let mut recs = vec![
                RecSpec { owner: rel(&[]), ttl: 300, rd: RdSpec::Soa { minimum: 60, serial: 1 } },
                RecSpec { owner: rel(&[]), ttl: 300, rd: RdSpec::Single(mr::T_NS, rel(&[b"ns"])) },
                RecSpec { owner: rel(&[b"ns"]), ttl: 300, rd: RdSpec::A(1) },
            ];
            // NULL records: an ANY response lists a node's RRsets by ascending type, so the filler (type 10)
            // comes before the PTR (12) and MX (15) records
            let mut filler: Vec<RecSpec> = (0..full).map(|i| RecSpec { owner: rel(&[b"big"]), ttl: 300, rd: RdSpec::Raw(mr::T_NULL, vec![i; 256]) }).collect();
            filler.push(RecSpec { owner: rel(&[b"big"]), ttl: 300, rd: RdSpec::Raw(mr::T_NULL, vec![200; last as usize + 1]) });
            let named: Vec<RecSpec> = targets
                .iter()
                .enumerate()
                .map(|(i, t)| RecSpec {
                    owner: rel(&[b"big"]),
                    ttl: 300,
                    rd: if i % 2 == 0 { RdSpec::Mx(10 + i as u16, NameSpec::Abs(t.clone())) } else { RdSpec::Single(mr::T_PTR, NameSpec::Abs(t.clone())) },
                })
                .collect();
            if filler_first {
                recs.extend(filler);
                recs.extend(named);
            } else {
                recs.extend(named);
                recs.extend(filler);
            }
            let apex = MName { labels: vec![b"large".to_vec(), b"test".to_vec()] };
            let catalog = CatalogSpec { zones: vec![ZoneSpec { apex: apex.clone(), class: 1, kind: 0, recs }], single: false };
            let qname = apex.child(b"big");
            let qtype = match qkind {
                0..=3 => mr::T_ANY,
                4 => mr::T_NULL,
                _ => mr::T_MX,
            };
            let mut b = vmodel::wire::Builder::new(id, 0);
            b.question(&qname, qtype, 1);
            let plain = b.buf.clone();
            b.rr(3, &MName::root(), mr::T_OPT, 65535, 0, &[]);
            let with_opt = b.buf;
            Case {
                catalog,
                cfg: ServerCfg { payload: 65535, keys: Vec::new(), rrl: None },
                requests: Vec::new(),
                raw: vec![(plain, true), (with_opt.clone(), true), (with_opt, false)],
            }
        },
    )
}

fn prop_of(id: &str) -> Prop {
    match id {
        "C01" => Prop::C01,
        "C02" => Prop::C02,
        "C03" => Prop::C03,
        "C08" => Prop::C08,
        _ => Prop::C09,
    }
}

/// C03: every combination of header octets 2-3 on fixed request shapes.
fn flag_sweep(ctx: &Ctx, report: &mut Report) {
    use crate::srvgen::{CatalogSpec, NameSpec, RdSpec, RecSpec, ZoneSpec};
    use vmodel::name::MName;
    let zone = ZoneSpec {
        apex: MName { labels: vec![b"test".to_vec()] },
        class: 1,
        kind: 0,
        recs: vec![
            RecSpec { owner: NameSpec::Rel(vec![], 0), ttl: 60, rd: RdSpec::Soa { minimum: 60, serial: 1 } },
            RecSpec { owner: NameSpec::Rel(vec![b"www".to_vec()], 0), ttl: 60, rd: RdSpec::A(1) },
        ],
    };
    let spec = CatalogSpec { zones: vec![zone], single: false };
    let thorough = ctx.tier == crate::fw::Tier::Thorough;
    let total: u64 = if thorough { 65536 } else { 8192 };
    let seed = ctx.seed;
    let known: Vec<String> = report.known.iter().map(|k| k.signature.clone()).collect();
    crate::fw::run_parallel(ctx, report, "header-flag-sweep", total, move |range, st| {
        let (cat, _) = build(&spec);
        let server = make_server(&cat, &ServerCfg::default());
        let mut buf = Vec::new();
        for i in range {
            // thorough: all 65536 values; quick: a fixed-stride sample offset by the seed
            let flags = if thorough { i as u16 } else { ((i * 8 + seed % 8) & 0xffff) as u16 };
            for shape in 0..3u8 {
                st.eval();
                let mut b = vmodel::wire::Builder::new(0x1234 ^ flags, flags);
                let qname = MName { labels: vec![b"WwW".to_vec(), b"tESt".to_vec()] };
                match shape {
                    0 => b.question(&qname, 1, 1),
                    1 => {} // no question
                    _ => {
                        b.question(&qname, 1, 1);
                        b.rr(3, &MName::root(), 41, 1232, 0, &[]);
                    }
                }
                let req = b.buf;
                let resp = match exchange(&server, &req, shape == 1, crate::srvrun::localhost(), &mut buf) {
                    Ok(r) => r,
                    Err(f) => return Some((json!({"request_hex": hex(&req)}), f)),
                };
                let sc = scan(&req, &[], 0, 0);
                if let Err(f) = judge(Prop::C03, &req, shape == 1, resp.as_deref(), &sc, 1232, st) {
                    if known.iter().any(|k| *k == f.signature) {
                        *st.known_hits.entry(f.signature.clone()).or_insert(0) += 1;
                    } else {
                        return Some((json!({"raw": [req, shape == 1]}), f));
                    }
                }
            }
        }
        None
    });
}

pub fn run(ctx: &Ctx, report: &mut Report) {
    let prop = prop_of(&ctx.id);
    report.assumptions.push("requests are rendered by the harness's own encoder; TSIG signatures by vmodel::tsig".into());
    let (name, cases): (&'static str, u64) = match prop {
        Prop::C01 => {
            report.rule = "generated catalogs (incl. malformed RDATA of every type, missing SOA/NS, large RRsets), TSIG key sets, EDNS payload \
                sizes 512-65535, RRL on/off, both transports; per server up to 12 structured requests (extra records in all sections, \
                OPT, TSIG, 45% with byte-level mutations: truncation, appended octets, count changes, flips, insertions, injected \
                pointers) and up to 6 raw byte strings (header-shaped with junk, or 0-700 random octets); the response buffer has \
                exactly the documented minimum size; oracle = no panic. Non-trivial = request >= 12 octets with QR clear that reaches \
                past the question (has counted records or is mutated); distinct by request octets."
                .into();
            ("survive", ctx.tier.pick(64_000, 800_000))
        }
        Prop::C02 => {
            report.rule = "as C01 but catalogs restricted to RDATA valid for its type and RRL off; every response is decoded by the strict \
                RFC 1035 decoder (counts, exact end, names, RDATA of known types), OPT at most once and only in the additional section, \
                TSIG only as the very last record, at most one question. Non-trivial = response with a record other than OPT/TSIG, or a \
                response to an irregular request."
                .into();
            ("wellformed", ctx.tier.pick(48_000, 600_000))
        }
        Prop::C03 => {
            report.rule = "structured and mutated requests plus raw byte strings, and a sweep over header octets 2-3 (all 65536 values in the \
                thorough tier, 8192 in quick) x three request shapes; response exists iff len >= 12, QR clear, QDCOUNT <= 1; ID, opcode \
                echoed, QR set, RD copied only for QUERY, RA/Z/AD/CD clear; the question is repeated octet-for-octet (decoded equality \
                when the request QNAME contains a pointer). Non-trivial = distinct (response flag octets, request flag octets, opcode, \
                QDCOUNT, question parseable)."
                .into();
            flag_sweep(ctx, report);
            ("echo", ctx.tier.pick(40_000, 500_000))
        }
        Prop::C08 => {
            report.rule = "well-formed requests (with/without OPT and TSIG, extra records in every section) of which 60% are mutated \
                (truncation, appended octets, count changes, flips, inserted/deleted octets, pointers, misplaced/duplicated OPT and TSIG); \
                the Appendix B scanner decides the first problem in message order; FORMERR expected => RCODE FORMERR and no \
                answer/authority data; scanner finds no format problem => not FORMERR. Non-trivial = request for which the scanner \
                predicts FORMERR (by reason, see classes)."
                .into();
            ("formerr", ctx.tier.pick(48_000, 600_000))
        }
        Prop::C09 => {
            report.rule = "requests with 0-2 OPT records in any section and position, random OPT TTL (extended RCODE, version, flags incl. \
                the top bit), root/non-root owners, payload sizes, well- and ill-formed options, random server payload sizes; exactly \
                one OPT (root owner, class = server payload size, version 0, additional section) iff the scanner says processing \
                reaches an OPT; BADVERS for version != 0; FORMERR for a non-root owner. Non-trivial = request whose OPT TTL is not 0 \
                or with a misplaced/duplicated OPT."
                .into();
            ("edns", ctx.tier.pick(48_000, 600_000))
        }
    };
    run_prop(ctx, report, PropSpec { name, cases, max_shrink_iters: 3000 }, move || case_strategy(prop), move |c: &Case, st: &mut Stats| oracle(prop, c, st));
    if matches!(prop, Prop::C01 | Prop::C02) {
        // responses beyond 16 KiB
        let name = if prop == Prop::C01 { "survive-large" } else { "wellformed-large" };
        run_prop(ctx, report, PropSpec { name, cases: ctx.tier.pick(2_000, 40_000), max_shrink_iters: 300 }, large_case_strategy, move |c: &Case, st: &mut Stats| oracle(prop, c, st));
    }
}

pub fn replay(check: &str, case: &serde_json::Value) -> Verdict {
    use crate::fw::replay_case;
    let prop = match check {
        "survive" | "survive-large" => Prop::C01,
        "wellformed" | "wellformed-large" => Prop::C02,
        "echo" | "header-flag-sweep" => Prop::C03,
        "formerr" => Prop::C08,
        _ => Prop::C09,
    };
    if check == "header-flag-sweep" {
        // {"raw": [bytes, tcp]} against the sweep's fixed server
        #[derive(serde::Deserialize)]
        struct Raw {
            raw: (Vec<u8>, bool),
        }
        return replay_case::<Raw, _>(case, |r, st| {
            let c = Case {
                catalog: CatalogSpec { zones: vec![], single: false },
                cfg: ServerCfg::default(),
                requests: vec![],
                raw: vec![r.raw.clone()],
            };
            oracle(Prop::C03, &c, st)
        });
    }
    replay_case::<Case, _>(case, move |c, st| oracle(prop, c, st))
}
