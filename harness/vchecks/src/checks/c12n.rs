//! C12, sub-check `writer-count-limits`: the 16-bit section counts at their
//! limit. One `add_*_rrset` call may carry any number of records; the call
//! succeeds iff the section's count stays ≤ 65,535, and a call that fails
//! leaves the message as it was. RRsets of 65,532 … 65,540 records are added
//! to a section that already holds 0 … 3 records, in buffers of 2 MiB; the
//! finished message is decoded independently.
//!
//! Building such a set costs n²/2 RDATA comparisons (the set de-duplicates), so
//! the sets are built once per process, by growing one set and keeping copies at
//! the sizes of interest.

use std::sync::OnceLock;

use super::*;

#[derive(Clone, Debug, Serialize, Deserialize, PartialEq, Eq, Hash)]
pub struct CountCase {
    /// 0 answer, 1 authority, 2 additional
    pub section: u8,
    /// records added one by one before the big RRset
    pub before: u8,
    /// index into SIZES
    pub size: u8,
    /// another single record afterwards
    pub one_more: bool,
}

const SIZES: [usize; 7] = [65_532, 65_533, 65_534, 65_535, 65_536, 65_537, 65_540];

fn sets() -> &'static Vec<RdataSetOwned> {
    static SETS: OnceLock<Vec<RdataSetOwned>> = OnceLock::new();
    SETS.get_or_init(|| {
        let class = Class::from(1);
        let rtype = Type::from(99);
        let rd = |i: usize| [(i >> 16) as u8, (i >> 8) as u8, i as u8];
        let first = rd(0);
        let mut set = RdataSetOwned::from(<&Rdata>::try_from(&first[..]).unwrap());
        let mut out = Vec::new();
        for i in 1..=*SIZES.last().unwrap() {
            if SIZES.contains(&i) {
                out.push(set.clone());
            }
            if i < *SIZES.last().unwrap() {
                let o = rd(i);
                set.insert(class, rtype, <&Rdata>::try_from(&o[..]).unwrap());
            }
        }
        out
    })
}

pub fn oracle_counts(c: &CountCase, st: &mut Stats) -> Verdict {
    st.eval();
    let n = SIZES[c.size as usize % SIZES.len()];
    let set = &sets()[c.size as usize % SIZES.len()];
    let before = (c.before % 4) as usize;
    let owner = Name::try_from_uncompressed_all(b"\x01o\x04test\x00").unwrap();
    let (class, rtype, ttl) = (Class::from(1), Type::from(99), Ttl::from(60));
    let mut buf = vec![0u8; 2 << 20];
    let size = buf.len();
    let res = catch(|| {
        let mut w = Writer::new(&mut buf, size).unwrap();
        w.set_id(0x1212);
        let add_one = |w: &mut Writer, k: u8| {
            let o = [0xee, 0xee, k];
            let rd = <&Rdata>::try_from(&o[..]).unwrap();
            let h = HintedName::new(Hint::None, &owner);
            match c.section % 3 {
                0 => w.add_answer_rr(h, rtype, class, ttl, rd, None),
                1 => w.add_authority_rr(h, rtype, class, ttl, rd, None),
                _ => w.add_additional_rr(h, rtype, class, ttl, rd, None),
            }
        };
        for k in 0..before {
            add_one(&mut w, k as u8).map_err(|e| format!("single record #{k}: {e:?}"))?;
        }
        let h = HintedName::new(Hint::None, &owner);
        let big = match c.section % 3 {
            0 => w.add_answer_rrset(h, rtype, class, ttl, set, None),
            1 => w.add_authority_rrset(h, rtype, class, ttl, set, None),
            _ => w.add_additional_rrset(h, rtype, class, ttl, set, None),
        };
        let big = big.map_err(|e| format!("{e:?}"));
        let more = if c.one_more { Some(add_one(&mut w, 0xaa).map_err(|e| format!("{e:?}"))) } else { None };
        Ok::<_, String>((big, more, w.finish()))
    });
    let (big, more, len) = match res {
        Err(p) => fail!(panic_signature(&p), "adding an RRset of {n} records to section {} after {before} records panicked: {p}", c.section % 3),
        Ok(Err(e)) => fail!("count-setup", "{e}"),
        Ok(Ok(v)) => v,
    };
    let what = format!("add_*_rrset of {n} records to section {} holding {before} records", c.section % 3);
    let fits = before + n <= 65_535;
    st.class(if fits { "rrset-that-brings-the-count-to-at-most-65535" } else { "rrset-that-would-overflow-the-count" });
    ensure!(
        big.is_ok() == fits,
        if fits { "count-add-rejected" } else { "count-overflow-accepted" },
        "{what} returned {big:?}; the section count would be {} (limit 65535)",
        before + n
    );
    if !fits {
        ensure!(big == Err("CountOverflow".to_string()), "count-overflow-error-kind", "{what} failed with {big:?}, expected CountOverflow");
    }
    let mut expect = before + if fits { n } else { 0 };
    if let Some(m) = &more {
        let room = expect < 65_535;
        ensure!(m.is_ok() == room, "count-single-after", "{what}, then one more record: {m:?} although the count is {expect}");
        if room {
            expect += 1;
        }
    }
    let msg = &buf[..len];
    let d = match decode_message_opts(msg, true) {
        Ok(d) => d,
        Err(e) => fail!("finished-message-undecodable", "{what}: the finished message of {len} octets does not decode: {e:?} (header {})", hex(&msg[..12.min(msg.len())])),
    };
    let got = match c.section % 3 {
        0 => d.answers.len(),
        1 => d.authority.len(),
        _ => d.additional.len(),
    };
    ensure!(got == expect, "count-getters", "{what}: the finished message has {got} records in that section, expected {expect}; header {}", hex(&msg[..12]));
    ensure!(d.answers.len() + d.authority.len() + d.additional.len() == expect, "count-getters", "{what}: records in other sections; header {}", hex(&msg[..12]));
    st.nontrivial(c, || json!({"section": c.section % 3, "before": before, "rrset": n, "accepted": fits, "octets": len}));
    Ok(())
}

pub fn count_case() -> impl Strategy<Value = CountCase> {
    (0u8..3, 0u8..4, 0u8..SIZES.len() as u8, any::<bool>()).prop_map(|(section, before, size, one_more)| CountCase { section, before, size, one_more })
}
