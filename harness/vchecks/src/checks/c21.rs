//! C21 — zone validation reports exactly the defined semantic issues
//! (oracle: vmodel::zone::validate, DESIGN.md Appendix D).

use std::collections::BTreeSet;

use proptest::prelude::*;
use quandary::class::Class;
use quandary::db::zone::{GluePolicy, ValidationIssue};
use quandary::db::{HashMapTreeZone, Zone};
use quandary::name::Name;
use quandary::rr::{Rdata, Ttl, Type};
use serde::{Deserialize, Serialize};
use serde_json::json;
use vmodel::name::MName;
use vmodel::rdata as mr;
use vmodel::zone::{validate, Issue, MZone};

use crate::fw::{catch, panic_signature, run_prop, Ctx, PropSpec, Report, Stats, Verdict};
use crate::gen::flip_case;
use crate::{ensure, fail};

fn qn(m: &MName) -> Box<Name> {
    Name::try_from_uncompressed_all(&m.wire()).unwrap()
}

fn mn(n: &Name) -> MName {
    MName::from_wire(n.wire_repr()).unwrap().0
}

/// A name relative to the apex, or outside the zone.
#[derive(Clone, Debug, Serialize, Deserialize, PartialEq, Eq, Hash)]
pub enum Target {
    In(Vec<Vec<u8>>, u64),
    Outside(Vec<Vec<u8>>),
}

#[derive(Clone, Debug, Serialize, Deserialize, PartialEq, Eq, Hash)]
pub enum Rec {
    Soa(u8),
    Ns(Target),
    A(u8),
    Aaaa(u8),
    Cname(Target),
    Mx(u8, Target),
    Txt(u8),
    /// a record of another type (46 RRSIG, 47 NSEC, 43 DS, 99, 65280) with opaque RDATA
    Other(u8),
    /// malformed NS / MX RDATA
    BadNs(Vec<u8>),
    BadMx(Vec<u8>),
}

#[derive(Clone, Debug, Serialize, Deserialize, PartialEq, Eq, Hash)]
pub struct Case {
    pub apex: MName,
    pub class: u16,
    pub wide: bool,
    /// (owner relative to the apex, record)
    pub recs: Vec<(Vec<Vec<u8>>, Rec)>,
}

fn abs(apex: &MName, rel: &[Vec<u8>]) -> MName {
    let mut labels = rel.to_vec();
    labels.extend(apex.labels.iter().cloned());
    MName { labels }
}

fn target(apex: &MName, t: &Target) -> MName {
    match t {
        Target::In(rel, mask) => flip_case(&abs(apex, rel), *mask),
        Target::Outside(labels) if labels.is_empty() => MName::root(),
        Target::Outside(labels) => {
            let n = MName { labels: labels.clone() };
            if n.at_or_below(apex) {
                MName { labels: vec![b"elsewhere".to_vec()] }
            } else {
                n
            }
        }
    }
}

fn render(apex: &MName, r: &Rec) -> (u16, Vec<u8>) {
    match r {
        Rec::Soa(v) => {
            let mut rd = abs(apex, &[b"ns".to_vec()]).wire();
            rd.extend_from_slice(&abs(apex, &[b"hostmaster".to_vec()]).wire());
            rd.extend_from_slice(&[0, 0, 0, *v % 2]);
            rd.extend_from_slice(&[0u8; 16]);
            (mr::T_SOA, rd)
        }
        Rec::Ns(t) => (mr::T_NS, target(apex, t).wire()),
        Rec::A(v) => (mr::T_A, vec![192, 0, 2, *v % 3]),
        Rec::Aaaa(v) => {
            let mut rd = vec![0u8; 16];
            rd[15] = *v % 3;
            (mr::T_AAAA, rd)
        }
        Rec::Cname(t) => (mr::T_CNAME, target(apex, t).wire()),
        Rec::Mx(p, t) => {
            let mut rd = vec![0, *p % 2];
            rd.extend_from_slice(&target(apex, t).wire());
            (mr::T_MX, rd)
        }
        Rec::Txt(v) => (mr::T_TXT, vec![1, b'a' + *v % 3]),
        Rec::Other(v) => ([46u16, 47, 43, 99, 65280][*v as usize % 5], vec![1, 2, *v / 5 % 2]),
        Rec::BadNs(b) => (mr::T_NS, b.clone()),
        Rec::BadMx(b) => (mr::T_MX, b.clone()),
    }
}

fn convert(i: &ValidationIssue) -> Issue {
    match i {
        ValidationIssue::MissingApexSoa => Issue::MissingApexSoa,
        ValidationIssue::TooManyApexSoas => Issue::TooManyApexSoas,
        ValidationIssue::MissingApexNs => Issue::MissingApexNs,
        ValidationIssue::MissingNsAddress(n) => Issue::MissingNsAddress(mn(n).folded()),
        ValidationIssue::MissingMxAddress(n) => Issue::MissingMxAddress(mn(n).folded()),
        ValidationIssue::MissingGlue(n) => Issue::MissingGlue(mn(n).folded()),
        ValidationIssue::DuplicateCname(n) => Issue::DuplicateCname(mn(n).folded()),
        ValidationIssue::OtherRecordsAtCname(n) => Issue::OtherRecordsAtCname(mn(n).folded()),
        ValidationIssue::NsAtWildcard(n) => Issue::NsAtWildcard(mn(n).folded()),
    }
}

pub fn oracle(case: &Case, st: &mut Stats) -> Verdict {
    st.eval();
    let policy = if case.wide { GluePolicy::Wide } else { GluePolicy::Narrow };
    let mut zone = HashMapTreeZone::new(qn(&case.apex), Class::from(case.class), policy);
    let mut model = MZone::new(case.apex.clone(), case.class);
    for (rel, rec) in &case.recs {
        let owner = abs(&case.apex, rel);
        if !owner.is_valid() {
            continue;
        }
        let (rtype, rd) = render(&case.apex, rec);
        if model.add(&owner, rtype, case.class, 300, &rd).is_ok() {
            let r: &Rdata = rd.as_slice().try_into().unwrap();
            if let Err(e) = zone.add(&qn(&owner), Type::from(rtype), Class::from(case.class), Ttl::from(300), r) {
                fail!("add-rejects-valid", "add({owner}, type {rtype}) failed: {e:?}");
            }
        }
    }
    let want = validate(&model, case.wide);
    let got = match catch(|| zone.validate().map(|v| v.iter().map(|i| (convert(i), i.is_error())).collect::<Vec<_>>())) {
        Ok(r) => r,
        Err(p) => fail!(panic_signature(&p), "validate panicked: {p}"),
    };
    match (got, want) {
        (Err(_), Err(())) => {
            st.class("malformed-rdata-error");
        }
        (Ok(g), Err(())) => fail!("validate-accepts-malformed-rdata", "validate returned {} issues although an inspected NS/MX RDATA is malformed", g.len()),
        (Err(e), Ok(w)) => fail!("validate-errors-on-wellformed", "validate failed with {e:?}; reference finds {w:?}"),
        (Ok(g), Ok(w)) => {
            let gset: BTreeSet<Issue> = g.iter().map(|(i, _)| i.clone()).collect();
            ensure!(gset.len() == g.len(), "validate-duplicate-issues", "validate reports an issue twice: {g:?}");
            for (i, is_err) in &g {
                ensure!(*is_err == i.is_error(), "issue-severity", "is_error() of {i:?} is {is_err}, expected {}", i.is_error());
            }
            if gset != w {
                let missing: Vec<&Issue> = w.difference(&gset).collect();
                let extra: Vec<&Issue> = gset.difference(&w).collect();
                let kind = |i: &Issue| match i {
                    Issue::MissingApexSoa | Issue::TooManyApexSoas => "soa",
                    Issue::MissingApexNs => "apex-ns",
                    Issue::MissingNsAddress(_) => "ns-address",
                    Issue::MissingMxAddress(_) => "mx-address",
                    Issue::MissingGlue(_) => "glue",
                    Issue::DuplicateCname(_) | Issue::OtherRecordsAtCname(_) => "cname",
                    Issue::NsAtWildcard(_) => "ns-at-wildcard",
                };
                let k = missing.first().or(extra.first()).map(|i| kind(i)).unwrap_or("?");
                fail!(
                    format!("validate-mismatch-{k}"),
                    "zone {} (class {}, {} glue): validate misses {missing:?} and reports unexpected {extra:?}; records: {:?}",
                    case.apex,
                    case.class,
                    if case.wide { "wide" } else { "narrow" },
                    case.recs
                );
            }
            // classification
            let kinds: std::collections::HashSet<std::mem::Discriminant<Issue>> = w.iter().map(std::mem::discriminant).collect();
            for i in &w {
                st.class(match i {
                    Issue::MissingApexSoa => "MissingApexSoa",
                    Issue::TooManyApexSoas => "TooManyApexSoas",
                    Issue::MissingApexNs => "MissingApexNs",
                    Issue::MissingNsAddress(_) => "MissingNsAddress",
                    Issue::MissingMxAddress(_) => "MissingMxAddress",
                    Issue::MissingGlue(_) => "MissingGlue",
                    Issue::DuplicateCname(_) => "DuplicateCname",
                    Issue::OtherRecordsAtCname(_) => "OtherRecordsAtCname",
                    Issue::NsAtWildcard(_) => "NsAtWildcard",
                });
            }
            if w.is_empty() {
                st.class("clean-zone");
            }
            // delegation whose server lies below a different cut
            let mut cross = false;
            for (owner, node) in &model.nodes {
                if owner.eq_fold(&case.apex) {
                    continue;
                }
                if let Some(ns) = node.rrsets.get(&mr::T_NS) {
                    for rd in &ns.rdatas {
                        if let Some((t, _)) = MName::from_wire(rd) {
                            if let vmodel::zone::Base::Referral(cut, _) = model.lookup_base(&t, true, false) {
                                if !cut.eq_fold(owner) {
                                    cross = true;
                                }
                            }
                        }
                    }
                }
            }
            if cross {
                st.class("server-below-a-different-cut");
            }
            if cross || kinds.len() >= 3 {
                st.nontrivial(case, || json!({"apex": case.apex.to_text(), "class": case.class, "wide": case.wide, "records": case.recs.len(), "issues": format!("{w:?}")}));
            }
        }
    }
    Ok(())
}

fn label() -> impl Strategy<Value = Vec<u8>> {
    prop_oneof![
        3 => Just(b"ns".to_vec()),
        2 => Just(b"mx".to_vec()),
        3 => Just(b"sub".to_vec()),
        3 => Just(b"del".to_vec()),
        2 => Just(b"a".to_vec()),
        2 => Just(b"*".to_vec()),
        1 => Just(b"Sub".to_vec()),
    ]
}

fn rel() -> impl Strategy<Value = Vec<Vec<u8>>> {
    prop::collection::vec(label(), 0..4)
}

fn tgt() -> impl Strategy<Value = Target> {
    prop_oneof![
        8 => (rel(), prop_oneof![3 => Just(0u64), 1 => any::<u64>()]).prop_map(|(r, m)| Target::In(r, m)),
        1 => prop::collection::vec(label(), 1..3).prop_map(Target::Outside),
        // the root name as a target ("null MX", RFC 7505; NS/CNAME pointing at the root)
        1 => Just(Target::Outside(Vec::new())),
    ]
}

fn case_strategy() -> impl Strategy<Value = Case> {
    let rec = prop_oneof![
        4 => tgt().prop_map(Rec::Ns),
        5 => any::<u8>().prop_map(Rec::A),
        2 => any::<u8>().prop_map(Rec::Aaaa),
        2 => tgt().prop_map(Rec::Cname),
        2 => (prop_oneof![1 => Just(0u8), 3 => any::<u8>()], tgt()).prop_map(|(p, t)| Rec::Mx(p, t)),
        1 => any::<u8>().prop_map(Rec::Txt),
        2 => any::<u8>().prop_map(Rec::Other),
    ];
    let apex_rec = prop_oneof![3 => any::<u8>().prop_map(Rec::Soa), 3 => tgt().prop_map(Rec::Ns), 1 => any::<u8>().prop_map(Rec::A)];
    (
        // (apexes that are themselves wildcard names, and a class that is neither IN, CH nor HS)
        prop_oneof![
            4 => Just(MName { labels: vec![b"test".to_vec()] }),
            4 => Just(MName { labels: vec![b"z".to_vec(), b"test".to_vec()] }),
            3 => Just(MName::root()),
            1 => Just(MName { labels: vec![b"*".to_vec(), b"test".to_vec()] }),
            1 => Just(MName { labels: vec![b"*".to_vec()] }),
            1 => Just(MName { labels: vec![b"a".to_vec(), b"*".to_vec(), b"test".to_vec()] }),
        ],
        prop_oneof![10 => Just(mr::C_IN), 4 => Just(mr::C_CH), 2 => Just(mr::C_HS), 1 => Just(300u16)],
        any::<bool>(),
        prop::collection::vec(apex_rec, 0..4),
        prop::collection::vec((rel(), rec), 0..25),
        prop::option::weighted(0.03, (rel(), prop_oneof![prop::collection::vec(any::<u8>(), 0..5).prop_map(Rec::BadNs), prop::collection::vec(any::<u8>(), 0..5).prop_map(Rec::BadMx)])),
    )
        .prop_map(|(apex, class, wide, apex_recs, mut recs, bad)| {
            let mut all: Vec<(Vec<Vec<u8>>, Rec)> = apex_recs.into_iter().map(|r| (Vec::new(), r)).collect();
            all.append(&mut recs);
            if let Some(b) = bad {
                all.push(b);
            }
            Case { apex, class, wide, recs: all }
        })
}

pub fn run(ctx: &Ctx, report: &mut Report) {
    report.rule = "generated zones (apex root/one/two labels; classes IN, CH, HS; both glue policies; 0-28 records: SOA variants, NS at the \
        apex / delegations at several depths / wildcard owners with targets in-zone, below the same or another cut, covered by \
        wildcards, or outside; A/AAAA anywhere incl. below cuts; CNAMEs alone, duplicated (also as case variants) or with other \
        data; MX; rare malformed NS/MX RDATA) validated and compared as a set of issues with the reference checker; is_error() \
        checked per issue. Non-trivial = zone with a delegation whose server lies below a different cut, or >= 3 distinct issue kinds."
        .into();
    report.assumptions.push("vmodel::zone::validate encodes the documented checks 2, 3, 5-10 (DESIGN.md Appendix D)".into());
    run_prop(ctx, report, PropSpec { name: "validate", cases: ctx.tier.pick(1_000_000, 8_000_000), max_shrink_iters: 8192 }, case_strategy, oracle);
}

pub fn replay(_check: &str, case: &serde_json::Value) -> Verdict {
    crate::fw::replay_case::<Case, _>(case, oracle)
}
