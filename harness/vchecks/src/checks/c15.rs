//! C15 — the message reader is total, atomic and faithful
//! (oracle: cursor model over vmodel::wire).

use proptest::prelude::*;
use quandary::message::Reader;
use serde::{Deserialize, Serialize};
use serde_json::json;
use vmodel::wire::{decode_header, decode_name, decode_question, decode_rr, delimit_name, delimit_rr};

use crate::fw::{catch, panic_signature, run_prop, Ctx, PropSpec, Report, Stats, Verdict};
use crate::msggen::{msg_spec, MsgSpec};
use crate::{ensure, fail};

fn hex(b: &[u8]) -> String {
    b.iter().map(|x| format!("{x:02x}")).collect()
}

#[derive(Clone, Debug, Serialize, Deserialize, PartialEq, Eq, Hash)]
pub enum PeekEnd {
    Drop,
    Skip,
    Parse,
}

#[derive(Clone, Debug, Serialize, Deserialize, PartialEq, Eq, Hash)]
pub enum Op {
    Header,
    ReadQuestion,
    SkipQuestion,
    ReadRr,
    SkipRr,
    /// peek, query the owner `owner_calls` times, then end
    Peek { owner_calls: u8, end: PeekEnd },
    Mark,
    Rewind,
    AtEom,
}

#[derive(Clone, Debug, Serialize, Deserialize, PartialEq, Eq, Hash)]
pub struct Case {
    pub msg: MsgSpec,
    pub ops: Vec<Op>,
    /// the message octets given directly (hand-laid-out messages) instead of rendering `msg`
    #[serde(default)]
    pub raw: Option<Vec<u8>>,
}

fn clamp_ttl(raw: u32) -> u32 {
    if raw > i32::MAX as u32 {
        0
    } else {
        raw
    }
}

pub fn oracle_bytes(buf: &[u8], ops: &[Op], st: &mut Stats) -> Verdict {
    st.eval();
    let mut reader = match catch(|| Reader::try_from(buf)) {
        Err(p) => fail!(panic_signature(&p), "Reader::try_from panicked: {p}"),
        Ok(Ok(r)) => {
            ensure!(buf.len() >= 12, "reader-accepts-short", "Reader accepted {} octets", buf.len());
            r
        }
        Ok(Err(_)) => {
            ensure!(buf.len() < 12, "reader-rejects-long", "Reader rejected {} octets", buf.len());
            return Ok(());
        }
    };
    let header = decode_header(buf).unwrap();
    let mut pos = 12usize;
    let mut mark: Option<usize> = None;
    let mut failed_then_ok = false;
    let mut seen_fail = false;
    let mut compressed_rdata = false;
    let mut rrs_ok = 0u64;

    macro_rules! g {
        ($what:expr, $body:expr) => {
            match catch(|| $body) {
                Ok(v) => v,
                Err(p) => fail!(
                    panic_signature(&p),
                    "{} panicked at cursor {pos} of message {}: {p}",
                    $what,
                    hex(buf)
                ),
            }
        };
    }

    for (i, op) in ops.iter().enumerate() {
        match op {
            Op::Header => {
                ensure!(g!("id", reader.id()) == header.id, "header-id", "id");
                ensure!(g!("qr", reader.qr()) == header.qr, "header-qr", "qr");
                ensure!(u8::from(g!("opcode", reader.opcode())) == header.opcode, "header-opcode", "opcode");
                ensure!(g!("aa", reader.aa()) == header.aa, "header-aa", "aa");
                ensure!(g!("tc", reader.tc()) == header.tc, "header-tc", "tc");
                ensure!(g!("rd", reader.rd()) == header.rd, "header-rd", "rd");
                ensure!(g!("ra", reader.ra()) == header.ra, "header-ra", "ra");
                ensure!(u8::from(g!("rcode", reader.rcode())) == header.rcode, "header-rcode", "rcode");
                ensure!(g!("qdcount", reader.qdcount()) == header.qdcount, "header-qdcount", "qdcount");
                ensure!(g!("ancount", reader.ancount()) == header.ancount, "header-ancount", "ancount");
                ensure!(g!("nscount", reader.nscount()) == header.nscount, "header-nscount", "nscount");
                ensure!(g!("arcount", reader.arcount()) == header.arcount, "header-arcount", "arcount");
                let _ = g!("debug", format!("{reader:?}"));
            }
            Op::ReadQuestion => {
                let model = decode_question(buf, pos);
                let got = g!("read_question", reader.read_question());
                match (got, model) {
                    (Ok(q), Ok(m)) => {
                        ensure!(
                            q.qname.wire_repr() == &m.qname.name.wire()[..]
                                && u16::from(q.qtype) == m.qtype
                                && u16::from(q.qclass) == m.qclass,
                            "read-question-wrong",
                            "op #{i} read_question at {pos} of {}: got {:?} {:?} {:?}, reference {} {} {}",
                            hex(buf),
                            q.qname,
                            q.qtype,
                            q.qclass,
                            m.qname.name,
                            m.qtype,
                            m.qclass
                        );
                        pos = m.end;
                        if seen_fail {
                            failed_then_ok = true;
                        }
                    }
                    (Err(_), Err(_)) => seen_fail = true,
                    (Ok(q), Err(e)) => fail!(
                        "read-question-accepts-invalid",
                        "op #{i} read_question at {pos} of {} returned {:?} but the reference fails: {e:?}",
                        hex(buf),
                        q.qname
                    ),
                    (Err(e), Ok(m)) => fail!(
                        "read-question-rejects-valid",
                        "op #{i} read_question at {pos} of {} failed ({e:?}); reference reads {}",
                        hex(buf),
                        m.qname.name
                    ),
                }
            }
            Op::SkipQuestion => {
                let model = delimit_name(buf, pos).ok().map(|l| pos + l + 4).filter(|e| *e <= buf.len());
                let got = g!("skip_question", reader.skip_question());
                match (got, model) {
                    (Ok(()), Some(end)) => {
                        pos = end;
                        if seen_fail {
                            failed_then_ok = true;
                        }
                    }
                    (Err(_), None) => seen_fail = true,
                    (Ok(()), None) => fail!("skip-question-accepts-invalid", "op #{i} skip_question at {pos} of {}", hex(buf)),
                    (Err(e), Some(_)) => fail!("skip-question-rejects-valid", "op #{i} skip_question at {pos} of {}: {e:?}", hex(buf)),
                }
            }
            Op::ReadRr => {
                let model = decode_rr(buf, pos);
                let got = g!("read_rr", reader.read_rr());
                match (got, model) {
                    (Ok(rr), Ok(m)) => {
                        let ttl = u32::from(rr.ttl);
                        let ttl_ok = ttl == clamp_ttl(m.ttl_raw) || (m.rtype == 41 && ttl == m.ttl_raw);
                        ensure!(
                            rr.owner.wire_repr() == &m.owner.name.wire()[..]
                                && u16::from(rr.rr_type) == m.rtype
                                && u16::from(rr.class) == m.class
                                && ttl_ok
                                && rr.rdata.octets() == &m.rdata[..],
                            "read-rr-wrong",
                            "op #{i} read_rr at {pos} of {}: got owner {:?} type {:?} class {:?} ttl {} rdata {}; reference owner {} type {} class {} ttl(raw) {} rdata {}",
                            hex(buf),
                            rr.owner,
                            rr.rr_type,
                            rr.class,
                            ttl,
                            hex(rr.rdata.octets()),
                            m.owner.name,
                            m.rtype,
                            m.class,
                            m.ttl_raw,
                            hex(&m.rdata)
                        );
                        if m.rdata_names.iter().any(|(_, d, _)| !d.pointers.is_empty()) {
                            compressed_rdata = true;
                        }
                        pos = m.end;
                        rrs_ok += 1;
                        if seen_fail {
                            failed_then_ok = true;
                        }
                    }
                    (Err(_), Err(_)) => seen_fail = true,
                    (Ok(rr), Err(e)) => fail!(
                        "read-rr-accepts-invalid",
                        "op #{i} read_rr at {pos} of {} returned type {:?} rdata {} but the reference fails: {e:?}",
                        hex(buf),
                        rr.rr_type,
                        hex(rr.rdata.octets())
                    ),
                    (Err(e), Ok(m)) => fail!(
                        "read-rr-rejects-valid",
                        "op #{i} read_rr at {pos} of {} failed ({e:?}); reference reads type {} rdata {}",
                        hex(buf),
                        m.rtype,
                        hex(&m.rdata)
                    ),
                }
            }
            Op::SkipRr => {
                let model = delimit_rr(buf, pos);
                let got = g!("skip_rr", reader.skip_rr());
                match (got, model) {
                    (Ok(()), Ok(m)) => {
                        pos = m.0;
                        if seen_fail {
                            failed_then_ok = true;
                        }
                    }
                    (Err(_), Err(_)) => seen_fail = true,
                    (Ok(()), Err(e)) => fail!("skip-rr-accepts-invalid", "op #{i} skip_rr at {pos} of {}: reference {e:?}", hex(buf)),
                    (Err(e), Ok(_)) => fail!("skip-rr-rejects-valid", "op #{i} skip_rr at {pos} of {}: {e:?}", hex(buf)),
                }
            }
            Op::Peek { owner_calls, end } => {
                let model = delimit_rr(buf, pos);
                let before = pos;
                // The PeekRr borrows the reader mutably; do everything inside one guarded closure.
                let res = g!("peek_rr", {
                    match reader.peek_rr() {
                        Err(e) => Err(format!("{e:?}")),
                        Ok(mut peek) => {
                            let fields = (
                                u16::from(peek.rr_type()),
                                u16::from(peek.class()),
                                u32::from(peek.ttl()),
                                peek.rdlength(),
                                peek.message_to_rr().len(),
                            );
                            let mut owners = Vec::new();
                            for _ in 0..*owner_calls {
                                owners.push(peek.owner().map(|n| n.wire_repr().to_vec()).map_err(|e| format!("{e:?}")));
                            }
                            let parsed = match end {
                                PeekEnd::Drop => {
                                    drop(peek);
                                    None
                                }
                                PeekEnd::Skip => {
                                    peek.skip();
                                    None
                                }
                                PeekEnd::Parse => Some(
                                    peek.parse()
                                        .map(|rr| {
                                            (
                                                rr.owner.wire_repr().to_vec(),
                                                u16::from(rr.rr_type),
                                                u16::from(rr.class),
                                                u32::from(rr.ttl),
                                                rr.rdata.octets().to_vec(),
                                            )
                                        })
                                        .map_err(|e| format!("{e:?}")),
                                ),
                            };
                            Ok((fields, owners, parsed))
                        }
                    }
                });
                match (res, model) {
                    (Err(_), Err(_)) => seen_fail = true,
                    (Ok(_), Err(e)) => fail!("peek-accepts-invalid", "op #{i} peek_rr at {pos} of {}: reference cannot delimit: {e:?}", hex(buf)),
                    (Err(e), Ok(_)) => fail!("peek-rejects-valid", "op #{i} peek_rr at {pos} of {}: {e}", hex(buf)),
                    (Ok((fields, owners, parsed)), Ok((m_end, m_type, m_class, m_ttl, _m_rdstart, m_rdlen))) => {
                        let ttl_ok = fields.2 == clamp_ttl(m_ttl) || (m_type == 41 && fields.2 == m_ttl);
                        ensure!(
                            fields.0 == m_type && fields.1 == m_class && ttl_ok && fields.3 == m_rdlen && fields.4 == before,
                            "peek-fields-wrong",
                            "op #{i} peek_rr at {pos} of {}: fields {fields:?}, reference type {m_type} class {m_class} ttl {m_ttl} rdlength {m_rdlen}",
                            hex(buf)
                        );
                        let m_owner = decode_name(buf, before);
                        for o in &owners {
                            match (o, &m_owner) {
                                (Ok(w), Ok(m)) => ensure!(*w == m.name.wire(), "peek-owner-wrong", "op #{i} owner {} vs {}", hex(w), m.name),
                                (Err(_), Err(_)) => {}
                                _ => fail!("peek-owner-acceptance", "op #{i} peek owner at {pos} of {}: got ok={}, reference ok={}", hex(buf), o.is_ok(), m_owner.is_ok()),
                            }
                        }
                        match end {
                            PeekEnd::Drop => {}
                            PeekEnd::Skip => pos = m_end,
                            PeekEnd::Parse => {
                                let full = decode_rr(buf, before);
                                match (parsed.unwrap(), full) {
                                    (Ok(p), Ok(m)) => {
                                        let ttl_ok = p.3 == clamp_ttl(m.ttl_raw) || (m.rtype == 41 && p.3 == m.ttl_raw);
                                        ensure!(
                                            p.0 == m.owner.name.wire() && p.1 == m.rtype && p.2 == m.class && ttl_ok && p.4 == m.rdata,
                                            "peek-parse-wrong",
                                            "op #{i} peek.parse at {pos} of {}: rdata {} vs reference {}",
                                            hex(buf),
                                            hex(&p.4),
                                            hex(&m.rdata)
                                        );
                                        if m.rdata_names.iter().any(|(_, d, _)| !d.pointers.is_empty()) {
                                            compressed_rdata = true;
                                        }
                                        pos = m.end;
                                    }
                                    (Err(_), Err(_)) => seen_fail = true,
                                    (Ok(p), Err(e)) => fail!("peek-parse-accepts-invalid", "op #{i} peek.parse at {pos} of {} -> rdata {}; reference {e:?}", hex(buf), hex(&p.4)),
                                    (Err(e), Ok(_)) => fail!("peek-parse-rejects-valid", "op #{i} peek.parse at {pos} of {}: {e}", hex(buf)),
                                }
                            }
                        }
                        if seen_fail && pos != before {
                            failed_then_ok = true;
                        }
                    }
                }
            }
            Op::Mark => {
                g!("mark", reader.mark());
                mark = Some(pos);
            }
            Op::Rewind => {
                // only legal when a mark is set (documented to panic otherwise)
                if let Some(m) = mark.take() {
                    g!("rewind", reader.rewind());
                    pos = m;
                }
            }
            Op::AtEom => {
                let at = g!("at_eom", reader.at_eom());
                ensure!(at == (pos >= buf.len()), "at-eom", "op #{i}: at_eom = {at} with cursor {pos} of {}", buf.len());
            }
        }
        let cur = g!("message_to_cursor", reader.message_to_cursor());
        ensure!(
            cur.len() == pos && cur == &buf[..pos],
            "cursor-mismatch",
            "after op #{i} {op:?} the read position is {} but the reference position is {pos} (message {})",
            cur.len(),
            hex(buf)
        );
    }
    st.class_n("records-read-ok", rrs_ok);
    if !seen_fail && rrs_ok >= 2 {
        st.class("clean-sequence-with>=2-records");
    }
    if seen_fail {
        st.class("sequence-with-failed-call");
    }
    if failed_then_ok {
        st.class("failed-then-successful");
    }
    if compressed_rdata {
        st.class("compressed-rdata-read");
    }
    if failed_then_ok || compressed_rdata {
        st.nontrivial(&(buf, ops), || json!({"message_hex": hex(buf), "ops": format!("{ops:?}")}));
    }
    Ok(())
}

pub fn oracle(case: &Case, st: &mut Stats) -> Verdict {
    let buf = match &case.raw {
        Some(b) => {
            st.class("hand-laid-out-message");
            b.clone()
        }
        None => case.msg.render(),
    };
    if !case.msg.mutations.is_empty() {
        st.class("mutated-message");
    }
    oracle_bytes(&buf, &case.ops, st)
}

fn op_strategy() -> impl Strategy<Value = Op> {
    prop_oneof![
        1 => Just(Op::Header),
        3 => Just(Op::ReadQuestion),
        1 => Just(Op::SkipQuestion),
        6 => Just(Op::ReadRr),
        2 => Just(Op::SkipRr),
        4 => (0u8..3, prop_oneof![Just(PeekEnd::Drop), Just(PeekEnd::Skip), Just(PeekEnd::Parse), Just(PeekEnd::Parse)]).prop_map(|(owner_calls, end)| Op::Peek { owner_calls, end }),
        1 => Just(Op::Mark),
        1 => Just(Op::Rewind),
        1 => Just(Op::AtEom),
    ]
}

/// Ops that follow the message's structure (so that reads mostly line up), with
/// random deviations.
pub fn case_strategy() -> impl Strategy<Value = Case> {
    (msg_spec(), prop::collection::vec(op_strategy(), 0..30), any::<bool>()).prop_map(|(msg, random_ops, structured)| {
        let ops = if structured {
            let mut ops = Vec::new();
            for _ in 0..msg.questions.len() {
                ops.push(Op::ReadQuestion);
            }
            let n = msg.answers.len() + msg.authority.len() + msg.additional.len();
            let mut extra = random_ops.into_iter();
            for _ in 0..n + 1 {
                // interleave: a random op, then a record-consuming op derived from another random op
                if let Some(e) = extra.next() {
                    match e {
                        Op::ReadQuestion | Op::SkipQuestion => ops.push(Op::ReadRr),
                        other => ops.push(other),
                    }
                }
                ops.push(match extra.next() {
                    Some(Op::SkipRr) => Op::SkipRr,
                    Some(Op::Peek { owner_calls, end }) => Op::Peek { owner_calls, end },
                    _ => Op::ReadRr,
                });
            }
            ops.push(Op::AtEom);
            ops
        } else {
            random_ops
        };
        Case { msg, ops, raw: None }
    })
}

/// Two or three records whose owner fields are the same octets: labels followed by a pointer to
/// a name that lies inside the first of them. Where a field sits decides whether it is valid: the
/// pointer is backwards only from the later records. The call sequences move back and forth
/// over them (mark / skip / read / rewind), so that whatever a reader remembers about an owner it
/// has parsed is put to the test at another position.
fn twin_owner_case() -> impl Strategy<Value = Case> {
    (
        prop::collection::vec(prop_oneof![Just(b'x'), Just(b'A'), any::<u8>()], 0..4),
        0u8..3,
        prop::collection::vec(
            prop_oneof![3 => Just(Op::ReadRr), 2 => Just(Op::SkipRr), 1 => Just(Op::Mark), 2 => Just(Op::Rewind), 1 => Just(Op::Peek { owner_calls: 1, end: PeekEnd::Skip }), 1 => Just(Op::Peek { owner_calls: 2, end: PeekEnd::Parse }), 1 => Just(Op::AtEom)],
            0..8,
        ),
        any::<bool>(),
        any::<u16>(),
    )
        .prop_map(|(label, target_kind, tail_ops, scripted, id)| {
            let mut b = Vec::new();
            b.extend_from_slice(&id.to_be_bytes());
            b.extend_from_slice(&[0x84, 0x00, 0, 0, 0, 3, 0, 0, 0, 0]);
            // the owner field: an optional label, then a pointer whose target is filled in below
            let owner = |target: usize| {
                let mut o = Vec::new();
                if !label.is_empty() {
                    o.push(label.len() as u8);
                    o.extend_from_slice(&label);
                }
                o.push(0xc0 | (target >> 8) as u8);
                o.push(target as u8);
                o
            };
            let owner_len = owner(0).len();
            let r1 = b.len();
            let rdata1_at = r1 + owner_len + 10;
            // target: 0 = the name in the first record's RDATA, 1 = the first record's own start, 2 = the last label of that RDATA name
            let target = match target_kind {
                0 => rdata1_at,
                1 => r1,
                _ => rdata1_at + 4,
            };
            let name = b"\x03abc\x04test\x00";
            for (i, rdata) in [&name[..], &[192, 0, 2, 1][..], &[192, 0, 2, 2][..]].iter().enumerate() {
                b.extend_from_slice(&owner(target));
                b.extend_from_slice(&(if i == 0 { 99u16 } else { 1u16 }).to_be_bytes());
                b.extend_from_slice(&[0, 1, 0, 0, 0, 60]);
                b.extend_from_slice(&(rdata.len() as u16).to_be_bytes());
                b.extend_from_slice(rdata);
            }
            let mut ops = if scripted { vec![Op::Mark, Op::SkipRr, Op::ReadRr, Op::Rewind, Op::ReadRr] } else { Vec::new() };
            ops.extend(tail_ops);
            Case { msg: MsgSpec { id, flags: 0, questions: vec![], answers: vec![], authority: vec![], additional: vec![], mutations: vec![] }, ops, raw: Some(b) }
        })
}

/// A record whose opaque RDATA holds a name followed by a ladder of pointer-only chunks (each
/// pointing at the previous one), then records whose owner and RDATA name enter the ladder at its
/// top: a name reached through k + 1 pointers. Any k is legal (every pointer goes backwards).
fn pointer_ladder_case() -> impl Strategy<Value = Case> {
    (
        prop_oneof![3 => 1u16..8, 3 => 120u16..136, 1 => 250u16..262, 1 => 1u16..400],
        prop::collection::vec(prop_oneof![3 => Just(Op::ReadRr), 1 => Just(Op::SkipRr), 1 => Just(Op::Peek { owner_calls: 1, end: PeekEnd::Parse }), 1 => Just(Op::Peek { owner_calls: 0, end: PeekEnd::Skip }), 1 => Just(Op::Mark), 1 => Just(Op::Rewind), 1 => Just(Op::AtEom)], 3..8),
        any::<u16>(),
    )
        .prop_map(|(rungs, ops, id)| {
            let mut b = Vec::new();
            b.extend_from_slice(&id.to_be_bytes());
            b.extend_from_slice(&[0x84, 0x00, 0, 0, 0, 3, 0, 0, 0, 0]);
            // record 1: root owner, type 99, RDATA = name + ladder
            b.push(0);
            b.extend_from_slice(&[0, 99, 0, 1, 0, 0, 0, 60]);
            let rdlen = 10 + 2 * rungs as usize;
            b.extend_from_slice(&(rdlen as u16).to_be_bytes());
            let mut target = b.len();
            b.extend_from_slice(b"\x03abc\x04test\x00");
            for _ in 0..rungs {
                let here = b.len();
                b.push(0xc0 | (target >> 8) as u8);
                b.push(target as u8);
                target = here;
            }
            // record 2: owner = label + pointer to the top rung, A
            b.extend_from_slice(&[1, b'w', 0xc0 | (target >> 8) as u8, target as u8]);
            b.extend_from_slice(&[0, 1, 0, 1, 0, 0, 0, 60, 0, 4, 192, 0, 2, 1]);
            // record 3: owner = pointer to the top rung, NS whose RDATA is a pointer to the top rung
            b.extend_from_slice(&[0xc0 | (target >> 8) as u8, target as u8]);
            b.extend_from_slice(&[0, 2, 0, 1, 0, 0, 0, 60, 0, 2, 0xc0 | (target >> 8) as u8, target as u8]);
            Case { msg: MsgSpec { id, flags: 0, questions: vec![], answers: vec![], authority: vec![], additional: vec![], mutations: vec![] }, ops, raw: Some(b) }
        })
}

/// The main generator plus, in one case of twelve, the hand-laid-out twin-owner messages, and
/// in one of twenty-four the pointer ladders.
pub fn case_strategy_all() -> impl Strategy<Value = Case> {
    prop_oneof![22 => case_strategy().boxed(), 2 => twin_owner_case().boxed(), 1 => pointer_ladder_case().boxed()]
}

pub fn run(ctx: &Ctx, report: &mut Report) {
    report.rule = "generated messages (0-2 questions, 0-10 records of every known type with valid/invalid RDATA, \
        compressed owner and RDATA names, OPT records, RDLENGTH overrides) optionally mutated (truncation, appended \
        octets, count changes, byte/bit flips, inserted/deleted octets, injected pointers), driven by generated \
        sequences of up to 30 reader calls; every call compared with a cursor model over the independent decoder. \
        Non-trivial = sequence with a failed call followed by a successful one, or a record whose RDATA contained a \
        compression pointer; distinct = distinct (message octets, call sequence)."
        .into();
    report.assumptions.push("vmodel::wire + vmodel::rdata as the independent decoder".into());
    run_prop(
        ctx,
        report,
        PropSpec {
            name: "reader-ops",
            cases: ctx.tier.pick(300_000, 6_000_000),
            max_shrink_iters: 8192,
        },
        case_strategy_all,
        oracle,
    );
    // Raw short buffers: every reader call on buffers of 12..=40 arbitrary octets.
    run_prop(
        ctx,
        report,
        PropSpec {
            name: "reader-raw",
            cases: ctx.tier.pick(100_000, 2_000_000),
            max_shrink_iters: 8192,
        },
        || {
            (
                prop::collection::vec(prop_oneof![3 => Just(0u8), 2 => 0u8..4, 1 => Just(0xc0u8), 2 => any::<u8>()], 0..40),
                prop::collection::vec(op_strategy(), 1..8),
            )
        },
        |(buf, ops): &(Vec<u8>, Vec<Op>), st: &mut Stats| oracle_bytes(buf, ops, st),
    );
}

pub fn replay(check: &str, case: &serde_json::Value) -> Verdict {
    use crate::fw::replay_case;
    match check {
        "reader-raw" => replay_case::<(Vec<u8>, Vec<Op>), _>(case, |(b, o), st| oracle_bytes(b, o, st)),
        _ => replay_case::<Case, _>(case, oracle),
    }
}
