//! C05 — query answers follow the DNS resolution algorithm, and
//! C07 — zone selection and RCODEs for unsupported queries
//! (oracle: vmodel::resolve, DESIGN.md Appendix A).

use std::collections::BTreeSet;

use proptest::prelude::*;
use serde::{Deserialize, Serialize};
use serde_json::json;
use vmodel::name::MName;
use vmodel::rdata as mr;
use vmodel::resolve::{respond, MEntry, Outcome, RC_NOTIMP, RC_REFUSED, RC_SERVFAIL};
use vmodel::wire::{decode_message, Builder};
use vmodel::zone::MCatalog;

use crate::fw::{panic_signature, run_prop, Ctx, PropSpec, Report, Stats, Verdict};
use crate::gen::flip_case;
use crate::srvgen::{build, catalog_spec, CatalogSpec};
use crate::srvrun::{canon_decoded, canon_model, hex, localhost, make_server, plain_additional, show_recs, AnyServer, ServerCfg};
use crate::{ensure, fail};

#[derive(Clone, Debug, Serialize, Deserialize, PartialEq, Eq, Hash)]
pub struct Case {
    pub catalog: CatalogSpec,
    /// extra query names (absolute label lists)
    pub extra_names: Vec<Vec<Vec<u8>>>,
    pub seed: u64,
}

/// Builds a plain QUERY with an OPT advertising 65535 octets.
pub fn build_query(id: u16, flags: u16, qname: &MName, qtype: u16, qclass: u16, edns: bool) -> Vec<u8> {
    let mut b = Builder::new(id, flags);
    b.question(qname, qtype, qclass);
    if edns {
        b.rr(3, &MName::root(), mr::T_OPT, 65535, 0, &[]);
    }
    b.buf
}

/// Compares one response with the reference outcome.  `what` describes the query.
pub fn compare(resp: &[u8], expect: &Outcome, what: &str, st: &mut Stats) -> Verdict {
    let d = match decode_message(resp) {
        Ok(d) => d,
        Err(e) => fail!("response-undecodable", "{what}: response {} does not decode: {e:?}", hex(resp)),
    };
    let rcode = d.extended_rcode();
    let plain_add = plain_additional(&d);
    match expect {
        Outcome::NotImp | Outcome::Refused | Outcome::ServFail => {
            let want = match expect {
                Outcome::NotImp => RC_NOTIMP,
                Outcome::Refused => RC_REFUSED,
                _ => RC_SERVFAIL,
            } as u16;
            ensure!(
                rcode == want,
                format!("rcode-mismatch-expected-{want}"),
                "{what}: RCODE {rcode}, reference expects {want} ({expect:?})"
            );
            ensure!(!d.header.aa, "aa-on-error", "{what}: AA set on a {expect:?} response");
            ensure!(
                d.answers.is_empty() && d.authority.is_empty() && plain_add.is_empty(),
                "records-on-error",
                "{what}: {expect:?} response carries records: {} answer, {} authority, {} additional",
                d.answers.len(),
                d.authority.len(),
                plain_add.len()
            );
        }
        Outcome::Answer(a) => {
            for t in &a.tags {
                st.class(t);
            }
            ensure!(
                rcode == a.rcode as u16,
                format!("rcode-mismatch-expected-{}", a.rcode),
                "{what}: RCODE {rcode}, reference expects {} (paths {:?})",
                a.rcode,
                a.tags
            );
            ensure!(d.header.aa == a.aa, "aa-mismatch", "{what}: AA = {}, reference expects {} (paths {:?})", d.header.aa, a.aa, a.tags);
            ensure!(!d.header.tc, "unexpected-tc", "{what}: TC set although the transport limit is 65535");
            let mut got: Vec<_> = d.answers.iter().map(canon_decoded).collect();
            let mut want: Vec<_> = a.answer.iter().map(canon_model).collect();
            got.sort();
            want.sort();
            ensure!(
                got == want,
                "answer-section-mismatch",
                "{what}: answer section [{}], reference [{}] (paths {:?})",
                show_recs(&got),
                show_recs(&want),
                a.tags
            );
            let mut got: Vec<_> = d.authority.iter().map(canon_decoded).collect();
            let mut want: Vec<_> = a.authority.iter().map(canon_model).collect();
            got.sort();
            want.sort();
            let soa_only_ttl = got.len() == 1
                && want.len() == 1
                && got[0].1 == mr::T_SOA
                && (got[0].0.clone(), got[0].1, got[0].2, &got[0].4) == (want[0].0.clone(), want[0].1, want[0].2, &want[0].4)
                && got[0].3 != want[0].3;
            ensure!(
                got == want,
                if soa_only_ttl { "negative-soa-ttl" } else { "authority-section-mismatch" },
                "{what}: authority section [{}], reference [{}] (paths {:?})",
                show_recs(&got),
                show_recs(&want),
                a.tags
            );
            // additional section: compared as a set (multiplicity is not prescribed)
            let got: BTreeSet<_> = plain_add.iter().map(|r| canon_decoded(r)).collect();
            let want: BTreeSet<_> = a.additional_mandatory.iter().chain(a.additional_optional.iter()).map(canon_model).collect();
            ensure!(
                got == want,
                "additional-section-mismatch",
                "{what}: additional section {{{}}}, reference {{{}}} (paths {:?})",
                show_recs(&got.iter().cloned().collect::<Vec<_>>()),
                show_recs(&want.iter().cloned().collect::<Vec<_>>()),
                a.tags
            );
        }
    }
    Ok(())
}

// (43 = DS, 47 = NSEC: types with special placement rules in DNSSEC-aware servers, ordinary data here)
const QTYPES: [u16; 13] = [mr::T_A, mr::T_AAAA, mr::T_NS, mr::T_MX, mr::T_SRV, mr::T_CNAME, mr::T_SOA, mr::T_TXT, mr::T_ANY, 99, mr::T_PTR, 43, 47];

/// Names at and around everything the catalog contains.
pub fn query_names(model: &MCatalog<MEntry>, extra: &[Vec<Vec<u8>>], cap: usize) -> Vec<(MName, u16)> {
    let mut out: BTreeSet<(MName, u16)> = BTreeSet::new();
    let labels: [&[u8]; 6] = [b"a", b"*", b"nonexistent", b"sub", b"x", b"w"];
    for ((class, apex), e) in &model.entries {
        out.insert((apex.clone(), *class));
        if let MEntry::Loaded(z) = e {
            for n in z.all_names() {
                out.insert((n.clone(), *class));
                for l in labels {
                    let c = n.child(l);
                    if c.is_valid() {
                        out.insert((c, *class));
                    }
                }
            }
        } else {
            out.insert((apex.child(b"a"), *class));
        }
    }
    let classes: Vec<u16> = model.entries.keys().map(|k| k.0).collect();
    for (i, e) in extra.iter().enumerate() {
        let n = MName { labels: e.clone() };
        if n.is_valid() && !classes.is_empty() {
            out.insert((n, classes[i % classes.len()]));
        }
    }
    let v: Vec<_> = out.into_iter().collect();
    if v.len() > cap {
        // deterministic thinning
        let step = v.len() as f64 / cap as f64;
        (0..cap).map(|i| v[(i as f64 * step) as usize].clone()).collect()
    } else {
        v
    }
}

pub fn run_query(server: &AnyServer, q: &[u8], tcp: bool, buf: &mut Vec<u8>, what: &str) -> Result<Option<Vec<u8>>, crate::fw::Fail> {
    match server.handle(q, tcp, localhost(), buf) {
        Ok(Some(n)) => Ok(Some(buf[..n].to_vec())),
        Ok(None) => Ok(None),
        Err(p) => Err(crate::fw::Fail::new(panic_signature(&p), format!("{what}: handle_message panicked: {p}; request {}", hex(q)))),
    }
}

pub fn oracle_c05(case: &Case, st: &mut Stats) -> Verdict {
    let (cat, model) = build(&case.catalog);
    let server = make_server(&cat, &ServerCfg { payload: 65535, keys: vec![], rrl: None });
    let names = query_names(&model, &case.extra_names, 90);
    let mut buf = Vec::new();
    let mut tags: BTreeSet<&'static str> = BTreeSet::new();
    for (i, (name, class)) in names.iter().enumerate() {
        // mixed-case query names
        let qname = if i % 4 == 1 { flip_case(name, case.seed ^ (i as u64).wrapping_mul(0x9e37_79b9)) } else { name.clone() };
        for (j, qtype) in QTYPES.iter().enumerate() {
            st.eval();
            let tcp = (i + j) % 2 == 0;
            let q = build_query((i * 16 + j) as u16, if j % 3 == 0 { 0x0100 } else { 0 }, &qname, *qtype, *class, true);
            let what = format!("query {qname} type {qtype} class {class} over {}", if tcp { "TCP" } else { "UDP+EDNS(65535)" });
            let resp = match run_query(&server, &q, tcp, &mut buf, &what)? {
                Some(r) => r,
                None => fail!("no-response", "{what}: no response"),
            };
            let (expect, path) = vmodel::resolve::respond_tagged(&model, &qname, *qtype, *class);
            for t in &path {
                tags.insert(t);
            }
            if matches!(expect, Outcome::ServFail) {
                for t in &path {
                    st.class(t);
                }
            }
            compare(&resp, &expect, &what, st)?;
        }
    }
    let interesting = tags.iter().filter(|t| !matches!(**t, "nodata" | "nxdomain")).count();
    if interesting > 0 {
        st.nontrivial(case, || json!({"zones": case.catalog.zones.iter().map(|z| format!("{} class {} kind {} ({} records)", z.apex, z.class, z.kind, z.recs.len())).collect::<Vec<_>>(), "query_names": names.len(), "paths": tags.iter().collect::<Vec<_>>()}));
    }
    Ok(())
}

////////////////////////////////////////////////////////////////////////
// C07                                                                //
////////////////////////////////////////////////////////////////////////

#[derive(Clone, Debug, Serialize, Deserialize, PartialEq, Eq, Hash)]
pub struct C07Case {
    pub catalog: CatalogSpec,
    /// (name selector relative to catalog names, qtype, qclass, opcode, edns, tcp)
    pub queries: Vec<(u16, u8, u16, u16, u8, bool, bool)>,
}

fn hex_of(b: &[u8]) -> String {
    b.iter().map(|x| format!("{x:02x}")).collect()
}

pub fn oracle_c07(case: &C07Case, st: &mut Stats) -> Verdict {
    let (cat, model) = build(&case.catalog);
    let server = make_server(&cat, &ServerCfg { payload: 4096, keys: vec![], rrl: None });
    let names = query_names(&model, &[], 200);
    if names.is_empty() {
        return Ok(());
    }
    let mut buf = Vec::new();
    let mut seen: BTreeSet<(String, u8)> = BTreeSet::new();
    for (sel, how, qtype, qclass, opcode, edns, tcp) in &case.queries {
        st.eval();
        let (base, base_class) = &names[crate::gen::pick(*sel, names.len())];
        // at / below / above the catalog's names
        let qname = match how % 5 {
            4 => {
                // wire-form confusable sibling: the first label contains the length octet and the
                // text of the base name's first label, so that the tail of the QNAME's wire form
                // equals the base name's wire form although it is not at or below it
                let mut labels = base.labels.clone();
                if labels.is_empty() {
                    base.clone()
                } else if *sel % 3 == 0 && crate::gen::merged_confusable(base).is_some() {
                    // one label that swallows the whole base name
                    crate::gen::merged_confusable(base).unwrap()
                } else {
                    let mut first = vec![b'x', labels[0].len() as u8];
                    first.extend_from_slice(&labels[0]);
                    labels[0] = first;
                    if *sel % 2 == 0 {
                        labels.insert(0, b"w".to_vec());
                    }
                    let n = MName { labels };
                    if n.is_valid() {
                        n
                    } else {
                        base.clone()
                    }
                }
            }
            0 => base.clone(),
            1 => {
                let c = base.child(b"deep").child(b"er");
                if c.is_valid() {
                    c
                } else {
                    base.clone()
                }
            }
            2 => base.parent().unwrap_or_else(MName::root),
            _ => flip_case(base, *sel as u64 * 0x1234_5678_9abc),
        };
        let qclass = match qclass % 8 {
            0..=3 => *base_class,
            4 => mr::C_ANY,
            5 => mr::C_NONE,
            6 => mr::C_IN,
            _ => *qclass,
        };
        let opcode = *opcode % 16;
        let flags = (opcode as u16) << 11;
        // requests with another opcode come in more shapes than "one question": a bare header (STATUS), no
        // question but an answer record (IQUERY, RFC 1035 §6.4), question plus records (NOTIFY / UPDATE)
        let shape = if opcode != 0 { (*how / 5) % 4 } else { 0 };
        let q = if shape == 0 {
            build_query(*sel, flags, &qname, *qtype, qclass, *edns)
        } else {
            let mut b = vmodel::wire::Builder::new(*sel, flags);
            if shape == 3 {
                b.question(&qname, *qtype, qclass);
            }
            if shape >= 2 {
                b.rr(1, &MName::root(), mr::T_A, mr::C_IN, 0, &[127, 0, 0, 1]);
            }
            if shape == 3 {
                b.rr(2, &qname, mr::T_TXT, mr::C_IN, 60, &[1, b'x']);
            }
            if *edns {
                b.rr(3, &MName::root(), mr::T_OPT, 1232, 0, &[]);
            }
            st.class(["", "other-opcode: bare header", "other-opcode: no question, one answer record", "other-opcode: question and records"][shape as usize]);
            b.buf
        };
        let what = format!("opcode {opcode} query {qname} type {qtype} class {qclass} (request shape {shape}: {}) over {}", hex_of(&q), if *tcp { "TCP" } else { "UDP" });
        let resp = match run_query(&server, &q, *tcp, &mut buf, &what)? {
            Some(r) => r,
            None => fail!("no-response", "{what}: no response"),
        };
        let expect = if opcode != 0 { Outcome::NotImp } else { respond(&model, &qname, *qtype, qclass) };
        let depth = model.lookup(&qname, qclass).map_or(0, |(n, _)| n.labels.len() as u8 + 1);
        let label = match &expect {
            Outcome::NotImp => "NOTIMP",
            Outcome::Refused => "REFUSED",
            Outcome::ServFail => "SERVFAIL",
            Outcome::Answer(_) => "answered",
        };
        st.class(label);
        seen.insert((label.to_string(), depth));
        // C07 only decides the dispatch: for answered queries compare RCODE class only
        match &expect {
            Outcome::Answer(a) => {
                let d = match decode_message(&resp) {
                    Ok(d) => d,
                    Err(e) => fail!("response-undecodable", "{what}: {e:?}"),
                };
                let rc = d.extended_rcode();
                if d.header.tc {
                    continue;
                }
                ensure!(
                    rc == a.rcode as u16,
                    "dispatch-mismatch",
                    "{what}: RCODE {rc}; the reference answers from the zone of the longest-suffix entry with RCODE {}",
                    a.rcode
                );
            }
            _ => compare(&resp, &expect, &what, st)?,
        }
    }
    for (label, depth) in &seen {
        if label != "answered" || *depth > 1 {
            st.nontrivial(&(label, depth, &case.catalog), || json!({"outcome": label, "matched_entry_labels": depth, "zones": case.catalog.zones.len()}));
        }
    }
    Ok(())
}

fn c07_case() -> impl Strategy<Value = C07Case> {
    let qtype = prop_oneof![
        5 => prop_oneof![Just(mr::T_A), Just(mr::T_NS), Just(mr::T_SOA), Just(mr::T_TXT), Just(mr::T_ANY)],
        2 => prop_oneof![Just(43u16), Just(46u16), Just(47u16), Just(48u16), Just(39u16), Just(64u16), Just(257u16)],
        3 => prop_oneof![Just(mr::T_AXFR), Just(mr::T_IXFR), Just(mr::T_MAILA), Just(mr::T_MAILB)],
        1 => any::<u16>(),
    ];
    (
        catalog_spec(true, false, true),
        prop::collection::vec((any::<u16>(), any::<u8>(), qtype, any::<u16>(), prop_oneof![3 => Just(0u8), 1 => any::<u8>()], any::<bool>(), any::<bool>()), 1..40),
    )
        .prop_map(|(catalog, queries)| C07Case { catalog, queries })
}

fn c05_case() -> impl Strategy<Value = Case> {
    (catalog_spec(true, false, true), prop::collection::vec(prop::collection::vec(crate::srvgen::zlabel(), 0..5), 0..4), any::<u64>()).prop_map(|(catalog, extra_names, seed)| Case { catalog, extra_names, seed })
}

pub fn run(ctx: &Ctx, report: &mut Report) {
    if ctx.id == "C07" {
        report.rule = "generated catalogs (1-4 nested/sibling entries, classes IN/CH/HS/CLASS300, loaded / not-yet-loaded / failed, tree and \
            single-zone catalogs) and per catalog up to 40 requests with any opcode, QNAME at/below/above the entries (case-flipped), \
            QTYPE incl. AXFR/IXFR/MAILA/MAILB, QCLASS from the entries/ANY/NONE/random, with/without EDNS, both transports; NOTIMP / \
            REFUSED / SERVFAIL outcomes compared with the reference dispatch incl. AA clear and no records. Non-trivial = distinct \
            (outcome, matched-entry depth, catalog)."
            .into();
        run_prop(ctx, report, PropSpec { name: "dispatch", cases: ctx.tier.pick(120_000, 1_500_000), max_shrink_iters: 4096 }, c07_case, oracle_c07);
    } else {
        report.rule = "generated catalogs (nested zones with delegations, glue above/below cuts, sibling glue, wildcards incl. at empty \
            non-terminals and below cuts, CNAME chains of 1-10 links ending in data / NODATA / NXDOMAIN / outside / loop / below a cut / \
            wildcard / apex, MX/SRV/NS targets in and out of zone, missing SOA, mixed-case names) and, per catalog, up to 90 names at \
            and around its contents x 11 QTYPEs, alternating TCP and UDP+EDNS(65535); RCODE, AA, answer and authority as multisets, \
            additional as a set, against the reference resolver. Restrictions (by construction): RDATA valid for its type, no NS at \
            wildcard owners, SOA MINIMUM < 2^31. evaluations = queries. Non-trivial = catalog for which some query took a path other \
            than plain NODATA/NXDOMAIN (paths are counted in classes)."
            .into();
        run_prop(ctx, report, PropSpec { name: "resolution", cases: ctx.tier.pick(10_000, 120_000), max_shrink_iters: 3000 }, c05_case, oracle_c05);
    }
    report.assumptions.push("vmodel::resolve (Appendix A) over vmodel::zone; CNAME chasing stays inside the QNAME's zone (documented behaviour)".into());
}

pub fn replay(check: &str, case: &serde_json::Value) -> Verdict {
    use crate::fw::replay_case;
    if check == "dispatch" {
        replay_case::<C07Case, _>(case, oracle_c07)
    } else {
        replay_case::<Case, _>(case, oracle_c05)
    }
}
