//! C10, sub-check `tsig-size-limit`: signed requests whose response, TSIG
//! record included, ends within a few octets of the UDP size limit. Key names
//! and QNAMEs of up to 255 octets are needed for that, which the main
//! generator's short key names never reach. The judge is the main check's.

use proptest::prelude::*;
use serde::{Deserialize, Serialize};
use vmodel::name::MName;
use vmodel::rdata as mr;

use crate::fw::{Stats, Verdict};
use crate::gen::{name_of_wire_len, pick};
use crate::msggen::{FieldSpec, RrSpec};
use crate::reqgen::{KeyChoice, QSel, ReqSpec, TsigReq};
use crate::srvgen::{CatalogSpec, NameSpec, RdSpec, RecSpec, ZoneSpec};
use crate::srvrun::{KeySpec, ServerCfg};

use super::super::srvchk::Case;

#[derive(Clone, Debug, Serialize, Deserialize, PartialEq, Eq, Hash)]
pub struct SizeCase {
    pub sha256: bool,
    /// OPT record with this advertised payload size (512..=600), or no OPT (limit 512)
    pub opt: Option<u16>,
    /// octets by which the BADTIME response (12 + question + [OPT] + signed TSIG RR with 6 octets of
    /// other data) exceeds the limit
    pub delta: i8,
    /// splits the name octets between QNAME and key name
    pub split: u16,
    /// 0 = valid time, 1 = stale, 2 = future, 3 = wrong secret (BADSIG), 4 = truncated MAC (valid)
    pub mode: u8,
    pub id: u16,
}

pub fn to_case(c: &SizeCase) -> Option<(Case, Vec<(MName, u16)>)> {
    let limit = c.opt.map_or(512usize, |p| (p as usize).clamp(512, 1232));
    let (al, mac) = if c.sha256 { (13usize, 32usize) } else { (11, 20) };
    let fixed = 12 + 4 + if c.opt.is_some() { 11 } else { 0 } + 10 + al + 16 + mac + 6;
    let sum = (limit as i64 - fixed as i64 + c.delta as i64) as usize;
    // QNAME and key name wire lengths: ql + kl = sum, both in 3..=255
    let lo = sum.saturating_sub(255).max(3);
    let hi = (sum - 3).min(255);
    if lo > hi {
        return None;
    }
    let ql = lo + pick(c.split, hi - lo + 1);
    let kl = sum - ql;
    let qname = name_of_wire_len(ql, 63, b'q')?;
    let key_name = name_of_wire_len(kl, 63, b'k')?;
    let apex = MName { labels: vec![b"test".to_vec()] };
    let rel = |l: &[&[u8]]| NameSpec::Rel(l.iter().map(|x| x.to_vec()).collect(), 0);
    let catalog = CatalogSpec {
        zones: vec![ZoneSpec {
            apex,
            class: 1,
            kind: 0,
            recs: vec![
                RecSpec { owner: rel(&[]), ttl: 300, rd: RdSpec::Soa { minimum: 60, serial: 1 } },
                RecSpec { owner: rel(&[]), ttl: 300, rd: RdSpec::Single(mr::T_NS, rel(&[b"ns"])) },
                RecSpec { owner: rel(&[b"ns"]), ttl: 300, rd: RdSpec::A(1) },
            ],
        }],
        single: false,
    };
    let cfg = ServerCfg { payload: 1232, keys: vec![KeySpec { name: key_name, sha256: c.sha256, secret: b"size-limit-secret".to_vec() }], rrl: None };
    let additional = match c.opt {
        Some(p) => vec![RrSpec { owner: MName::root(), owner_comp: 0, rtype: mr::T_OPT, class: p, ttl: 0, rdata: vec![FieldSpec::Bytes(vec![])], rdlength_override: None }],
        None => vec![],
    };
    let tsig = TsigReq {
        key: if c.mode == 3 { KeyChoice::WrongSecret(0) } else { KeyChoice::Configured(0) },
        mac_len: if c.mode == 4 { Some(if c.sha256 { 16 } else { 10 }) } else { None },
        time_offset: match c.mode {
            1 => -5000,
            2 => 5000,
            _ => 0,
        },
        fudge: 300,
        original_id: None,
        tamper: None,
        error: 0,
        other: vec![],
        class: mr::C_ANY,
        ttl: 0,
        misplaced: false,
        name_mask: 0,
    };
    let req = ReqSpec {
        id: c.id,
        flags: 0,
        questions: vec![QSel { sel: 0, how: 0, mask: 0, qtype: mr::T_A, qclass_mode: 6, qclass_raw: 0, comp: 0 }],
        answers: vec![],
        authority: vec![],
        additional,
        tsig: Some(tsig),
        mutations: vec![],
        tcp: false,
        source: (0, 0x0a00_0001, 0),
    };
    Some((Case { catalog, cfg, requests: vec![req], raw: vec![] }, vec![(qname, 1)]))
}

pub fn oracle(c: &SizeCase, st: &mut Stats) -> Verdict {
    let (case, pool) = match to_case(c) {
        Some(x) => x,
        None => {
            st.discard("name-lengths-cannot-reach-the-limit");
            return Ok(());
        }
    };
    st.class(match c.mode {
        0 => "size: valid signature and time",
        1 => "size: stale time (BADTIME)",
        2 => "size: future time (BADTIME)",
        3 => "size: wrong secret (BADSIG)",
        _ => "size: truncated MAC",
    });
    st.class(match c.delta {
        i8::MIN..=-7 => "size: BADTIME response 7+ octets below the limit",
        -6..=-1 => "size: BADTIME response 1-6 octets below the limit",
        0 => "size: BADTIME response exactly at the limit",
        1..=6 => "size: BADTIME response 1-6 octets over the limit",
        _ => "size: BADTIME response 7+ octets over the limit",
    });
    super::oracle_with(&case, Some(pool), st)
}

pub fn case_strategy() -> impl Strategy<Value = SizeCase> {
    (
        any::<bool>(),
        prop::option::weighted(0.5, 512u16..=600),
        prop_oneof![6 => -8i8..=8, 1 => -60i8..=60],
        any::<u16>(),
        prop_oneof![2 => Just(0u8), 3 => Just(1u8), 2 => Just(2u8), 1 => Just(3u8), 1 => Just(4u8)],
        any::<u16>(),
    )
        .prop_map(|(sha256, opt, delta, split, mode, id)| SizeCase { sha256, opt, delta, split, mode, id })
}
