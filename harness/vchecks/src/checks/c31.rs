//! C31 — reloading keeps every zone on its own latest good data.
//!
//! Domain: proptest histories (1-8 steps) of configuration and zone-file edits
//! over five nested zones (z0.test., a.z0.test., b.a.z0.test., z1.test.,
//! a.z1.test.): per step and zone {configured or not} x {keep, new valid
//! version, touch, syntactically broken, fails validation, file deleted, file
//! renamed}, with a generated order of the zones in the configuration file.
//! The first step is the daemon's start-up load; after every further step the
//! real `quandaryd` (built from /repo) gets SIGHUP.  File modification times
//! are set explicitly and increase strictly with every write.
//! Oracle: the reference model "latest good data per zone" (DESIGN.md
//! Appendix E, R13), compared through UDP probes whose answers identify the
//! zone and the version they come from (TXT data, or the SOA owner and serial
//! of a negative answer).  A sentinel zone whose TXT record carries the step
//! number tells when the new catalog is live (the catalog swap is atomic).

use std::collections::BTreeMap;
use std::fs;
use std::net::{Ipv4Addr, SocketAddr, UdpSocket};
use std::path::{Path, PathBuf};
use std::process::{Child, Command, Stdio};
use std::sync::atomic::{AtomicU64, Ordering};
use std::time::{Duration, Instant, SystemTime};

use proptest::prelude::*;
use serde::{Deserialize, Serialize};
use serde_json::json;
use vmodel::name::MName;
use vmodel::rdata as mr;

use crate::fw::{replay_case, run_prop, Ctx, Fail, PropSpec, Report, Stats, Verdict};
use crate::{ensure, fail};

pub const DAEMON: &str = "/verif/.target-daemon/debug/quandaryd";
#[path = "c31r.rs"]
pub mod race;

const WORK: &str = "/verif/.work/c31";

const UNIVERSE: [&str; 5] = ["z0.test.", "a.z0.test.", "b.a.z0.test.", "z1.test.", "a.z1.test."];
const SENTINEL: &str = "sentinel.verif.";

#[derive(Clone, Debug, Serialize, Deserialize, PartialEq, Eq, Hash)]
pub enum Action {
    Keep,
    /// write a new valid version
    Valid,
    /// same content, newer modification time
    Touch,
    /// write a file the parser rejects (variant selector)
    Broken(u8),
    /// write a file that parses but fails zone validation or cannot be added (variant selector)
    Invalid(u8),
    Delete,
    /// move the file to a new name (the configuration follows)
    Rename,
    /// write a new valid version whose last line is `$INCLUDE inc<i>.zone`: it loads iff that file is good
    IncludeMain,
    /// (re)write the included file with good content; the zone's main file is not touched
    IncludeFix,
    /// delete the included file; the zone's main file is not touched
    IncludeBreak,
}

#[derive(Clone, Debug, Serialize, Deserialize, PartialEq, Eq, Hash)]
pub struct ZoneStep {
    pub configured: bool,
    pub action: Action,
}

#[derive(Clone, Debug, Serialize, Deserialize, PartialEq, Eq, Hash)]
pub struct Step {
    pub zones: Vec<ZoneStep>,
    /// sort keys deciding the order of the zones in the configuration file
    pub order: Vec<u8>,
}

#[derive(Clone, Debug, Serialize, Deserialize, PartialEq, Eq, Hash)]
pub struct Case {
    pub steps: Vec<Step>,
    pub tokio: bool,
}

fn action() -> impl Strategy<Value = Action> {
    prop_oneof![
        4 => Just(Action::Keep),
        5 => Just(Action::Valid),
        1 => Just(Action::Touch),
        2 => (0u8..4).prop_map(Action::Broken),
        3 => (0u8..8).prop_map(Action::Invalid),
        1 => Just(Action::Delete),
        1 => Just(Action::Rename),
        2 => Just(Action::IncludeMain),
        2 => Just(Action::IncludeFix),
        1 => Just(Action::IncludeBreak),
    ]
}

fn step() -> impl Strategy<Value = Step> {
    (
        prop::collection::vec((prop::bool::weighted(0.75), action()).prop_map(|(configured, action)| ZoneStep { configured, action }), UNIVERSE.len()),
        prop::collection::vec(any::<u8>(), UNIVERSE.len()),
    )
        .prop_map(|(zones, order)| Step { zones, order })
}

fn case_strategy() -> impl Strategy<Value = Case> {
    (prop::collection::vec(step(), 1..=8), prop::bool::weighted(0.2)).prop_map(|(steps, tokio)| Case { steps, tokio })
}

////////////////////////////////////////////////////////////////////////
// FILES                                                              //
////////////////////////////////////////////////////////////////////////

#[derive(Clone, Debug, PartialEq, Eq)]
enum Content {
    Valid(u32),
    /// valid as long as the file it includes is there and good
    ValidWithInclude(u32),
    Bad,
}

#[derive(Clone, Debug)]
struct DiskFile {
    path: PathBuf,
    content: Content,
}

fn valid_zone_text(zone: &str, version: u32) -> String {
    // every third version carries something zone validation only warns about (an MX whose in-zone
    // exchanger has no address): such a zone is valid and must be loaded
    let warned = if version % 3 == 0 { "@ IN MX 10 nomail\n" } else { "" };
    format!(
        "$ORIGIN {zone}\n$TTL 60\n@ IN SOA ns hostmaster {version} 3600 600 86400 60\n@ IN NS ns\nns IN A 127.0.0.1\n@ IN TXT \"z={zone} v={version}\"\nwww IN TXT \"z={zone} v={version}\"\n{warned}"
    )
}

fn broken_zone_text(zone: &str, version: u32, variant: u8) -> String {
    let good = valid_zone_text(zone, version);
    match variant % 4 {
        0 => format!("{good}www IN NOSUCHTYPE 1 2 3\n"),
        1 => format!("{good}broken IN A 300.1.1.1\n"),
        2 => format!("{good}( unbalanced IN TXT \"x\"\n"),
        _ => format!("{good}$INCLUDE does-not-exist-{version}.zone\n"),
    }
}

fn invalid_zone_text(zone: &str, version: u32, variant: u8) -> String {
    // 4-7: an error together with something validation only warns about (MX exchanger without an
    // address, NS at a wildcard name); the TXT data carries the new version so that serving it shows
    let base = |extra: &str| format!("$ORIGIN {zone}\n$TTL 60\n@ IN SOA ns hostmaster {version} 3600 600 86400 60\n@ IN TXT \"z={zone} v={version}\"\nwww IN TXT \"z={zone} v={version}\"\n{extra}");
    match variant % 8 {
        // name server without an address + MX warning
        4 => base("@ IN NS ns\n@ IN MX 10 nomail\n"),
        // CNAME and other data + MX warning
        5 => base("@ IN NS ns\nns IN A 127.0.0.1\nclash IN CNAME www\nclash IN TXT \"x\"\nwww IN MX 5 nomail\n"),
        // missing glue + NS at a wildcard
        6 => base("@ IN NS ns\nns IN A 127.0.0.1\nsub IN NS ns.sub\n*.wild IN NS ns\n"),
        // duplicate CNAME + warnings of both kinds
        7 => base("@ IN NS ns\nns IN A 127.0.0.1\ntwo IN CNAME www\ntwo IN CNAME ns\n*.wild IN NS ns\n@ IN MX 10 nomail\n"),
        // no SOA
        0 => format!("$ORIGIN {zone}\n$TTL 60\n@ IN NS ns\nns IN A 127.0.0.1\n@ IN TXT \"z={zone} v={version}\"\n"),
        // CNAME and other data
        1 => format!("{}clash IN CNAME www\nclash IN TXT \"x\"\n", valid_zone_text(zone, version)),
        // a record outside the zone
        2 => format!("{}outside.invalid. IN TXT \"x\"\n", valid_zone_text(zone, version)),
        // name server without an address
        _ => format!("$ORIGIN {zone}\n$TTL 60\n@ IN SOA ns hostmaster {version} 3600 600 86400 60\n@ IN NS ns\n@ IN TXT \"z={zone} v={version}\"\n"),
    }
}

/// `token` is unique per history, so that a daemon of another (parallel) history that
/// happens to own the port this one wanted is never mistaken for ours.
fn sentinel_text(step: usize, token: &str) -> String {
    format!("$ORIGIN {SENTINEL}\n$TTL 1\n@ IN SOA ns hostmaster {step} 3600 600 86400 1\n@ IN NS ns\nns IN A 127.0.0.1\n@ IN TXT \"step={step} id={token}\"\n")
}

struct Clock {
    base: SystemTime,
    ticks: u64,
}

impl Clock {
    fn next(&mut self) -> SystemTime {
        self.ticks += 1;
        self.base + Duration::from_secs(10 * self.ticks)
    }
}

fn write_with_mtime(path: &Path, text: &str, mtime: SystemTime) -> std::io::Result<()> {
    fs::write(path, text)?;
    let f = fs::OpenOptions::new().write(true).open(path)?;
    f.set_modified(mtime)?;
    Ok(())
}

////////////////////////////////////////////////////////////////////////
// MODEL (R13)                                                        //
////////////////////////////////////////////////////////////////////////

#[derive(Clone, Debug, PartialEq, Eq)]
enum MEntry {
    Loaded(u32),
    Failed,
}

type MCat = BTreeMap<String, MEntry>;

#[derive(Clone, Debug, PartialEq, Eq)]
enum Expect {
    Refused,
    ServFail,
    /// TXT data of (zone, version)
    Data(String, u32),
    /// negative answer from (zone, version)
    Negative(String, u32),
}

fn expect_for(cat: &MCat, probe: &str, has_data_in: impl Fn(&str) -> bool) -> Expect {
    // the entry whose name is the longest suffix of the probe name
    let pn = MName::parse_text(probe).unwrap();
    let best = cat
        .iter()
        .filter(|(z, _)| pn.at_or_below(&MName::parse_text(z).unwrap()))
        .max_by_key(|(z, _)| MName::parse_text(z).unwrap().labels.len());
    match best {
        None => Expect::Refused,
        Some((_, MEntry::Failed)) => Expect::ServFail,
        Some((z, MEntry::Loaded(v))) => {
            if has_data_in(z) {
                Expect::Data(z.clone(), *v)
            } else {
                Expect::Negative(z.clone(), *v)
            }
        }
    }
}

////////////////////////////////////////////////////////////////////////
// DAEMON                                                             //
////////////////////////////////////////////////////////////////////////

struct Daemon {
    child: Child,
    port: u16,
    sock: UdpSocket,
}

impl Drop for Daemon {
    fn drop(&mut self) {
        let _ = self.child.kill();
        let _ = self.child.wait();
    }
}

#[derive(Debug)]
struct Answer {
    rcode: u8,
    txt: Vec<String>,
    soa: Option<(String, u32)>,
    aa: bool,
}

impl Daemon {
    fn query(&self, id: u16, name: &str, qtype: u16) -> Option<Answer> {
        let mut b = vmodel::wire::Builder::new(id, 0);
        b.question(&MName::parse_text(name).unwrap(), qtype, 1);
        let addr = SocketAddr::from((Ipv4Addr::LOCALHOST, self.port));
        let mut buf = [0u8; 2048];
        for attempt in 0..4 {
            if self.sock.send_to(&b.buf, addr).is_err() {
                std::thread::sleep(Duration::from_millis(5));
                continue;
            }
            let deadline = Instant::now() + Duration::from_millis(if attempt == 0 { 300 } else { 1000 });
            while Instant::now() < deadline {
                match self.sock.recv_from(&mut buf) {
                    Ok((n, from)) if from == addr && n >= 12 && buf[0..2] == id.to_be_bytes() => {
                        let d = vmodel::wire::decode_message_opts(&buf[..n], true).ok()?;
                        let mut txt = Vec::new();
                        for r in &d.answers {
                            if r.rtype == mr::T_TXT && !r.rdata.is_empty() {
                                let l = r.rdata[0] as usize;
                                txt.push(String::from_utf8_lossy(&r.rdata[1..(1 + l).min(r.rdata.len())]).into_owned());
                            }
                        }
                        let soa = d.authority.iter().find(|r| r.rtype == mr::T_SOA).and_then(|r| {
                            let n = r.rdata.len();
                            if n < 20 {
                                return None;
                            }
                            Some((r.owner.name.folded().to_text(), u32::from_be_bytes(r.rdata[n - 20..n - 16].try_into().unwrap())))
                        });
                        return Some(Answer { rcode: d.header.rcode, txt, soa, aa: d.header.aa });
                    }
                    _ => {}
                }
            }
        }
        None
    }

    /// Polls the sentinel zone until it reports `step`.
    fn wait_for_step(&mut self, step: usize, token: &str, limit: Duration) -> Result<(), String> {
        let want = format!("step={step} id={token}");
        let deadline = Instant::now() + limit;
        let mut id = 0x5000u16;
        let mut last = String::from("no answer");
        while Instant::now() < deadline {
            if let Ok(Some(status)) = self.child.try_wait() {
                return Err(format!("the daemon exited with {status}"));
            }
            id = id.wrapping_add(1);
            let mut b = vmodel::wire::Builder::new(id, 0);
            b.question(&MName::parse_text(SENTINEL).unwrap(), mr::T_TXT, 1);
            let addr = SocketAddr::from((Ipv4Addr::LOCALHOST, self.port));
            let _ = self.sock.send_to(&b.buf, addr);
            let mut buf = [0u8; 2048];
            let until = Instant::now() + Duration::from_millis(40);
            while Instant::now() < until {
                if let Ok((n, from)) = self.sock.recv_from(&mut buf) {
                    if from != addr || n < 12 {
                        continue;
                    }
                    if let Ok(d) = vmodel::wire::decode_message_opts(&buf[..n], true) {
                        for r in &d.answers {
                            if r.rtype == mr::T_TXT && r.rdata.len() > 1 {
                                let t = String::from_utf8_lossy(&r.rdata[1..]).into_owned();
                                if t == want {
                                    return Ok(());
                                }
                                last = t;
                            }
                        }
                        if d.answers.is_empty() {
                            last = format!("rcode {}", d.header.rcode);
                        }
                    }
                }
            }
            std::thread::sleep(Duration::from_millis(3));
        }
        Err(format!("the sentinel zone never reported {want} (last: {last})"))
    }
}

fn free_port() -> Option<u16> {
    // a port that is free for TCP and for UDP (the UDP port of the same number may be taken)
    for _ in 0..200 {
        let Ok(l) = std::net::TcpListener::bind((Ipv4Addr::LOCALHOST, 0)) else { continue };
        let Ok(addr) = l.local_addr() else { continue };
        if UdpSocket::bind((Ipv4Addr::LOCALHOST, addr.port())).is_ok() {
            return Some(addr.port());
        }
    }
    None
}

fn infra(msg: &str) -> ! {
    eprintln!("INFRA: {msg}");
    std::process::exit(2);
}

static DIR_COUNTER: AtomicU64 = AtomicU64::new(0);

struct WorkDir(PathBuf);

impl Drop for WorkDir {
    fn drop(&mut self) {
        let _ = fs::remove_dir_all(&self.0);
    }
}

////////////////////////////////////////////////////////////////////////
// ORACLE                                                             //
////////////////////////////////////////////////////////////////////////

fn write_config(dir: &Path, port: u16, tokio: bool, zones: &[(String, PathBuf)]) -> std::io::Result<()> {
    let mut t = format!("bind = \"127.0.0.1:{port}\"\n\n[io]\n");
    if tokio {
        t.push_str("provider = \"tokio\"\n");
    } else {
        t.push_str("provider = \"blocking\"\ntcp_base_workers = 1\ntcp_worker_linger = 1\nudp_workers_per_socket = 1\n");
    }
    for (name, path) in zones {
        t.push_str(&format!("\n[[zones]]\nname = \"{name}\"\npath = \"{}\"\n", path.file_name().unwrap().to_string_lossy()));
    }
    // written to a temporary name and renamed, so that the daemon never reads half a file
    let tmp = dir.join("config.toml.tmp");
    fs::write(&tmp, t)?;
    fs::rename(tmp, dir.join("config.toml"))
}

pub fn oracle(case: &Case, st: &mut Stats) -> Verdict {
    if !Path::new(DAEMON).exists() {
        infra("the daemon binary has not been built (scripts/run_C31.sh builds it)");
    }
    let n = DIR_COUNTER.fetch_add(1, Ordering::SeqCst);
    let token = format!("{}-{n}", std::process::id());
    let dir = PathBuf::from(format!("{WORK}/{}-{n}", std::process::id()));
    let _ = fs::remove_dir_all(&dir);
    if let Err(e) = fs::create_dir_all(&dir) {
        infra(&format!("cannot create {}: {e}", dir.display()));
    }
    let _cleanup = WorkDir(dir.clone());

    let mut clock = Clock { base: SystemTime::now() - Duration::from_secs(100_000), ticks: 0 };
    let mut disk: Vec<Option<DiskFile>> = vec![None; UNIVERSE.len()];
    let mut paths: Vec<PathBuf> = UNIVERSE.iter().enumerate().map(|(i, _)| dir.join(format!("zone{i}.zone"))).collect();
    let mut version: u32 = 0;
    let mut renames = 0u32;
    // is the file that zone i's main file may include present and good?
    let mut include_ok = vec![false; UNIVERSE.len()];
    let mut cured_by_include_alone = false;
    let mut prev: MCat = MCat::new();
    let mut daemon: Option<Daemon> = None;
    let mut nested_failure_while_parent_changes = false;
    let mut kinds_seen: BTreeMap<&'static str, u64> = BTreeMap::new();

    for (k, step) in case.steps.iter().enumerate() {
        // 1. apply the file actions
        let mut changed_valid = vec![false; UNIVERSE.len()];
        let mut failing = vec![false; UNIVERSE.len()];
        for (i, zs) in step.zones.iter().enumerate() {
            let zone = UNIVERSE[i];
            let io = |r: std::io::Result<()>| {
                if let Err(e) = r {
                    infra(&format!("file operation failed: {e}"));
                }
            };
            match &zs.action {
                Action::Keep => {}
                Action::Valid => {
                    version += 1;
                    io(write_with_mtime(&paths[i], &valid_zone_text(zone, version), clock.next()));
                    disk[i] = Some(DiskFile { path: paths[i].clone(), content: Content::Valid(version) });
                    changed_valid[i] = true;
                }
                Action::Touch => {
                    if disk[i].is_some() {
                        let f = fs::OpenOptions::new().write(true).open(&paths[i]);
                        match f {
                            Ok(f) => io(f.set_modified(clock.next())),
                            Err(e) => infra(&format!("touch failed: {e}")),
                        }
                    }
                }
                Action::Broken(v) => {
                    version += 1;
                    io(write_with_mtime(&paths[i], &broken_zone_text(zone, version, *v), clock.next()));
                    disk[i] = Some(DiskFile { path: paths[i].clone(), content: Content::Bad });
                }
                Action::Invalid(v) => {
                    version += 1;
                    io(write_with_mtime(&paths[i], &invalid_zone_text(zone, version, *v), clock.next()));
                    disk[i] = Some(DiskFile { path: paths[i].clone(), content: Content::Bad });
                }
                Action::Delete => {
                    if disk[i].is_some() {
                        io(fs::remove_file(&paths[i]));
                        disk[i] = None;
                    }
                }
                Action::IncludeMain => {
                    version += 1;
                    let text = format!("{}$INCLUDE inc{i}.zone\n", valid_zone_text(zone, version));
                    io(write_with_mtime(&paths[i], &text, clock.next()));
                    disk[i] = Some(DiskFile { path: paths[i].clone(), content: Content::ValidWithInclude(version) });
                    changed_valid[i] = include_ok[i];
                }
                Action::IncludeFix => {
                    io(write_with_mtime(&dir.join(format!("inc{i}.zone")), "included IN TXT \"from the included file\"\n", clock.next()));
                    if !include_ok[i] && matches!(disk[i], Some(DiskFile { content: Content::ValidWithInclude(_), .. })) && step.zones[i].configured {
                        // the zone's own file stays as it is; only what it includes is repaired
                        if !matches!(prev.get(zone), Some(MEntry::Loaded(_))) {
                            cured_by_include_alone = true;
                        }
                    }
                    include_ok[i] = true;
                }
                Action::IncludeBreak => {
                    let _ = fs::remove_file(dir.join(format!("inc{i}.zone")));
                    include_ok[i] = false;
                }
                Action::Rename => {
                    if let Some(f) = disk[i].clone() {
                        renames += 1;
                        let new = dir.join(format!("zone{i}-r{renames}.zone"));
                        io(fs::rename(&paths[i], &new));
                        paths[i] = new.clone();
                        disk[i] = Some(DiskFile { path: new, ..f });
                    }
                }
            }
        }
        // 2. the configuration, in the generated order, plus the sentinel
        let mut configured: Vec<usize> = (0..UNIVERSE.len()).filter(|i| step.zones[*i].configured).collect();
        configured.sort_by_key(|i| (step.order.get(*i).copied().unwrap_or(0), *i));
        let sentinel_path = dir.join("sentinel.zone");
        if let Err(e) = write_with_mtime(&sentinel_path, &sentinel_text(k, &token), clock.next()) {
            infra(&format!("cannot write the sentinel zone: {e}"));
        }
        let mut zones: Vec<(String, PathBuf)> = configured.iter().map(|i| (UNIVERSE[*i].to_string(), paths[*i].clone())).collect();
        let sentinel_pos = (step.order.iter().map(|x| *x as usize).sum::<usize>()) % (zones.len() + 1);
        zones.insert(sentinel_pos, (SENTINEL.to_string(), sentinel_path));

        // 3. the model
        let mut next: MCat = MCat::new();
        for i in &configured {
            let zone = UNIVERSE[*i].to_string();
            let e = match &disk[*i] {
                Some(DiskFile { content: Content::Valid(v), .. }) => MEntry::Loaded(*v),
                // (a zone that is being served from version v keeps doing so whether the daemon skips
                // the unchanged main file, reloads it successfully, or fails and falls back)
                Some(DiskFile { content: Content::ValidWithInclude(v), .. }) if include_ok[*i] || prev.get(&zone) == Some(&MEntry::Loaded(*v)) => MEntry::Loaded(*v),
                _ => {
                    failing[*i] = true;
                    match prev.get(&zone) {
                        Some(p) => p.clone(),
                        None => MEntry::Failed,
                    }
                }
            };
            next.insert(zone, e);
        }
        // non-triviality: a nested zone fails while an ancestor zone changes in the same step
        for i in &configured {
            if failing[*i] {
                for j in &configured {
                    if j != i && changed_valid[*j] && UNIVERSE[*i].ends_with(&format!(".{}", UNIVERSE[*j])) {
                        nested_failure_while_parent_changes = true;
                    }
                }
            }
        }

        // 4. start or reload
        let mut started_now = false;
        if daemon.is_none() {
            let mut up = None;
            for _ in 0..6 {
                let port = match free_port() {
                    Some(p) => p,
                    None => infra("no free loopback port"),
                };
                if let Err(e) = write_config(&dir, port, case.tokio, &zones) {
                    infra(&format!("cannot write the configuration: {e}"));
                }
                let log = fs::File::create(dir.join("daemon.log")).ok();
                let mut command = Command::new(DAEMON);
                // the daemon must not outlive the checker, whatever happens to the checker
                unsafe {
                    use std::os::unix::process::CommandExt;
                    command.pre_exec(|| {
                        libc::prctl(libc::PR_SET_PDEATHSIG, libc::SIGKILL);
                        Ok(())
                    });
                }
                let child = command
                    .arg("run")
                    .arg("--config")
                    .arg(dir.join("config.toml"))
                    .env("RUST_LOG", "error")
                    .stdin(Stdio::null())
                    .stdout(Stdio::null())
                    .stderr(log.map(Stdio::from).unwrap_or_else(Stdio::null))
                    .spawn();
                let child = match child {
                    Ok(c) => c,
                    Err(e) => infra(&format!("cannot start {DAEMON}: {e}")),
                };
                let sock = match UdpSocket::bind((Ipv4Addr::LOCALHOST, 0)) {
                    Ok(s) => s,
                    Err(e) => infra(&format!("cannot bind a client socket: {e}")),
                };
                let _ = sock.set_read_timeout(Some(Duration::from_millis(10)));
                let mut d = Daemon { child, port, sock };
                match d.wait_for_step(k, &token, Duration::from_secs(15)) {
                    Ok(()) => {
                        up = Some(d);
                        break;
                    }
                    Err(e) => {
                        // most likely the port was taken between probing and binding
                        st.discard("daemon-start-retried");
                        let _ = e;
                    }
                }
            }
            match up {
                Some(d) => daemon = Some(d),
                None => {
                    let log = fs::read_to_string(dir.join("daemon.log")).unwrap_or_default();
                    infra(&format!("the daemon did not come up in six attempts; its log:\n{log}"));
                }
            }
            started_now = true;
        }
        let d = daemon.as_mut().unwrap();
        if !started_now {
            if let Err(e) = write_config(&dir, d.port, case.tokio, &zones) {
                infra(&format!("cannot write the configuration: {e}"));
            }
            // SAFETY: plain kill(2) on our own child
            unsafe {
                libc::kill(d.child.id() as i32, libc::SIGHUP);
            }
            if let Err(e) = d.wait_for_step(k, &token, Duration::from_secs(20)) {
                let log = fs::read_to_string(dir.join("daemon.log")).unwrap_or_default();
                if e.starts_with("the daemon exited") {
                    fail!("daemon-died-on-reload", "step {k}: {e}; log:\n{log}");
                }
                infra(&format!("step {k}: {e}; log:\n{log}"));
            }
        }

        // 5. probes
        let d = daemon.as_ref().unwrap();
        let describe = |next: &MCat| format!("step {k}; previous catalog {prev:?}; expected catalog {next:?}; configuration order {:?}", zones.iter().map(|z| z.0.clone()).collect::<Vec<_>>());
        let mut id = 0x3100u16 + (k as u16) * 64;
        for zone in UNIVERSE {
            for (label, has_data) in [("", true), ("www.", true), ("nonexistent.", false)] {
                st.eval();
                id = id.wrapping_add(1);
                let probe = format!("{label}{zone}");
                // data exists at the apex and at www of the zone that answers, not elsewhere
                let exp = expect_for(&next, &probe, |z| has_data && z == zone);
                let ans = match d.query(id, &probe, mr::T_TXT) {
                    Some(a) => a,
                    None => {
                        // four attempts without a reply: the daemon is gone or wedged
                        let log = fs::read_to_string(dir.join("daemon.log")).unwrap_or_default();
                        fail!("probe-unanswered", "{}: the probe {probe} TXT was sent four times and never answered; log:\n{log}", describe(&next));
                    }
                };
                let kind = match &exp {
                    Expect::Refused => "expect-refused",
                    Expect::ServFail => "expect-servfail",
                    Expect::Data(..) => "expect-data",
                    Expect::Negative(..) => "expect-negative-from-enclosing-zone",
                };
                *kinds_seen.entry(kind).or_insert(0) += 1;
                let got = format!("RCODE {} AA {} TXT {:?} SOA {:?}", ans.rcode, ans.aa, ans.txt, ans.soa);
                match &exp {
                    Expect::Refused => ensure!(
                        ans.rcode == 5,
                        "served-although-not-configured",
                        "{}: probe {probe}: no configured zone covers it, so REFUSED is expected, got {got}",
                        describe(&next)
                    ),
                    Expect::ServFail => ensure!(
                        ans.rcode == 2,
                        "failed-zone-not-servfail",
                        "{}: probe {probe}: its zone has never loaded, so SERVFAIL is expected, got {got}",
                        describe(&next)
                    ),
                    Expect::Data(z, v) => {
                        let want = format!("z={z} v={v}");
                        ensure!(
                            ans.rcode == 0 && ans.txt == vec![want.clone()],
                            "wrong-zone-data",
                            "{}: probe {probe}: expected TXT {want:?}, got {got}",
                            describe(&next)
                        );
                    }
                    Expect::Negative(z, v) => ensure!(
                        ans.rcode == 3 && ans.soa == Some((z.to_ascii_lowercase(), *v)),
                        "wrong-zone-data",
                        "{}: probe {probe}: expected a negative answer from {z} version {v}, got {got}",
                        describe(&next)
                    ),
                }
            }
        }
        prev = next;
    }
    for (k, v) in kinds_seen {
        st.class_n(k, v);
    }
    st.class_n("steps", case.steps.len() as u64);
    if case.tokio {
        st.class("histories-with-the-tokio-provider");
    }
    if cured_by_include_alone {
        st.class("zone-not-being-served-is-cured-by-repairing-only-the-file-it-includes");
    }
    if nested_failure_while_parent_changes {
        st.nontrivial(case, || json!({"steps": case.steps.len(), "note": "a nested zone fails to load in a step in which an enclosing zone gets a new valid version"}));
    }
    Ok(())
}

pub fn run(ctx: &Ctx, report: &mut Report) {
    report.rule = "histories with a step in which a nested zone fails to load (broken, invalid or missing file) while an enclosing configured zone gets a new valid version".to_string();
    report.assumptions = vec![
        "the daemon is the real quandaryd built from /repo's working tree into /verif/.target-daemon; one fresh process per history".to_string(),
        "file modification times are set explicitly and strictly increase with every write, so 'unchanged' means untouched".to_string(),
        "the sentinel zone (TXT = step number) becomes visible only with the new catalog, because the daemon swaps catalogs atomically".to_string(),
        "evaluations = UDP probes judged (15 per step)".to_string(),
    ];
    let _ = fs::create_dir_all(WORK);
    let cases = ctx.tier.pick(320, 8000);
    run_prop(ctx, report, PropSpec { name: "reload-history", cases, max_shrink_iters: 200 }, case_strategy, oracle);
    // a zone file replaced while the daemon is loading it (see c31r.rs)
    run_prop(ctx, report, PropSpec { name: "reload-race", cases: ctx.tier.pick(48, 800), max_shrink_iters: 12 }, race::race_case, race::oracle_race);
    let _ = fs::remove_dir_all(format!("{WORK}"));
}

pub fn replay(check: &str, case: &serde_json::Value) -> Verdict {
    let _ = fs::create_dir_all(WORK);
    if check == "reload-race" {
        return replay_case::<race::RaceCase, _>(case, race::oracle_race);
    }
    replay_case::<Case, _>(case, oracle)
}

#[allow(dead_code)]
fn unused(_: Fail) {}
