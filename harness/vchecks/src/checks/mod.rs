use crate::fw::{Ctx, Report, Verdict};

pub mod c14;
pub mod c16;
pub mod c17;

pub struct Entry {
    pub run: fn(&Ctx, &mut Report),
    pub replay: fn(&str, &serde_json::Value) -> Verdict,
}

pub fn lookup(id: &str) -> Option<Entry> {
    macro_rules! e {
        ($m:ident) => {
            Some(Entry {
                run: $m::run,
                replay: $m::replay,
            })
        };
    }
    match id {
        "C14" => e!(c14),
        "C16" => e!(c16),
        "C17" => e!(c17),
        _ => None,
    }
}
