use crate::fw::{Ctx, Report, Verdict};

pub mod c04;
pub mod c05;
pub mod c23;
pub mod c25;
pub mod c26;
pub mod c30;
pub mod c30bp;
pub mod c31;
pub mod stress;
pub mod srvchk;
pub mod c10;
pub mod c11;
pub mod c12;
pub mod c14;
pub mod c15;
pub mod c16;
pub mod c17;
pub mod c18;
pub mod c19;
pub mod c20;
pub mod c21;
pub mod c22;

pub struct Entry {
    pub run: fn(&Ctx, &mut Report),
    pub replay: fn(&str, &serde_json::Value) -> Verdict,
}

pub fn lookup(id: &str) -> Option<Entry> {
    macro_rules! e {
        ($m:ident) => {
            Some(Entry {
                run: $m::run,
                replay: $m::replay,
            })
        };
    }
    match id {
        "C01" | "C02" | "C03" | "C08" | "C09" => e!(srvchk),
        "C04" => e!(c04),
        "C05" => e!(c05),
        "C07" => e!(c05),
        "C10" => e!(c10),
        "C11" => e!(c11),
        "C12" => e!(c12),
        "C13" => e!(c12),
        "C14" => e!(c14),
        "C15" => e!(c15),
        "C16" => e!(c16),
        "C17" => e!(c17),
        "C18" => e!(c18),
        "C19" => e!(c19),
        "C20" => e!(c20),
        "C06" => e!(c20),
        "C21" => e!(c21),
        "C22" => e!(c22),
        "C23" | "C24" => e!(c23),
        "C25" => e!(c25),
        "C26" | "C27" => e!(c26),
        "C30" => e!(c30),
        "C31" => e!(c31),
        "C28S" | "C32S" => e!(stress),
        _ => None,
    }
}
