use crate::fw::{Ctx, Report, Verdict};

pub mod c17;

pub struct Entry {
    pub run: fn(&Ctx, &mut Report),
    pub replay: fn(&str, &serde_json::Value) -> Verdict,
}

pub fn lookup(id: &str) -> Option<Entry> {
    macro_rules! e {
        ($m:ident) => {
            Some(Entry {
                run: $m::run,
                replay: $m::replay,
            })
        };
    }
    match id {
        "C17" => e!(c17),
        _ => None,
    }
}
