//! C31, sub-check `reload-race`: a zone file that is replaced *while* the daemon
//! is loading it. One zone; version 2 is made large (tens of thousands of
//! records) so that loading it takes a while; SIGHUP; a few milliseconds later
//! the file is replaced by the small version 3 (newer modification time). When
//! that reload has finished (sentinel) the zone may be served from version 2 or
//! from version 3 — which one is a race the harness does not own, both are
//! accepted and counted. Then a second SIGHUP follows without touching the zone
//! file: version 3 is on disk, loads and validates, so after that reload the
//! zone must be served from version 3 ("served from its newly loaded data if
//! its file loaded and validated"), whatever the first reload did.

use super::*;

#[derive(Clone, Debug, Serialize, Deserialize, PartialEq, Eq, Hash)]
pub struct RaceCase {
    /// filler records in the large version (thousands)
    pub filler_k: u8,
    /// milliseconds between SIGHUP and the replacement
    pub delay_ms: u8,
    pub tokio: bool,
    /// the replacement is written in place (false) or renamed over the file (true)
    pub rename: bool,
}

const ZONE: &str = "race.test.";

fn zone_text(version: u32, filler: usize) -> String {
    let mut t = valid_zone_text(ZONE, version);
    for i in 0..filler {
        t.push_str(&format!("f{i} IN TXT \"filler {i} of version {version}\"\n"));
    }
    t
}

fn start_daemon(dir: &Path, tokio: bool, zones: &[(String, PathBuf)], step: usize, token: &str, st: &mut Stats) -> Daemon {
    for _ in 0..6 {
        let port = match free_port() {
            Some(p) => p,
            None => infra("no free loopback port"),
        };
        if let Err(e) = write_config(dir, port, tokio, zones) {
            infra(&format!("cannot write the configuration: {e}"));
        }
        let log = fs::File::create(dir.join("daemon.log")).ok();
        let mut command = Command::new(DAEMON);
        unsafe {
            use std::os::unix::process::CommandExt;
            command.pre_exec(|| {
                libc::prctl(libc::PR_SET_PDEATHSIG, libc::SIGKILL);
                Ok(())
            });
        }
        let child = command
            .arg("run")
            .arg("--config")
            .arg(dir.join("config.toml"))
            .env("RUST_LOG", "error")
            .stdin(Stdio::null())
            .stdout(Stdio::null())
            .stderr(log.map(Stdio::from).unwrap_or_else(Stdio::null))
            .spawn();
        let child = match child {
            Ok(c) => c,
            Err(e) => infra(&format!("cannot start {DAEMON}: {e}")),
        };
        let sock = match UdpSocket::bind((Ipv4Addr::LOCALHOST, 0)) {
            Ok(s) => s,
            Err(e) => infra(&format!("cannot bind a client socket: {e}")),
        };
        let _ = sock.set_read_timeout(Some(Duration::from_millis(10)));
        let mut d = Daemon { child, port, sock };
        if d.wait_for_step(step, token, Duration::from_secs(15)).is_ok() {
            return d;
        }
        st.discard("daemon-start-retried");
    }
    let log = fs::read_to_string(dir.join("daemon.log")).unwrap_or_default();
    infra(&format!("the daemon did not come up in six attempts; its log:\n{log}"));
}

fn served_version(d: &Daemon, id: u16) -> Result<Option<u32>, String> {
    let a = d.query(id, ZONE, mr::T_TXT).ok_or("the probe was never answered")?;
    if a.rcode != 0 {
        return Ok(None);
    }
    let prefix = format!("z={ZONE} v=");
    Ok(a.txt.iter().find_map(|t| t.strip_prefix(&prefix).and_then(|v| v.parse().ok())))
}

pub fn oracle_race(case: &RaceCase, st: &mut Stats) -> Verdict {
    if !Path::new(DAEMON).exists() {
        infra("the daemon binary has not been built (scripts/run_C31.sh builds it)");
    }
    let n = DIR_COUNTER.fetch_add(1, Ordering::SeqCst);
    let token = format!("{}-r{n}", std::process::id());
    let dir = PathBuf::from(format!("{WORK}/{}-r{n}", std::process::id()));
    let _ = fs::remove_dir_all(&dir);
    if let Err(e) = fs::create_dir_all(&dir) {
        infra(&format!("cannot create {}: {e}", dir.display()));
    }
    let _cleanup = WorkDir(dir.clone());
    let mut clock = Clock { base: SystemTime::now() - Duration::from_secs(100_000), ticks: 0 };
    let io = |r: std::io::Result<()>| {
        if let Err(e) = r {
            infra(&format!("file operation failed: {e}"));
        }
    };
    let zone_path = dir.join("race.zone");
    let sentinel_path = dir.join("sentinel.zone");
    let zones = vec![(ZONE.to_string(), zone_path.clone()), (SENTINEL.to_string(), sentinel_path.clone())];
    // step 0: version 1
    io(write_with_mtime(&zone_path, &zone_text(1, 0), clock.next()));
    io(write_with_mtime(&sentinel_path, &sentinel_text(0, &token), clock.next()));
    let mut d = start_daemon(&dir, case.tokio, &zones, 0, &token, st);
    match served_version(&d, 0x3180) {
        Ok(Some(1)) => {}
        other => fail!("wrong-zone-data", "after start-up the zone is served as {other:?}, expected version 1"),
    }
    // step 1: the large version 2, SIGHUP, and the small version 3 shortly afterwards
    let filler = (case.filler_k as usize).max(1) * 1000;
    io(write_with_mtime(&zone_path, &zone_text(2, filler), clock.next()));
    io(write_with_mtime(&sentinel_path, &sentinel_text(1, &token), clock.next()));
    unsafe {
        libc::kill(d.child.id() as i32, libc::SIGHUP);
    }
    std::thread::sleep(Duration::from_millis(case.delay_ms as u64));
    let t3 = clock.next();
    if case.rename {
        let tmp = dir.join("race.zone.new");
        io(write_with_mtime(&tmp, &zone_text(3, 0), t3));
        io(fs::rename(&tmp, &zone_path));
    } else {
        io(write_with_mtime(&zone_path, &zone_text(3, 0), t3));
    }
    let reload_failed = |d: &mut Daemon, step: usize, e: String| -> Fail {
        let log = fs::read_to_string(dir.join("daemon.log")).unwrap_or_default();
        if e.starts_with("the daemon exited") {
            Fail::new("daemon-died-on-reload", format!("step {step}: {e}; log:\n{log}"))
        } else {
            let _ = d;
            infra(&format!("step {step}: {e}; log:\n{log}"))
        }
    };
    if let Err(e) = d.wait_for_step(1, &token, Duration::from_secs(60)) {
        return Err(reload_failed(&mut d, 1, e));
    }
    st.eval();
    let first = match served_version(&d, 0x3181) {
        Ok(v) => v,
        Err(e) => fail!("probe-unanswered", "after the first reload: {e}"),
    };
    // a file caught half written fails to load: the zone then keeps version 1
    match first {
        Some(1) => st.class("first-reload-kept-version-1 (file caught while being rewritten)"),
        Some(2) => st.class("first-reload-loaded-the-large-version-2 (replaced during or after the load)"),
        Some(3) => st.class("first-reload-loaded-the-replacement-3 (replaced before the load)"),
        other => fail!("wrong-zone-data", "after the first reload the zone is served as {other:?}; versions 1, 2 and 3 are the only possibilities"),
    }
    // step 2: another reload, nothing touched but the sentinel: version 3 is on disk and valid
    io(write_with_mtime(&sentinel_path, &sentinel_text(2, &token), clock.next()));
    unsafe {
        libc::kill(d.child.id() as i32, libc::SIGHUP);
    }
    if let Err(e) = d.wait_for_step(2, &token, Duration::from_secs(60)) {
        return Err(reload_failed(&mut d, 2, e));
    }
    st.eval();
    let second = match served_version(&d, 0x3182) {
        Ok(v) => v,
        Err(e) => fail!("probe-unanswered", "after the second reload: {e}"),
    };
    ensure!(
        second == Some(3),
        "newer-valid-file-not-loaded",
        "the zone file was replaced by version 3 {} ms after a SIGHUP (the daemon then served version {first:?}); a further reload, with version 3 valid on disk and untouched since, still serves {second:?}",
        case.delay_ms
    );
    if first == Some(2) {
        st.nontrivial(case, || json!({"filler_records": filler, "delay_ms": case.delay_ms, "first_reload_served": 2, "second_reload_served": 3}));
    }
    Ok(())
}

pub fn race_case() -> impl Strategy<Value = RaceCase> {
    (prop_oneof![Just(20u8), Just(60u8), 5u8..120], prop_oneof![Just(0u8), Just(2u8), Just(5u8), Just(10u8), Just(25u8), 0u8..80], prop::bool::weighted(0.2), any::<bool>()).prop_map(|(filler_k, delay_ms, tokio, rename)| RaceCase { filler_k, delay_ms, tokio, rename })
}
