//! C20 — the zone store holds exactly the records added to it, and
//! C06 — zone lookups follow RFC 1034 and RFC 4592 (oracle: vmodel::zone::MZone).

use std::collections::{BTreeMap, BTreeSet};

use proptest::prelude::*;
use quandary::class::Class;
use quandary::db::zone::{GluePolicy, LookupAddrsResult, LookupAllResult, LookupOptions, LookupResult, SingleRrset};
use quandary::db::{Error as DbError, HashMapTreeZone, Zone};
use quandary::name::Name;
use quandary::rr::{Rdata, Ttl, Type};
use serde::{Deserialize, Serialize};
use serde_json::json;
use vmodel::name::MName;
use vmodel::rdata as mr;
use vmodel::zone::{AddError, Base, Lookup, MRrset, MZone};

use crate::fw::{catch, panic_signature, run_prop, Ctx, Fail, PropSpec, Report, Stats, Verdict};
use crate::gen::{flip_case, pick};
use crate::{ensure, fail};

fn hex(b: &[u8]) -> String {
    b.iter().map(|x| format!("{x:02x}")).collect()
}

pub fn qn(m: &MName) -> Box<Name> {
    Name::try_from_uncompressed_all(&m.wire()).unwrap()
}

fn mn(n: &Name) -> MName {
    MName::from_wire(n.wire_repr()).unwrap().0
}

#[derive(Clone, Debug, Serialize, Deserialize, PartialEq, Eq, Hash)]
pub struct AddOp {
    /// labels prepended to the apex (or an absolute out-of-zone name if `outside`)
    pub rel: Vec<Vec<u8>>,
    pub outside: bool,
    pub mask: u64,
    pub rtype: u16,
    pub class_ok: bool,
    pub ttl: u32,
    pub rdata: Vec<u8>,
}

#[derive(Clone, Debug, Serialize, Deserialize, PartialEq, Eq, Hash)]
pub struct ZoneCase {
    pub apex: MName,
    pub class: u16,
    pub adds: Vec<AddOp>,
    /// extra probe names (relative label lists) besides those derived from the zone
    pub probes: Vec<Vec<Vec<u8>>>,
}

pub fn owner_of(case: &ZoneCase, a: &AddOp) -> MName {
    let base = if a.outside && a.rel.len() % 2 == 1 && !case.apex.labels.is_empty() {
        // an out-of-zone owner whose wire form ENDS with the apex's wire form: the label in
        // front of the apex's tail contains the length octet and the text of the apex's first label
        confusable_with(&case.apex, &a.rel)
    } else if a.outside {
        MName { labels: a.rel.clone() }
    } else {
        let mut labels = a.rel.clone();
        labels.extend(case.apex.labels.iter().cloned());
        MName { labels }
    };
    let n = flip_case(&base, a.mask);
    if n.is_valid() {
        n
    } else {
        case.apex.clone()
    }
}

/// `front` labels, then one label made of 'x', the length octet of the apex's first label and
/// that label's text, then the rest of the apex: not at or below the apex, same wire tail.
pub fn confusable_with(apex: &MName, front: &[Vec<u8>]) -> MName {
    let mut labels: Vec<Vec<u8>> = front.to_vec();
    let mut l = vec![b'x', apex.labels[0].len() as u8];
    l.extend_from_slice(&apex.labels[0]);
    labels.push(l);
    labels.extend(apex.labels[1..].iter().cloned());
    MName { labels }
}

fn rrset_eq(got: &SingleRrset, want: &MRrset) -> bool {
    u32::from(got.ttl) == want.ttl && got.rdatas.iter().map(|r| r.octets().to_vec()).collect::<Vec<_>>() == want.rdatas
}

fn show_rrset(r: &SingleRrset) -> String {
    format!("ttl {} [{}]", u32::from(r.ttl), r.rdatas.iter().map(|r| hex(r.octets())).collect::<Vec<_>>().join(","))
}

fn show_m(r: &MRrset) -> String {
    format!("ttl {} [{}]", r.ttl, r.rdatas.iter().map(|r| hex(r)).collect::<Vec<_>>().join(","))
}

/// Snapshot of everything observable through iteration: owner -> type -> (ttl, rdatas).
type Snapshot = BTreeMap<MName, BTreeMap<u16, (u32, Vec<Vec<u8>>)>>;

fn snapshot_iter(zone: &HashMapTreeZone) -> Result<(Snapshot, usize), String> {
    let mut snap: Snapshot = BTreeMap::new();
    let mut nodes = 0usize;
    for (name, rrsets) in zone.iter_by_node() {
        nodes += 1;
        let key = mn(name).folded();
        if snap.contains_key(&key) {
            return Err(format!("iter_by_node yields node {} twice", mn(name)));
        }
        let e = snap.entry(key).or_default();
        for rs in rrsets {
            if e.insert(u16::from(rs.rr_type), (u32::from(rs.ttl), rs.rdatas.iter().map(|r| r.octets().to_vec()).collect())).is_some() {
                return Err(format!("node {} yields type {:?} twice", mn(name), rs.rr_type));
            }
        }
    }
    Ok((snap, nodes))
}

fn model_snapshot(m: &MZone) -> Snapshot {
    let mut snap: Snapshot = BTreeMap::new();
    for n in m.all_names() {
        let e = snap.entry(n.clone()).or_default();
        if let Some(node) = m.node(&n) {
            for (t, rs) in &node.rrsets {
                e.insert(*t, (rs.ttl, rs.rdatas.clone()));
            }
        }
    }
    snap
}

/// Builds the quandary zone and the model from the adds, checking every add's
/// outcome; with `deep` the full observable state is compared after rejected adds.
pub fn build(case: &ZoneCase, st: &mut Stats, deep: bool) -> Result<(HashMapTreeZone, MZone, usize), Fail> {
    let mut zone = HashMapTreeZone::new(qn(&case.apex), Class::from(case.class), GluePolicy::Narrow);
    let mut model = MZone::new(case.apex.clone(), case.class);
    let mut rejected = 0usize;
    for (i, a) in case.adds.iter().enumerate() {
        let owner = owner_of(case, a);
        let class = if a.class_ok { case.class } else { case.class.wrapping_add(2) };
        let rd: &Rdata = a.rdata.as_slice().try_into().unwrap();
        if !deep {
            // C06 only uses zones built from accepted adds: the documentation of `add` warns against
            // using a zone after a failed add, and acceptance itself is C20's subject.
            let ttl = if a.ttl > i32::MAX as u32 { 0 } else { a.ttl };
            let mut probe = model.clone();
            if probe.add(&owner, a.rtype, class, ttl, &a.rdata).is_err() {
                st.discard("add-rejected-by-reference");
                continue;
            }
        }
        let before = if deep { Some(snapshot_iter(&zone).map_err(|e| Fail::new("iter-duplicate", e))?) } else { None };
        let got = match catch(|| zone.add(&qn(&owner), Type::from(a.rtype), Class::from(class), Ttl::from(a.ttl), rd)) {
            Ok(r) => r,
            Err(p) => return Err(Fail::new(panic_signature(&p), format!("add #{i} panicked: {p}"))),
        };
        let want = model.add(&owner, a.rtype, class, if a.ttl > i32::MAX as u32 { 0 } else { a.ttl }, &a.rdata);
        st.eval();
        match (&got, &want) {
            (Ok(()), Ok(())) => {}
            (Err(e), Err(w)) => {
                rejected += 1;
                let same = matches!(
                    (e, w),
                    (DbError::NotInZone, AddError::NotInZone) | (DbError::ClassMismatch, AddError::ClassMismatch) | (DbError::TtlMismatch, AddError::TtlMismatch)
                );
                if !same {
                    return Err(Fail::new("add-error-kind", format!("add #{i} ({owner} type {} class {class} ttl {}) failed with {e:?}, reference {w:?}", a.rtype, a.ttl)));
                }
                if let Some((snap_before, _)) = before {
                    let (snap_after, _) = snapshot_iter(&zone).map_err(|e| Fail::new("iter-duplicate", e))?;
                    if snap_before != snap_after {
                        return Err(Fail::new("rejected-add-changed-zone", format!("add #{i} ({owner} type {} class {class} ttl {}) was rejected with {e:?} but iteration changed", a.rtype, a.ttl)));
                    }
                }
            }
            (Ok(()), Err(w)) => return Err(Fail::new("add-accepts-invalid", format!("add #{i} ({owner} type {} class {class} ttl {}) succeeded, reference rejects with {w:?}", a.rtype, a.ttl))),
            (Err(e), Ok(())) => return Err(Fail::new("add-rejects-valid", format!("add #{i} ({owner} type {} class {class} ttl {}) failed with {e:?}, reference accepts", a.rtype, a.ttl))),
        }
    }
    Ok((zone, model, rejected))
}

////////////////////////////////////////////////////////////////////////
// C20                                                                //
////////////////////////////////////////////////////////////////////////

pub fn oracle_store(case: &ZoneCase, st: &mut Stats) -> Verdict {
    let (zone, model, rejected) = build(case, st, true)?;
    // iteration: every node once (empty non-terminals and the apex included), exactly the de-duplicated RRsets
    let (snap, nodes) = match catch(|| snapshot_iter(&zone)) {
        Ok(Ok(s)) => s,
        Ok(Err(e)) => fail!("iter-duplicate", "{e}"),
        Err(p) => fail!(panic_signature(&p), "iter_by_node panicked: {p}"),
    };
    let want = model_snapshot(&model);
    let ents = want.values().filter(|v| v.is_empty()).count();
    if snap != want {
        let missing: Vec<String> = want.keys().filter(|k| !snap.contains_key(*k)).map(|k| k.to_text()).collect();
        let extra: Vec<String> = snap.keys().filter(|k| !want.contains_key(*k)).map(|k| k.to_text()).collect();
        let differ: Vec<String> = want.iter().filter(|(k, v)| snap.get(*k).map_or(false, |s| s != *v)).map(|(k, _)| k.to_text()).collect();
        fail!(
            if !missing.is_empty() { "iter-missing-node" } else if !extra.is_empty() { "iter-extra-node" } else { "iter-wrong-rrsets" },
            "iter_by_node yields {nodes} nodes; missing nodes {missing:?}, unexpected nodes {extra:?}, nodes with different RRsets {differ:?}"
        );
    }
    // iter_by_rrset agrees with iter_by_node
    let mut by_rrset: BTreeSet<(MName, u16, u32, Vec<Vec<u8>>)> = BTreeSet::new();
    for (name, rs) in zone.iter_by_rrset() {
        let item = (mn(name).folded(), u16::from(rs.rr_type), u32::from(rs.ttl), rs.rdatas.iter().map(|r| r.octets().to_vec()).collect::<Vec<_>>());
        ensure!(by_rrset.insert(item.clone()), "iter-by-rrset-duplicate", "iter_by_rrset yields {} type {} twice", item.0, item.1);
    }
    let mut want_rrsets: BTreeSet<(MName, u16, u32, Vec<Vec<u8>>)> = BTreeSet::new();
    for (n, types) in &want {
        for (t, (ttl, rds)) in types {
            want_rrsets.insert((n.clone(), *t, *ttl, rds.clone()));
        }
    }
    ensure!(by_rrset == want_rrsets, "iter-by-rrset-mismatch", "iter_by_rrset yields {} RRsets, reference {}", by_rrset.len(), want_rrsets.len());
    // soa() / ns() agree with the apex node
    let apex_node = model.node(&case.apex);
    for (what, t, got) in [("soa", mr::T_SOA, zone.soa()), ("ns", mr::T_NS, zone.ns())] {
        let want = apex_node.and_then(|n| n.rrsets.get(&t));
        match (&got, want) {
            (Some(g), Some(w)) => ensure!(rrset_eq(g, w), "apex-accessor", "{what}() = {}, reference {}", show_rrset(g), show_m(w)),
            (None, None) => {}
            _ => fail!("apex-accessor", "{what}() is_some = {}, reference {}", got.is_some(), want.is_some()),
        }
    }
    // lookups of every stored RRset return it
    for (n, types) in &want {
        for (t, (ttl, rds)) in types {
            st.eval();
            let q = qn(n);
            let r = zone.lookup(&q, Type::from(*t), LookupOptions { unchecked: false, search_below_cuts: true });
            match r {
                LookupResult::Found(f) => ensure!(
                    u32::from(f.data.ttl) == *ttl && f.data.rdatas.iter().map(|r| r.octets().to_vec()).collect::<Vec<_>>() == *rds && f.source_of_synthesis.is_none(),
                    "stored-rrset-lookup",
                    "lookup({n}, type {t}) = {}",
                    show_rrset(&f.data)
                ),
                other => fail!("stored-rrset-lookup", "lookup({n}, type {t}) below cuts = {other:?}, but the RRset was added"),
            }
        }
    }
    ensure!(mn(zone.name()).eq_fold(&case.apex) && u16::from(zone.class()) == case.class, "zone-identity", "name()/class()");
    if rejected > 0 {
        st.class("with-rejected-add");
    }
    let widest = model.nodes.values().map(|n| n.rrsets.len()).max().unwrap_or(0);
    if widest >= 17 {
        st.class("node-with-17-or-more-RRsets");
    } else if widest >= 8 {
        st.class("node-with-8-to-16-RRsets");
    }
    if model.nodes.values().any(|n| n.rrsets.values().any(|rs| rs.rdatas.iter().any(|r| r.len() >= 32768))) {
        st.class("zone-holding-RDATA-of-32768-octets-or-more");
    }
    if ents > 0 {
        st.class("with-empty-non-terminal");
    }
    if rejected > 0 && ents > 0 {
        st.nontrivial(case, || json!({"apex": case.apex.to_text(), "adds": case.adds.len(), "rejected": rejected, "empty_non_terminals": ents}));
    }
    Ok(())
}

////////////////////////////////////////////////////////////////////////
// C06                                                                //
////////////////////////////////////////////////////////////////////////

fn src_eq(got: &Option<std::borrow::Cow<Name>>, want: &Option<MName>) -> bool {
    match (got, want) {
        (Some(g), Some(w)) => mn(g).eq_fold(w),
        (None, None) => true,
        _ => false,
    }
}

const LOOKUP_TYPES: [u16; 9] = [mr::T_A, mr::T_AAAA, mr::T_NS, mr::T_CNAME, mr::T_TXT, 99, 43, 47, 64];

pub fn oracle_lookup(case: &ZoneCase, st: &mut Stats) -> Verdict {
    let (zone, model, _) = build(case, st, false)?;
    // probe names: every existing name, plus each with one/two labels added (pool labels), plus parents, plus outside names
    let mut probes: BTreeSet<MName> = BTreeSet::new();
    let labels: [&[u8]; 6] = [b"a", b"b", b"*", b"www", b"ns", b"zz"];
    for n in model.all_names() {
        probes.insert(n.clone());
        for l in labels {
            let c = n.child(l);
            if c.is_valid() {
                probes.insert(c.clone());
                for l2 in [&b"a"[..], b"*", b"zz"] {
                    let c2 = c.child(l2);
                    if c2.is_valid() {
                        probes.insert(c2);
                    }
                }
            }
        }
    }
    for p in &case.probes {
        let mut labels = p.clone();
        labels.extend(case.apex.labels.iter().cloned());
        let n = MName { labels };
        if n.is_valid() {
            probes.insert(n);
        }
    }
    // names outside the zone (only legal for checked lookups)
    let mut outside: Vec<MName> = vec![MName { labels: vec![b"outside".to_vec()] }];
    if let Some(p) = case.apex.parent() {
        outside.push(p.clone());
        outside.push(p.child(b"sibling"));
    }
    if !case.apex.labels.is_empty() {
        outside.push(confusable_with(&case.apex, &[]));
        outside.push(confusable_with(&case.apex, &[b"www".to_vec()]));
    }
    let outside: Vec<MName> = outside.into_iter().filter(|n| n.is_valid() && !n.at_or_below(&case.apex)).collect();

    let mut kinds: BTreeSet<&'static str> = BTreeSet::new();
    for (pi, name) in probes.iter().chain(outside.iter()).enumerate() {
        let inside = name.at_or_below(&case.apex);
        // case-flip some probes
        let name = if pi % 3 == 1 { flip_case(name, 0x5a5a_5a5a_5a5a_5a5a ^ pi as u64) } else { name.clone() };
        let q = qn(&name);
        for unchecked in [false, true] {
            if unchecked && !inside {
                continue; // documented precondition
            }
            for below in [false, true] {
                let opts = || LookupOptions { unchecked, search_below_cuts: below };
                let base = model.lookup_base(&name, !unchecked, below);
                let kind = match &base {
                    Base::Found(Some(_), Some(_)) => "wildcard-synthesis",
                    Base::Found(None, Some(_)) => "wildcard-empty-non-terminal",
                    Base::Found(None, None) => "empty-non-terminal-or-absent-data",
                    Base::Found(Some(_), None) => "exact-node",
                    Base::Referral(..) => "referral",
                    Base::NxDomain => "nxdomain",
                    Base::WrongZone => "wrong-zone",
                };
                kinds.insert(kind);
                let ctx = format!("lookup of {name} (unchecked={unchecked}, search_below_cuts={below}) in zone {}", case.apex);
                // single-type lookups
                for t in LOOKUP_TYPES {
                    st.eval();
                    let got = match catch(|| zone.lookup(&q, Type::from(t), opts())) {
                        Ok(r) => r,
                        Err(p) => fail!(panic_signature(&p), "{ctx} type {t} panicked: {p}"),
                    };
                    let want = model.lookup(&name, t, !unchecked, below);
                    let ok = match (&got, &want) {
                        (LookupResult::Found(f), Lookup::Found(rs, src)) => rrset_eq(&f.data, rs) && src_eq(&f.source_of_synthesis, src),
                        (LookupResult::Cname(c), Lookup::Cname(rs, src)) => rrset_eq(&c.rrset, rs) && src_eq(&c.source_of_synthesis, src),
                        (LookupResult::Referral(r), Lookup::Referral(n, ns)) => mn(&r.child_zone).eq_fold(n) && rrset_eq(&r.ns_rrset, ns),
                        (LookupResult::NoRecords(nr), Lookup::NoRecords(src)) => src_eq(&nr.source_of_synthesis, src),
                        (LookupResult::NxDomain, Lookup::NxDomain) => true,
                        (LookupResult::WrongZone, Lookup::WrongZone) => true,
                        _ => false,
                    };
                    if !ok {
                        fail!(format!("lookup-mismatch-{kind}"), "{ctx}, type {t}: got {got:?}; RFC 1034 §4.3.2 / RFC 4592 reference says {want:?}");
                    }
                }
                // address lookup
                st.eval();
                let got = match catch(|| zone.lookup_addrs(&q, opts())) {
                    Ok(r) => r,
                    Err(p) => fail!(panic_signature(&p), "{ctx} (addrs) panicked: {p}"),
                };
                let ok = match (&got, &base) {
                    (LookupAddrsResult::Found(f), Base::Found(node, src)) => {
                        let (a, aaaa) = model.addrs_of(*node);
                        let one = |g: &Option<SingleRrset>, w: Option<&MRrset>| match (g, w) {
                            (Some(g), Some(w)) => rrset_eq(g, w),
                            (None, None) => true,
                            _ => false,
                        };
                        one(&f.data.a_rrset, a) && one(&f.data.aaaa_rrset, aaaa) && src_eq(&f.source_of_synthesis, src)
                    }
                    (LookupAddrsResult::Referral(r), Base::Referral(n, ns)) => mn(&r.child_zone).eq_fold(n) && rrset_eq(&r.ns_rrset, ns),
                    (LookupAddrsResult::NxDomain, Base::NxDomain) => true,
                    (LookupAddrsResult::WrongZone, Base::WrongZone) => true,
                    _ => false,
                };
                if !ok {
                    fail!(format!("lookup-addrs-mismatch-{kind}"), "{ctx} (addrs): got {got:?}; reference {base:?}");
                }
                // all-records lookup
                st.eval();
                let got = match catch(|| match zone.lookup_all(&q, opts()) {
                    LookupAllResult::Found(f) => {
                        let src = f.source_of_synthesis.as_ref().map(|n| mn(n));
                        let mut sets: BTreeMap<u16, (u32, Vec<Vec<u8>>)> = BTreeMap::new();
                        let mut dup = false;
                        for rs in f.data {
                            dup |= sets.insert(u16::from(rs.rr_type), (u32::from(rs.ttl), rs.rdatas.iter().map(|r| r.octets().to_vec()).collect())).is_some();
                        }
                        (0u8, Some((sets, src, dup)), None)
                    }
                    LookupAllResult::Referral(r) => (1, None, Some((mn(&r.child_zone), u32::from(r.ns_rrset.ttl), r.ns_rrset.rdatas.iter().map(|r| r.octets().to_vec()).collect::<Vec<_>>()))),
                    LookupAllResult::NxDomain => (2, None, None),
                    LookupAllResult::WrongZone => (3, None, None),
                }) {
                    Ok(r) => r,
                    Err(p) => fail!(panic_signature(&p), "{ctx} (all) panicked: {p}"),
                };
                let ok = match (&got, &base) {
                    ((0, Some((sets, src, dup)), _), Base::Found(node, wsrc)) => {
                        let want: BTreeMap<u16, (u32, Vec<Vec<u8>>)> = node.map_or(BTreeMap::new(), |n| n.rrsets.iter().map(|(t, rs)| (*t, (rs.ttl, rs.rdatas.clone()))).collect());
                        !dup && *sets == want && match (src, wsrc) {
                            (Some(a), Some(b)) => a.eq_fold(b),
                            (None, None) => true,
                            _ => false,
                        }
                    }
                    ((1, _, Some((n, ttl, rds))), Base::Referral(wn, ns)) => n.eq_fold(wn) && *ttl == ns.ttl && *rds == ns.rdatas,
                    ((2, _, _), Base::NxDomain) => true,
                    ((3, _, _), Base::WrongZone) => true,
                    _ => false,
                };
                if !ok {
                    fail!(format!("lookup-all-mismatch-{kind}"), "{ctx} (all): got {got:?}; reference {base:?}");
                }
            }
        }
    }
    for k in &kinds {
        st.class(k);
    }
    if kinds.contains("wildcard-synthesis") || kinds.contains("referral") || kinds.contains("wildcard-empty-non-terminal") {
        st.nontrivial(case, || json!({"apex": case.apex.to_text(), "records": case.adds.len(), "probe_names": probes.len(), "result_kinds": kinds.iter().collect::<Vec<_>>()}));
    }
    Ok(())
}

////////////////////////////////////////////////////////////////////////
// GENERATORS                                                         //
////////////////////////////////////////////////////////////////////////

pub fn zone_label() -> impl Strategy<Value = Vec<u8>> {
    prop_oneof![
        3 => Just(b"a".to_vec()),
        3 => Just(b"b".to_vec()),
        2 => Just(b"*".to_vec()),
        2 => Just(b"www".to_vec()),
        2 => Just(b"ns".to_vec()),
        1 => Just(b"c".to_vec()),
        1 => Just(b"A".to_vec()),
        // octets >= 0x80 next to letters (also Z/z, the last letter): case folding must leave them and their neighbours alone
        1 => (prop_oneof![Just(0xdbu8), Just(0xffu8), Just(0x80u8), 0xc0u8..=0xff], prop_oneof![Just(b'Z'), Just(b'z'), Just(b'A'), Just(b'a'), Just(b'M')], any::<bool>()).prop_map(|(hi, letter, after)| if after { vec![letter, hi] } else { vec![hi, letter] }),
        1 => (prop_oneof![Just(b'Z'), Just(b'z'), Just(b'@'), Just(b'['), Just(b'`'), Just(b'{')], 1usize..12).prop_map(|(c, n)| vec![c; n]),
    ]
}

fn rdata_for(rtype: u16, class: u16, sel: u16) -> Vec<u8> {
    let names: [&[u8]; 4] = [b"\x02ns\x01a\x00", b"\x02NS\x01a\x00", b"\x01b\x00", b"\x00"];
    match rtype {
        mr::T_A if class == mr::C_IN => vec![10, 0, 0, (sel % 3) as u8],
        mr::T_AAAA if class == mr::C_IN => {
            let mut v = vec![0u8; 16];
            v[15] = (sel % 3) as u8;
            v
        }
        mr::T_NS | mr::T_CNAME => names[pick(sel, 4)].to_vec(),
        mr::T_MX => {
            let mut v = vec![0, (sel % 2) as u8];
            v.extend_from_slice(names[pick(sel, 4)]);
            v
        }
        // an unknown type: mostly tiny RDATA, sometimes RDATA at the sizes where length fields
        // change width (127/128, 255/256, 16383/16384, 32767/32768, 65535)
        99 => match sel % 40 {
            0 => vec![b'q'; 127],
            1 => vec![b'q'; 128],
            2 => vec![b'r'; 255],
            3 => vec![b'r'; 256],
            4 => vec![b's'; 16383],
            5 => vec![b's'; 16384],
            6 => vec![b't'; 32767],
            7 => vec![b't'; 32768],
            8 => vec![b'u'; 40000],
            9 => vec![b'v'; 65535],
            _ => vec![1, b'x' + (sel % 3) as u8],
        },
        _ => vec![1, b'x' + (sel % 3) as u8],
    }
}

pub fn zone_case(max_adds: usize, for_lookup: bool) -> impl Strategy<Value = ZoneCase> {
    let apex = prop_oneof![
        1 => Just(MName::root()),
        3 => Just(MName { labels: vec![b"test".to_vec()] }),
        2 => Just(MName { labels: vec![b"Zone".to_vec(), b"test".to_vec()] }),
    ];
    let class = prop_oneof![5 => Just(mr::C_IN), 2 => Just(mr::C_CH), 1 => Just(300u16)];
    let add = move || {
        (
            prop::collection::vec(zone_label(), 0..5),
            if for_lookup { prop::bool::weighted(0.02).boxed() } else { prop::bool::weighted(0.12).boxed() },
            prop_oneof![3 => Just(0u64), 1 => any::<u64>()],
            prop_oneof![
                4 => Just(mr::T_A),
                2 => Just(mr::T_AAAA),
                3 => Just(mr::T_NS),
                2 => Just(mr::T_CNAME),
                2 => Just(mr::T_TXT),
                1 => Just(mr::T_MX),
                1 => Just(mr::T_SOA),
                1 => Just(99u16),
                // many more types (so that one owner can hold dozens of RRsets)
                3 => prop_oneof![100u16..140, Just(mr::T_PTR), Just(mr::T_HINFO), Just(mr::T_MINFO), Just(mr::T_MB), Just(mr::T_MG), Just(mr::T_MR), Just(mr::T_SRV), Just(257u16), Just(65280u16), Just(65534u16)],
            ],
            if for_lookup { prop::bool::weighted(0.98).boxed() } else { prop::bool::weighted(0.9).boxed() },
            prop_oneof![6 => Just(300u32), 2 => Just(600u32), 1 => Just(0x8000_0001u32)],
            any::<u16>(),
        )
    };
    (apex, class, prop::collection::vec(add(), 0..max_adds), prop::collection::vec(prop::collection::vec(zone_label(), 1..6), 0..4)).prop_map(move |(apex, class, adds, probes)| {
        let crowd = adds.len() % 3 == 0;
        let adds = adds
            .into_iter()
            .map(|(rel, outside, mask, rtype, class_ok, ttl, sel)| {
                // (crowded zones: three records in four go to the apex or to one fixed name)
                let (rel, rtype) = if crowd && sel % 4 != 0 {
                    (if sel % 8 < 6 { vec![b"crowd".to_vec()] } else { Vec::new() }, if sel % 3 != 0 { 60 + (sel >> 3) % 45 } else { rtype })
                } else {
                    (rel, rtype)
                };
                // no NS at wildcard owners for lookups (RFC 4592 §4.2: undefined)
                let rtype = if for_lookup && rtype == mr::T_NS && rel.first().map_or(false, |l| l == b"*") { mr::T_TXT } else { rtype };
                AddOp {
                    rdata: rdata_for(rtype, class, sel),
                    rel,
                    outside,
                    mask,
                    rtype,
                    class_ok,
                    ttl,
                }
            })
            .collect();
        ZoneCase { apex, class, adds, probes }
    })
}

pub fn run(ctx: &Ctx, report: &mut Report) {
    if ctx.id == "C06" {
        report.rule = "generated zones (<= 40 records over a small label alphabet incl. '*' labels, NS at several depths, CNAMEs, \
            empty non-terminals, case variants; apex root/one/two labels; classes IN/CH/CLASS300) and, per zone, EVERY name within \
            two labels of the zone's names plus outside names, all four LookupOptions combinations (unchecked only inside the zone), \
            six types for lookup, plus lookup_addrs and lookup_all; compared with the flat reference model on result kind, RRset \
            contents/TTL, source of synthesis, referral owner and NS set. NS at wildcard owners is not generated (RFC 4592 §4.2: \
            undefined). evaluations = individual lookups. Non-trivial = zone in which some lookup was wildcard-synthesised or a referral."
            .into();
        report.assumptions.push("vmodel::zone::MZone (unit-tested on the RFC 4592 §2.2.1 example zone)".into());
        run_prop(ctx, report, PropSpec { name: "zone-lookup", cases: ctx.tier.pick(6_000, 150_000), max_shrink_iters: 4096 }, || zone_case(40, true), oracle_lookup);
    } else {
        report.rule = "generated add sequences (<= 60 records; in-zone and out-of-zone owners, class and TTL mismatches, duplicates, \
            case variants, owners creating empty non-terminals); every add's outcome and error kind compared with the reference; after \
            each rejected add the full iteration snapshot must be unchanged; at the end iter_by_node / iter_by_rrset / soa / ns / \
            lookups of every stored RRset compared with the reference. Non-trivial = sequence with >= 1 rejected add and >= 1 empty \
            non-terminal."
            .into();
        report.assumptions.push("vmodel::zone::MZone::add as the reference for acceptance and de-duplication".into());
        run_prop(ctx, report, PropSpec { name: "zone-store", cases: ctx.tier.pick(120_000, 2_000_000), max_shrink_iters: 8192 }, || zone_case(60, false), oracle_store);
    }
}

pub fn replay(check: &str, case: &serde_json::Value) -> Verdict {
    use crate::fw::replay_case;
    if check == "zone-lookup" {
        replay_case::<ZoneCase, _>(case, oracle_lookup)
    } else {
        replay_case::<ZoneCase, _>(case, oracle_store)
    }
}
