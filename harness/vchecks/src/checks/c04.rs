//! C04 — responses respect the transport size limit and truncate correctly.
//! Oracle: the TCP response to the same request is the "complete response";
//! thresholds as in DESIGN.md §4 C04.

use std::collections::BTreeMap;

use proptest::prelude::*;
use serde::{Deserialize, Serialize};
use serde_json::json;
use vmodel::name::MName;
use vmodel::rdata as mr;
use vmodel::wire::{decode_message, Builder, MessageDecode, RrDecode};

use crate::fw::{panic_signature, run_prop, Ctx, Fail, PropSpec, Report, Stats, Verdict};
use crate::gen::{flip_case, pick};
use crate::srvgen::{build, catalog_spec, CatalogSpec};
use crate::srvrun::{canon_decoded, hex, localhost, make_server, plain_additional, ServerCfg};
use crate::{ensure, fail};

use super::c05::query_names;

#[derive(Clone, Debug, Serialize, Deserialize, PartialEq, Eq, Hash)]
pub struct Q {
    pub sel: u16,
    pub mask: u64,
    pub qtype: u16,
    /// None = no OPT; Some(size) = OPT advertising that payload size
    pub edns: Option<u16>,
}

#[derive(Clone, Debug, Serialize, Deserialize, PartialEq, Eq, Hash)]
pub struct Case {
    pub catalog: CatalogSpec,
    pub payload: u16,
    pub queries: Vec<Q>,
}

type Canon = (MName, u16, u16, u32, Vec<u8>);

fn multiset(rrs: &[&RrDecode]) -> BTreeMap<Canon, usize> {
    let mut m = BTreeMap::new();
    for r in rrs {
        *m.entry(canon_decoded(r)).or_insert(0) += 1;
    }
    m
}

fn is_subset(a: &BTreeMap<Canon, usize>, b: &BTreeMap<Canon, usize>) -> bool {
    a.iter().all(|(k, n)| b.get(k).map_or(false, |m| n <= m))
}

fn t_add_of(d: &MessageDecode) -> Vec<&RrDecode> {
    plain_additional(d)
}

pub fn oracle(case: &Case, st: &mut Stats) -> Verdict {
    let (cat, model) = build(&case.catalog);
    let server = make_server(&cat, &ServerCfg { payload: case.payload, keys: vec![], rrl: None });
    let payload = server.payload();
    let pool = query_names(&model, &[], 300);
    if pool.is_empty() {
        return Ok(());
    }
    let (mut ubuf, mut tbuf) = (Vec::new(), Vec::new());
    for (qi, q) in case.queries.iter().enumerate() {
        st.eval();
        // half of the queries aim at the large delegation (names below "big") when the catalog has one
        let below_big: Vec<&(MName, u16)> = pool.iter().filter(|(n, _)| n.labels.iter().any(|l| l == b"big")).collect();
        let (name, class) = if q.sel % 2 == 1 && !below_big.is_empty() {
            below_big[pick(q.sel, below_big.len())]
        } else {
            &pool[pick(q.sel, pool.len())]
        };
        let qname = flip_case(name, q.mask);
        // the generated EDNS setting first, then limits placed exactly around the size of the complete
        // response (S - 1, S and S + number of records, for every third query): "fits" is decided to the octet
        let mut variants: Vec<Option<u16>> = vec![q.edns];
        let mut vi = 0;
        // over TCP the advertised size does not matter: one complete response serves all variants with OPT
        let mut t_with_opt: Option<Vec<u8>> = None;
        while vi < variants.len() {
            let edns = variants[vi];
            vi += 1;
            let mut b = Builder::new(qi as u16, 0x0100);
            b.question(&qname, q.qtype, *class);
            if let Some(size) = edns {
                b.rr(3, &MName::root(), mr::T_OPT, size, 0, &[]);
            }
            let req = b.buf;
            let limit: usize = match edns {
                None => 512,
                Some(size) => size.clamp(512, payload) as usize,
            };
            let what = format!("query {qname} type {} class {class} ({}; server payload size {payload}; UDP limit {limit})", q.qtype, match edns {
                None => "no EDNS".to_string(),
                Some(s) => format!("EDNS advertising {s}"),
            });
            let run = |tcp: bool, buf: &mut Vec<u8>| -> Result<Vec<u8>, Fail> {
                match server.handle(&req, tcp, localhost(), buf) {
                    Ok(Some(n)) => Ok(buf[..n].to_vec()),
                    Ok(None) => Err(Fail::new("no-response", format!("{what}: no response over {}", if tcp { "TCP" } else { "UDP" }))),
                    Err(p) => Err(Fail::new(panic_signature(&p), format!("{what}: handle_message panicked: {p}"))),
                }
            };
            let u = run(false, &mut ubuf)?;
            let t = match (&t_with_opt, edns) {
                (Some(c), Some(_)) if vi > 1 => c.clone(),
                _ => run(true, &mut tbuf)?,
            };
            if edns.is_some() && t_with_opt.is_none() {
                t_with_opt = Some(t.clone());
            }
            // (1) size limit
            ensure!(u.len() <= limit, "udp-limit-exceeded", "{what}: the UDP response has {} octets", u.len());
            let du = match decode_message(&u) {
                Ok(d) => d,
                Err(e) => fail!("response-undecodable", "{what}: UDP response {} does not decode: {e:?}", hex(&u)),
            };
            let dt = match decode_message(&t) {
                Ok(d) => d,
                Err(e) => fail!("response-undecodable", "{what}: TCP response does not decode: {e:?}"),
            };
            // (2) TCP never sets TC
            ensure!(!dt.header.tc, "tc-over-tcp", "{what}: the TCP response has TC set");
            // (4) TC => no records besides OPT/TSIG
            if du.header.tc {
                ensure!(
                    du.answers.is_empty() && du.authority.is_empty() && plain_additional(&du).is_empty(),
                    "tc-with-records",
                    "{what}: the UDP response has TC set but carries {} answer, {} authority and {} additional records",
                    du.answers.len(),
                    du.authority.len(),
                    plain_additional(&du).len()
                );
            }
            // (2b) over TCP an OPT record in the request must not shrink the response: apart from the
            // OPT record itself it is the response to the same request without OPT (unless the extra
            // 11 octets push it over 65535)
            if edns.is_some() && vi == 1 {
                let mut b0 = Builder::new(qi as u16, 0x0100);
                b0.question(&qname, q.qtype, *class);
                let req0 = b0.buf;
                let t0 = match server.handle(&req0, true, localhost(), &mut tbuf) {
                    Ok(Some(n)) => tbuf[..n].to_vec(),
                    Ok(None) => fail!("no-response", "{what}: no response over TCP without OPT"),
                    Err(p) => fail!(panic_signature(&p), "{what}: handle_message panicked: {p}"),
                };
                if let Ok(d0) = decode_message(&t0) {
                    if t0.len() + 11 <= 65535 {
                        let sec = |v: &Vec<RrDecode>| multiset(&v.iter().collect::<Vec<_>>());
                        ensure!(
                            d0.header.rcode as u16 == dt.extended_rcode()
                                && d0.header.aa == dt.header.aa
                                && sec(&d0.answers) == sec(&dt.answers)
                                && sec(&d0.authority) == sec(&dt.authority)
                                && multiset(&plain_additional(&d0)) == multiset(&t_add_of(&dt)),
                            "tcp-response-changed-by-edns",
                            "{what}: over TCP the response to the request with OPT ({} octets, RCODE {}, {} answer records) differs from the response to the same request without OPT ({} octets, RCODE {}, {} answer records)",
                            t.len(),
                            dt.extended_rcode(),
                            dt.answers.len(),
                            t0.len(),
                            d0.header.rcode,
                            d0.answers.len()
                        );
                        st.class("tcp-with-and-without-opt-compared");
                    }
                }
            }
            // the complete response could not be built even over TCP (> 65535 octets): nothing to compare with
            if dt.extended_rcode() == 2 && dt.answers.is_empty() && dt.authority.is_empty() {
                st.discard("tcp-response-is-servfail");
                continue;
            }
            // (3) thresholds from the complete response
            let referral_owner: Option<MName> = if !dt.authority.is_empty() && dt.authority.iter().all(|r| r.rtype == mr::T_NS) {
                Some(dt.authority[0].owner.name.clone())
            } else {
                None
            };
            let t_add = plain_additional(&dt);
            let mandatory_add: Vec<&RrDecode> = match &referral_owner {
                Some(cut) => t_add.iter().filter(|r| r.owner.name.at_or_below(cut)).cloned().collect(),
                None => Vec::new(),
            };
            let question_end = dt.questions.last().map_or(12, |q| q.end);
            let mut p_end = question_end;
            for r in dt.answers.iter().chain(dt.authority.iter()) {
                p_end = p_end.max(r.end);
            }
            for r in &mandatory_add {
                p_end = p_end.max(r.end);
            }
            let trailer = if dt.opt().is_some() { 11 } else { 0 };
            let fits_mandatory = p_end + trailer <= limit;
            let fits_all = t.len() <= limit;
            let size_class = if fits_all {
                "complete-response-fits"
            } else if fits_mandatory {
                "optional-records-dropped"
            } else {
                "truncated"
            };
            if let Some(cut) = &referral_owner {
                if dt.authority.iter().any(|r| r.rdata_names.first().map_or(false, |(_, n, _)| n.name.eq_fold(cut))) {
                    st.class(&format!("referral-whose-cut-is-its-own-name-server: {size_class}"));
                }
            }
            if t.len() > 400 {
                st.class(size_class);
                st.nontrivial(&(&req, limit), || json!({"query": what, "tcp_len": t.len(), "udp_len": u.len(), "mandatory_end": p_end, "class": size_class}));
            } else {
                st.class("small-response");
            }
            if fits_all {
                // the id and everything else is the same request: identical octets
                ensure!(
                    u == t,
                    "udp-differs-although-complete-response-fits",
                    "{what}: the complete (TCP) response has {} octets and fits, but the UDP response differs: UDP {} vs TCP {}",
                    t.len(),
                    hex(&u),
                    hex(&t)
                );
            } else if fits_mandatory {
                ensure!(
                    !du.header.tc,
                    "truncated-although-mandatory-part-fits",
                    "{what}: answer, authority and in-bailiwick glue end at octet {p_end} (+{trailer} for OPT) which fits, but the UDP response has TC set (complete response: {} octets)",
                    t.len()
                );
                ensure!(
                    du.extended_rcode() == dt.extended_rcode() && du.header.aa == dt.header.aa,
                    "rcode-aa-differ",
                    "{what}: UDP RCODE/AA {}/{} vs TCP {}/{}",
                    du.extended_rcode(),
                    du.header.aa,
                    dt.extended_rcode(),
                    dt.header.aa
                );
                let sec = |v: &Vec<RrDecode>| multiset(&v.iter().collect::<Vec<_>>());
                ensure!(sec(&du.answers) == sec(&dt.answers), "answer-differs", "{what}: UDP answer section differs from the complete response's");
                ensure!(sec(&du.authority) == sec(&dt.authority), "authority-differs", "{what}: UDP authority section differs from the complete response's");
                let u_add = multiset(&plain_additional(&du));
                ensure!(
                    is_subset(&u_add, &multiset(&t_add)),
                    "additional-not-a-subset",
                    "{what}: the UDP response has additional records that the complete response lacks"
                );
                ensure!(
                    is_subset(&multiset(&mandatory_add), &u_add),
                    "glue-dropped",
                    "{what}: in-bailiwick glue for the delegation {} is missing from the UDP response although TC is clear ({} of {} mandatory records present)",
                    referral_owner.as_ref().map(|n| n.to_text()).unwrap_or_default(),
                    plain_additional(&du).iter().filter(|r| referral_owner.as_ref().map_or(false, |c| r.owner.name.at_or_below(c))).count(),
                    mandatory_add.len()
                );
            } else {
                ensure!(
                    du.header.tc,
                    "not-truncated-although-mandatory-part-does-not-fit",
                    "{what}: answer, authority and in-bailiwick glue end at octet {p_end} (+{trailer} for OPT) of the complete response, beyond the limit, but the UDP response ({} octets) has TC clear",
                    u.len()
                );
            }
            if vi == 1 && qi % 3 == 0 {
                // S: the complete response including its OPT record
                let s_len = if dt.opt().is_some() { t.len() } else { t.len() + 11 };
                let n_records = dt.answers.len() + dt.authority.len() + plain_additional(&dt).len();
                for d in [-1i64, 0, (n_records as i64).clamp(1, 40)] {
                    let lim = s_len as i64 + d;
                    if lim >= 513 && lim <= payload as i64 && lim <= 65535 && !variants.contains(&Some(lim as u16)) {
                        variants.push(Some(lim as u16));
                    }
                }
                if variants.len() > 1 {
                    st.class("limits-placed-around-the-size-of-the-complete-response");
                }
            }
        }
    }
    Ok(())
}

fn case_strategy() -> impl Strategy<Value = Case> {
    let qtype = prop_oneof![
        4 => Just(mr::T_A),
        3 => Just(mr::T_NS),
        4 => Just(mr::T_TXT),
        2 => Just(mr::T_MX),
        3 => Just(mr::T_ANY),
        1 => Just(mr::T_SRV),
        1 => Just(mr::T_CNAME),
    ];
    let edns = prop_oneof![
        3 => Just(None),
        6 => prop_oneof![Just(0u16), Just(300), Just(511), Just(512), Just(513), Just(600), Just(900), Just(1232), Just(1500), Just(4096), Just(9000), Just(65535), any::<u16>()].prop_map(Some),
    ];
    (
        catalog_spec(true, true, true),
        prop_oneof![Just(512u16), Just(700), Just(1232), Just(4096), Just(65535), 512u16..=65535],
        prop::collection::vec((any::<u16>(), prop_oneof![3 => Just(0u64), 1 => any::<u64>()], qtype, edns).prop_map(|(sel, mask, qtype, edns)| Q { sel, mask, qtype, edns }), 1..40),
    )
        .prop_map(|(catalog, payload, queries)| Case { catalog, payload, queries })
}

pub fn run(ctx: &Ctx, report: &mut Report) {
    report.rule = "generated catalogs biased to large RRsets (up to 40 x 255-octet TXT strings), long names and delegations with up to 13 long \
        in-bailiwick name servers with A/AAAA glue plus up to 7 parent-side servers; server payload sizes 512-65535; per catalog up to 40 \
        queries, each sent over UDP (without OPT, or with OPT advertising 0-65535) and over TCP to the same server. Checks: UDP length <= \
        limit; TCP never TC; TC => no records; complete response fits => UDP identical octet-for-octet; mandatory part (answer, authority, \
        glue at/below the delegation) fits => TC clear, same RCODE/AA/answer/authority, additional a sub-multiset containing all glue; \
        mandatory part does not fit => TC. Non-trivial = pair whose complete response exceeds 400 octets (classes: fits / optional dropped \
        / truncated)."
        .into();
    report.assumptions.push("the TCP response is the complete response; cases whose TCP response is SERVFAIL (> 65535 octets) are skipped and counted".into());
    report.assumptions.push("requests without TSIG (the TSIG reservation window is covered by C10's twin comparison on small answers)".into());
    run_prop(ctx, report, PropSpec { name: "truncation", cases: ctx.tier.pick(80_000, 800_000), max_shrink_iters: 3000 }, case_strategy, oracle);
}

pub fn replay(_check: &str, case: &serde_json::Value) -> Verdict {
    crate::fw::replay_case::<Case, _>(case, oracle)
}
