//! C17 — type, class, opcode and RCODE codes round-trip through text.
//! Exhaustive enumeration; the mnemonic tables below are the IANA values
//! (RFC 1035 §3.2.2-3.2.5, RFC 3596, RFC 2782, RFC 6891, RFC 8945, RFC 1995,
//! RFC 2136), written down independently of quandary.

use quandary::class::Class;
use quandary::message::{ExtendedRcode, Opcode, Qclass, Qtype, Rcode};
use quandary::rr::Type;
use serde::{Deserialize, Serialize};
use serde_json::json;

use crate::fw::{catch, panic_signature, Ctx, Fail, Report, Stats, Verdict};
use crate::{ensure, fail};

const TYPE_MNEMONICS: &[(&str, u16)] = &[
    ("A", 1),
    ("NS", 2),
    ("MD", 3),
    ("MF", 4),
    ("CNAME", 5),
    ("SOA", 6),
    ("MB", 7),
    ("MG", 8),
    ("MR", 9),
    ("NULL", 10),
    ("WKS", 11),
    ("PTR", 12),
    ("HINFO", 13),
    ("MINFO", 14),
    ("MX", 15),
    ("TXT", 16),
    ("AAAA", 28),
    ("SRV", 33),
    ("OPT", 41),
    ("TSIG", 250),
];
const QTYPE_ONLY: &[(&str, u16)] = &[
    ("IXFR", 251),
    ("AXFR", 252),
    ("MAILB", 253),
    ("MAILA", 254),
    ("ANY", 255),
    ("*", 255),
];
const CLASS_MNEMONICS: &[(&str, u16)] = &[("IN", 1), ("CH", 3), ("HS", 4)];
const QCLASS_ONLY: &[(&str, u16)] = &[("NONE", 254), ("ANY", 255), ("*", 255)];

#[derive(Clone, Copy, Debug, Serialize, Deserialize, PartialEq, Eq, Hash)]
pub enum Kind {
    Type,
    Class,
    Qtype,
    Qclass,
}

#[derive(Clone, Debug, Serialize, Deserialize)]
pub enum Case {
    /// render the value and parse it back
    RoundTrip { kind: Kind, value: u16 },
    /// parse this text, expect this value
    Text { kind: Kind, text: String, expect: u16 },
    Opcode { value: u8 },
    Rcode { value: u8 },
    ExtRcode { value: u16 },
}

fn render(kind: Kind, v: u16) -> String {
    match kind {
        Kind::Type => Type::from(v).to_string(),
        Kind::Class => Class::from(v).to_string(),
        Kind::Qtype => Qtype::from(v).to_string(),
        Kind::Qclass => Qclass::from(v).to_string(),
    }
}

fn parse(kind: Kind, text: &str) -> Result<u16, String> {
    match kind {
        Kind::Type => text.parse::<Type>().map(u16::from).map_err(|e| e.to_string()),
        Kind::Class => text.parse::<Class>().map(u16::from).map_err(|e| e.to_string()),
        Kind::Qtype => text.parse::<Qtype>().map(u16::from).map_err(|e| e.to_string()),
        Kind::Qclass => text.parse::<Qclass>().map(u16::from).map_err(|e| e.to_string()),
    }
}

pub fn oracle(case: &Case) -> Verdict {
    match case {
        Case::RoundTrip { kind, value } => {
            let text = match catch(|| render(*kind, *value)) {
                Ok(t) => t,
                Err(p) => fail!(panic_signature(&p), "rendering {kind:?} {value} panicked: {p}"),
            };
            match catch(|| parse(*kind, &text)) {
                Ok(Ok(v)) => ensure!(
                    v == *value,
                    format!("roundtrip-{kind:?}"),
                    "{kind:?} {value} renders as {text:?} which parses to {v}"
                ),
                Ok(Err(e)) => fail!(
                    format!("roundtrip-{kind:?}"),
                    "{kind:?} {value} renders as {text:?} which does not parse: {e}"
                ),
                Err(p) => fail!(panic_signature(&p), "parsing {text:?} panicked: {p}"),
            }
            Ok(())
        }
        Case::Text { kind, text, expect } => {
            match catch(|| parse(*kind, text)) {
                Ok(Ok(v)) => ensure!(
                    v == *expect,
                    format!("text-{kind:?}-wrong-value"),
                    "{kind:?} text {text:?} parses to {v}, expected {expect}"
                ),
                Ok(Err(e)) => {
                    let generic = text.len() >= 4
                        && (text[..4].eq_ignore_ascii_case("TYPE")
                            || text.get(..5).map_or(false, |p| p.eq_ignore_ascii_case("CLASS")));
                    let sig = if generic {
                        format!("text-{kind:?}-generic-rejected")
                    } else {
                        "mnemonic-case-sensitive".to_string()
                    };
                    fail!(sig, "{kind:?} text {text:?} is rejected ({e}), expected {expect}")
                }
                Err(p) => fail!(panic_signature(&p), "parsing {text:?} panicked: {p}"),
            }
            Ok(())
        }
        Case::Opcode { value } => {
            let r = Opcode::try_from(*value);
            ensure!(
                r.is_ok() == (*value < 16),
                "opcode-range",
                "Opcode::try_from({value}) is_ok={}",
                r.is_ok()
            );
            if let Ok(o) = r {
                ensure!(u8::from(o) == *value, "opcode-value", "Opcode {value} converts back to {}", u8::from(o));
            }
            Ok(())
        }
        Case::Rcode { value } => {
            let r = Rcode::try_from(*value);
            ensure!(
                r.is_ok() == (*value < 16),
                "rcode-range",
                "Rcode::try_from({value}) is_ok={}",
                r.is_ok()
            );
            if let Ok(o) = r {
                ensure!(u8::from(o) == *value, "rcode-value", "Rcode {value} converts back to {}", u8::from(o));
                let e = ExtendedRcode::from(o);
                ensure!(u16::from(e) == *value as u16, "rcode-ext", "Rcode {value} extends to {}", u16::from(e));
            }
            Ok(())
        }
        Case::ExtRcode { value } => {
            let e = ExtendedRcode::from(*value);
            ensure!(u16::from(e) == *value, "extrcode-value", "ExtendedRcode {value} converts back to {}", u16::from(e));
            let r = Rcode::try_from(e);
            ensure!(
                r.is_ok() == (*value < 16),
                "extrcode-range",
                "Rcode::try_from(ExtendedRcode {value}) is_ok={}",
                r.is_ok()
            );
            if let Ok(o) = r {
                ensure!(u8::from(o) as u16 == *value, "extrcode-narrow", "ExtendedRcode {value} narrows to {}", u8::from(o));
            }
            Ok(())
        }
    }
}

/// All 2^n ASCII-case variants of `s`.
fn case_variants(s: &str) -> Vec<String> {
    let letters: Vec<usize> = s
        .char_indices()
        .filter(|(_, c)| c.is_ascii_alphabetic())
        .map(|(i, _)| i)
        .collect();
    let mut out = Vec::new();
    for mask in 0..(1u32 << letters.len()) {
        let mut b = s.as_bytes().to_vec();
        for (bit, idx) in letters.iter().enumerate() {
            if mask & (1 << bit) != 0 {
                b[*idx] = b[*idx].to_ascii_uppercase();
            } else {
                b[*idx] = b[*idx].to_ascii_lowercase();
            }
        }
        out.push(String::from_utf8(b).unwrap());
    }
    out
}

fn all_cases() -> Vec<Case> {
    let mut cases = Vec::new();
    for kind in [Kind::Type, Kind::Class, Kind::Qtype, Kind::Qclass] {
        for v in 0..=u16::MAX {
            cases.push(Case::RoundTrip { kind, value: v });
        }
        let (table, extra, prefix): (&[(&str, u16)], &[(&str, u16)], &str) = match kind {
            Kind::Type => (TYPE_MNEMONICS, &[], "TYPE"),
            Kind::Qtype => (TYPE_MNEMONICS, QTYPE_ONLY, "TYPE"),
            Kind::Class => (CLASS_MNEMONICS, &[], "CLASS"),
            Kind::Qclass => (CLASS_MNEMONICS, QCLASS_ONLY, "CLASS"),
        };
        for (m, v) in table.iter().chain(extra.iter()) {
            for t in case_variants(m) {
                cases.push(Case::Text {
                    kind,
                    text: t,
                    expect: *v,
                });
            }
        }
        for p in case_variants(prefix) {
            for v in 0..=u16::MAX {
                cases.push(Case::Text {
                    kind,
                    text: format!("{p}{v}"),
                    expect: v,
                });
            }
        }
    }
    for v in 0..=u8::MAX {
        cases.push(Case::Opcode { value: v });
        cases.push(Case::Rcode { value: v });
    }
    for v in 0..=u16::MAX {
        cases.push(Case::ExtRcode { value: v });
    }
    cases
}

pub fn run(ctx: &Ctx, report: &mut Report) {
    report.rule = "exhaustive: every 16-bit value of TYPE/CLASS/QTYPE/QCLASS rendered and parsed back; \
        every ASCII-case variant (all 2^n) of every mnemonic; TYPEn/CLASSn with every case variant of the \
        prefix for every n; all 256 opcode/RCODE octets; all 65536 extended RCODEs. Every case is \
        non-trivial; distinct = number of distinct (kind, text/value) cases. Sub-check codes-after-rejected-text (sampled): histories \
        of 2-15 steps on one fresh thread mixing text that is no code's text (out-of-range numbers, bare prefixes, trailing junk, \
        non-ASCII) with round trips, mnemonics and generic forms, each judged as in the exhaustive part."
        .to_string();
    report.exhaustive = true;
    report.assumptions.push("IANA mnemonic table transcribed by hand in c17.rs".into());
    let cases = all_cases();
    let known: Vec<String> = report.known.iter().map(|k| k.signature.clone()).collect();
    let total = cases.len() as u64;
    let cases = &cases;
    let known = &known;
    crate::fw::run_parallel(ctx, report, "codes", total, move |range, st: &mut Stats| {
        let mut first: Option<(serde_json::Value, Fail)> = None;
        for i in range {
            let c = &cases[i as usize];
            st.eval();
            st.nontrivial(&i, || json!(c));
            let class = match c {
                Case::RoundTrip { .. } => "roundtrip",
                Case::Text { text, .. } => {
                    if text.as_bytes().last().map_or(false, |b| b.is_ascii_digit()) {
                        "generic-form"
                    } else {
                        "mnemonic-case-variant"
                    }
                }
                _ => "opcode-rcode",
            };
            st.class(class);
            if let Err(f) = oracle(c) {
                if known.iter().any(|k| *k == f.signature) {
                    *st.known_hits.entry(f.signature.clone()).or_insert(0) += 1;
                } else if first.is_none() {
                    first = Some((json!(c), f));
                    break;
                }
            }
        }
        first
    });
    // the same conversions from eight threads at once, each thread with its own mnemonics (state shared
    // between threads - caches, "last parsed" hints - must not leak from one parse into another)
    crate::fw::run_prop(ctx, report, crate::fw::PropSpec { name: "codes-concurrent", cases: ctx.tier.pick(48, 600), max_shrink_iters: 8 }, concurrent_strategy, oracle_concurrent);
    // the same conversions inside histories that also parse text that is no code's text
    crate::fw::run_prop(ctx, report, crate::fw::PropSpec { name: "codes-after-rejected-text", cases: ctx.tier.pick(40_000, 1_000_000), max_shrink_iters: 2000 }, history_strategy, oracle_history);
}

pub fn replay(check: &str, case: &serde_json::Value) -> Verdict {
    if check == "codes-concurrent" {
        return crate::fw::replay_case::<Concurrent, _>(case, oracle_concurrent);
    }
    if check == "codes-after-rejected-text" {
        return crate::fw::replay_case::<History, _>(case, oracle_history);
    }
    crate::fw::replay_case::<Case, _>(case, |c, _| oracle(c))
}

////////////////////////////////////////////////////////////////////////
// histories: the conversions hold whatever was parsed before          //
////////////////////////////////////////////////////////////////////////

/// One step of a history run on a single thread.
#[derive(Clone, Debug, Serialize, Deserialize, PartialEq, Eq, Hash)]
pub enum Step {
    /// parse text that is not the text of any code (the result is not judged; it must not panic)
    Junk(Kind, String),
    /// render and parse back
    RoundTrip(Kind, u16),
    /// a mnemonic (index into the kind's table) with a case mask
    Mnemonic(Kind, u16, u16),
    /// TYPEn / CLASSn with a case mask for the prefix
    Generic(Kind, u16, u16),
    /// TYPE000n / CLASS000n: the number written with this many leading zeros
    GenericPadded(Kind, u16, u16, u8),
}

#[derive(Clone, Debug, Serialize, Deserialize, PartialEq, Eq, Hash)]
pub struct History {
    pub steps: Vec<Step>,
}

fn with_mask(s: &str, mask: u16) -> String {
    s.chars().enumerate().map(|(i, c)| if mask & (1 << (i % 16)) != 0 { if c.is_ascii_uppercase() { c.to_ascii_lowercase() } else { c.to_ascii_uppercase() } } else { c }).collect()
}

pub fn oracle_history(h: &History, st: &mut Stats) -> Verdict {
    // a fresh thread per history: state kept per thread (caches, scratch buffers) starts empty
    let steps = h.steps.clone();
    let handle = std::thread::spawn(move || -> (Verdict, u64, bool) {
        let mut evals = 0u64;
        let mut junk_before = false;
        let mut judged_after_junk = false;
        for (i, step) in steps.iter().enumerate() {
            evals += 1;
            let case = match step {
                Step::Junk(kind, text) => {
                    if let Err(p) = catch(|| parse(*kind, text)) {
                        return (Err(Fail::new(panic_signature(&p), format!("step #{i}: parsing {text:?} as {kind:?} panicked: {p}"))), evals, judged_after_junk);
                    }
                    junk_before = true;
                    continue;
                }
                Step::RoundTrip(kind, v) => Case::RoundTrip { kind: *kind, value: *v },
                Step::Mnemonic(kind, sel, mask) => {
                    let table: Vec<(&str, u16)> = match kind {
                        Kind::Type => TYPE_MNEMONICS.to_vec(),
                        Kind::Qtype => TYPE_MNEMONICS.iter().chain(QTYPE_ONLY.iter()).cloned().collect(),
                        Kind::Class => CLASS_MNEMONICS.to_vec(),
                        Kind::Qclass => CLASS_MNEMONICS.iter().chain(QCLASS_ONLY.iter()).cloned().collect(),
                    };
                    let (m, v) = table[crate::gen::pick(*sel, table.len())];
                    Case::Text { kind: *kind, text: with_mask(m, *mask), expect: v }
                }
                Step::Generic(kind, v, mask) => {
                    let prefix = if matches!(kind, Kind::Type | Kind::Qtype) { "TYPE" } else { "CLASS" };
                    Case::Text { kind: *kind, text: format!("{}{v}", with_mask(prefix, *mask)), expect: *v }
                }
                Step::GenericPadded(kind, v, mask, zeros) => {
                    let prefix = if matches!(kind, Kind::Type | Kind::Qtype) { "TYPE" } else { "CLASS" };
                    Case::Text { kind: *kind, text: format!("{}{}{v}", with_mask(prefix, *mask), "0".repeat(*zeros as usize)), expect: *v }
                }
            };
            if junk_before {
                judged_after_junk = true;
            }
            if let Err(f) = oracle(&case) {
                let before: Vec<String> = steps[..i].iter().map(|s| format!("{s:?}")).collect();
                return (Err(Fail::new(format!("after-history-{}", f.signature), format!("step #{i} after the steps {before:?} on the same thread: {}", f.detail))), evals, judged_after_junk);
            }
        }
        (Ok(()), evals, judged_after_junk)
    });
    let (verdict, evals, after) = match handle.join() {
        Ok(r) => r,
        Err(_) => (Err(Fail::new("harness-history-thread", "the history thread panicked")), 0, false),
    };
    st.evals(evals);
    verdict?;
    if after {
        st.class("conversion-judged-after-rejected-text-on-the-same-thread");
        st.nontrivial(h, || json!({"steps": h.steps.iter().map(|s| format!("{s:?}")).collect::<Vec<_>>()}));
    }
    Ok(())
}

/// (kind, mnemonic selector, case mask) per thread; every thread parses its own text 20 000 times
#[derive(Clone, Debug, Serialize, Deserialize, PartialEq, Eq, Hash)]
pub struct Concurrent {
    pub threads: Vec<(Kind, u16, u16)>,
}

pub fn oracle_concurrent(c: &Concurrent, st: &mut Stats) -> Verdict {
    let barrier = std::sync::Arc::new(std::sync::Barrier::new(c.threads.len()));
    let mut handles = Vec::new();
    for (kind, sel, mask) in c.threads.iter().cloned() {
        let barrier = barrier.clone();
        handles.push(std::thread::spawn(move || -> Result<u64, Fail> {
            let table: Vec<(&str, u16)> = match kind {
                Kind::Type => TYPE_MNEMONICS.to_vec(),
                Kind::Qtype => TYPE_MNEMONICS.iter().chain(QTYPE_ONLY.iter()).cloned().collect(),
                Kind::Class => CLASS_MNEMONICS.to_vec(),
                Kind::Qclass => CLASS_MNEMONICS.iter().chain(QCLASS_ONLY.iter()).cloned().collect(),
            };
            let (m, v) = table[crate::gen::pick(sel, table.len())];
            let text = with_mask(m, mask);
            barrier.wait();
            for i in 0..20_000u32 {
                match catch(|| parse(kind, &text)) {
                    Ok(Ok(got)) if got == v => {}
                    Ok(other) => return Err(Fail::new("concurrent-parse-wrong", format!("iteration {i}: parsing {text:?} as {kind:?} while other threads parse other mnemonics gave {other:?}, expected {v}"))),
                    Err(p) => return Err(Fail::new(panic_signature(&p), format!("parsing {text:?} panicked: {p}"))),
                }
                if i % 64 == 0 {
                    // the rendered form must parse back as well
                    match catch(|| parse(kind, &render(kind, v))) {
                        Ok(Ok(got)) if got == v => {}
                        Ok(other) => return Err(Fail::new("concurrent-roundtrip-wrong", format!("iteration {i}: {kind:?} {v} rendered and parsed back while other threads parse gave {other:?}"))),
                        Err(p) => return Err(Fail::new(panic_signature(&p), format!("round trip of {kind:?} {v} panicked: {p}"))),
                    }
                }
            }
            Ok(20_000)
        }));
    }
    let mut first: Option<Fail> = None;
    for h in handles {
        match h.join() {
            Ok(Ok(n)) => st.evals(n),
            Ok(Err(f)) => {
                first.get_or_insert(f);
            }
            Err(_) => {
                first.get_or_insert(Fail::new("harness-thread", "a parsing thread panicked"));
            }
        }
    }
    if let Some(f) = first {
        return Err(f);
    }
    st.nontrivial(c, || json!({"threads": c.threads.iter().map(|t| format!("{t:?}")).collect::<Vec<_>>()}));
    Ok(())
}

fn concurrent_strategy() -> impl proptest::strategy::Strategy<Value = Concurrent> {
    use proptest::prelude::*;
    let kind = || prop_oneof![3 => Just(Kind::Type), 2 => Just(Kind::Qtype), 1 => Just(Kind::Class), 1 => Just(Kind::Qclass)];
    prop::collection::vec((kind(), any::<u16>(), prop_oneof![Just(0u16), any::<u16>()]), 4..=8).prop_map(|threads| Concurrent { threads })
}

fn history_strategy() -> impl proptest::strategy::Strategy<Value = History> {
    use proptest::prelude::*;
    let kind = || prop_oneof![Just(Kind::Type), Just(Kind::Class), Just(Kind::Qtype), Just(Kind::Qclass)];
    let junk = prop_oneof![
        6 => prop_oneof![
            Just(""), Just("TYPE65536"), Just("CLASS65536"), Just("type99999999999999999999"), Just("TYPE"), Just("CLASS"), Just("bogus"), Just("TYPE-1"), Just("TYPE 1"),
            Just("TYPE1x"), Just("CLASS1x"), Just("A "), Just(" A"), Just("IN."), Just("Aé"), Just("TYPEé"), Just("typ"), Just("CLAS1"), Just("TYPE+1"), Just("TYPE0x10"), Just("TYPE１"), Just("AXFRR"), Just("**")
        ].prop_map(|s| s.to_string()),
        1 => "[ -~]{0,12}",
        1 => "(TYPE|CLASS|type|class)[0-9]{5,8}",
    ];
    let step = prop_oneof![
        3 => (kind(), junk).prop_map(|(k, t)| Step::Junk(k, t)),
        2 => (kind(), any::<u16>()).prop_map(|(k, v)| Step::RoundTrip(k, v)),
        3 => (kind(), any::<u16>(), prop_oneof![Just(0u16), any::<u16>()]).prop_map(|(k, s, m)| Step::Mnemonic(k, s, m)),
        2 => (kind(), any::<u16>(), prop_oneof![Just(0u16), any::<u16>()]).prop_map(|(k, v, m)| Step::Generic(k, v, m)),
        1 => (kind(), prop_oneof![Just(0u16), Just(1u16), any::<u16>()], prop_oneof![Just(0u16), any::<u16>()], prop_oneof![1u8..6, 6u8..40]).prop_map(|(k, v, m, z)| Step::GenericPadded(k, v, m, z)),
    ];
    prop::collection::vec(step, 2..16).prop_map(|steps| History { steps })
}
