//! OS-thread stress for C28 and C32 on the *normal* build (std locks, real
//! threads) — the complement of the shuttle exploration in ../qshuttle, which
//! owns the schedule but runs a shimmed copy.  Here the schedule belongs to the
//! OS; thread counts, burst sizes and yields are generated.
//!
//! `vcheck C28S` / `vcheck C32S` write their numbers to
//! /verif/.work/stress-<ID>.json; scripts/run_qsh.sh runs them first and the
//! qshuttle runner folds them into the property's evidence.

use std::net::{IpAddr, Ipv4Addr};
use std::sync::atomic::{AtomicBool, AtomicU64, Ordering};
use std::sync::{Arc, Barrier};
use std::time::{Duration, Instant};

use proptest::prelude::*;
use quandary::message::tsig::Algorithm;
use quandary::server::{ReceivedInfo, Response, RrlParams, Server, Transport, TsigKeyMap};
use serde::{Deserialize, Serialize};
use serde_json::json;
use vmodel::name::MName;
use vmodel::rdata as mr;
use vmodel::tsig::{self as mt, Alg};
use vmodel::wire::Builder;

use crate::fw::{replay_case, run_prop, Ctx, PropSpec, Report, Stats, Verdict};
use crate::srvgen::{build, qn, BuiltCatalog, CatalogSpec, NameSpec, RdSpec, RecSpec, ZoneSpec};
use crate::{ensure, fail};

type Cat = quandary::db::HashMapTreeCatalog<quandary::db::HashMapTreeZone, ()>;

fn n(labels: &[&[u8]]) -> MName {
    MName { labels: labels.iter().map(|l| l.to_vec()).collect() }
}

fn rel(l: &[&[u8]]) -> NameSpec {
    NameSpec::Rel(l.iter().map(|x| x.to_vec()).collect(), 0)
}

fn tree(spec: &CatalogSpec) -> Arc<Cat> {
    match build(spec).0 {
        BuiltCatalog::Tree(t) => t,
        BuiltCatalog::Single(_) => unreachable!("single = false"),
    }
}

////////////////////////////////////////////////////////////////////////
// C28: bursts of identical requests from up to 16 OS threads          //
////////////////////////////////////////////////////////////////////////

#[derive(Clone, Debug, Serialize, Deserialize, PartialEq, Eq, Hash)]
pub struct Burst {
    pub threads: u8,
    pub per_thread: u16,
    pub rate: u32,
    pub window: u32,
    pub slip: usize,
    pub size: usize,
    /// every k-th request of a thread is followed by yield_now (0 = never)
    pub yield_every: u8,
    /// 0 NOERROR, 1 NXDOMAIN, 2 REFUSED
    pub category: u8,
    /// before the burst, another network's stream is driven to its limit (sequentially); the burst's
    /// stream takes that bucket over when the two collide (certain with a table of one bucket)
    #[serde(default)]
    pub saturated_neighbour: bool,
}

fn burst() -> impl Strategy<Value = Burst> {
    (2u8..=16, prop_oneof![3 => 50u16..400, 1 => 400u16..2000], 1u32..400, 1u32..4, prop_oneof![Just(0usize), Just(1usize), Just(2usize)], prop_oneof![Just(1usize), Just(7usize), Just(65537usize)], prop_oneof![2 => Just(0u8), 2 => 1u8..8], 0u8..4, any::<bool>())
        .prop_map(|(threads, per_thread, rate, window, slip, size, yield_every, category, saturated_neighbour)| Burst { threads, per_thread, rate, window, slip, size, yield_every, category, saturated_neighbour })
}

fn c28_catalog() -> CatalogSpec {
    CatalogSpec {
        zones: vec![ZoneSpec {
            apex: n(&[b"rl", b"test"]),
            class: 1,
            kind: 0,
            recs: vec![
                RecSpec { owner: rel(&[]), ttl: 300, rd: RdSpec::Soa { minimum: 60, serial: 1 } },
                RecSpec { owner: rel(&[]), ttl: 300, rd: RdSpec::Single(mr::T_NS, rel(&[b"ns"])) },
                RecSpec { owner: rel(&[b"ns"]), ttl: 300, rd: RdSpec::A(1) },
                RecSpec { owner: rel(&[b"www"]), ttl: 300, rd: RdSpec::A(2) },
            ]
            .into_iter()
            // 40 addresses: the answer does not fit a UDP response without EDNS (TC, no records)
            .chain((0..40u8).map(|i| RecSpec { owner: rel(&[b"big"]), ttl: 300, rd: RdSpec::A(100 + i) }))
            .collect(),
        }],
        single: false,
    }
}

pub fn oracle_c28(b: &Burst, st: &mut Stats) -> Verdict {
    let cat = tree(&c28_catalog());
    let limit = (b.rate as u64) * (b.window as u64);
    let total = b.threads as u64 * b.per_thread as u64;
    // a response that is truncated anyway looks like a slipped one: such a stream is used only with slip 0
    let category = if b.category == 3 && b.slip != 0 { 0 } else { b.category };
    let qname = match category {
        3 => n(&[b"big", b"rl", b"test"]),
        0 => n(&[b"www", b"rl", b"test"]),
        1 => n(&[b"missing", b"rl", b"test"]),
        _ => n(&[b"www", b"elsewhere"]),
    };
    let mut q = Builder::new(0x2828, 0);
    q.question(&qname, mr::T_A, 1);
    let request = Arc::new(q.buf);
    // a burst that does not finish within 0.9 s may see a refill: repeat it (up to 20 times)
    for _attempt in 0..20 {
        let mut server = Server::new(cat.clone());
        let mut p = RrlParams::new(b.rate, b.rate, b.rate, b.window).expect("params");
        p.set_slip(b.slip);
        p.set_size(b.size).expect("size");
        server.set_rrl_params(Some(p));
        let server = Arc::new(server);
        if b.saturated_neighbour {
            let mut buf = vec![0u8; 1232];
            for _ in 0..limit + 2 {
                let _ = server.handle_message(&request, ReceivedInfo::new(IpAddr::V4(Ipv4Addr::new(192, 0, 2, 77)), Transport::Udp), &mut buf);
            }
        }
        let barrier = Arc::new(Barrier::new(b.threads as usize));
        let full = Arc::new(AtomicU64::new(0));
        let slipped = Arc::new(AtomicU64::new(0));
        let dropped = Arc::new(AtomicU64::new(0));
        let bad = Arc::new(AtomicU64::new(0));
        let first = Arc::new(std::sync::Mutex::new(None::<Instant>));
        let last = Arc::new(std::sync::Mutex::new(None::<Instant>));
        let mut handles = Vec::new();
        for _ in 0..b.threads {
            let (server, request, barrier, full, slipped, dropped, bad, first, last) =
                (server.clone(), request.clone(), barrier.clone(), full.clone(), slipped.clone(), dropped.clone(), bad.clone(), first.clone(), last.clone());
            let (per, ye) = (b.per_thread, b.yield_every);
            handles.push(std::thread::spawn(move || {
                let mut buf = vec![0u8; 1232];
                let src = IpAddr::V4(Ipv4Addr::new(198, 51, 100, 9));
                barrier.wait();
                let t0 = Instant::now();
                {
                    let mut f = first.lock().unwrap();
                    if f.map(|x| t0 < x).unwrap_or(true) {
                        *f = Some(t0);
                    }
                }
                for i in 0..per {
                    match server.handle_message(&request, ReceivedInfo::new(src, Transport::Udp), &mut buf) {
                        Response::None => {
                            dropped.fetch_add(1, Ordering::Relaxed);
                        }
                        Response::Single(len) => {
                            if len < 12 {
                                bad.fetch_add(1, Ordering::Relaxed);
                            } else if buf[2] & 0x02 != 0 && category == 3 {
                                // the stream's ordinary (truncated) response; nothing is slipped with slip 0
                                full.fetch_add(1, Ordering::Relaxed);
                            } else if buf[2] & 0x02 != 0 {
                                // TC set: slipped; must carry no records
                                if buf[6..10] != [0, 0, 0, 0] {
                                    bad.fetch_add(1, Ordering::Relaxed);
                                }
                                slipped.fetch_add(1, Ordering::Relaxed);
                            } else {
                                full.fetch_add(1, Ordering::Relaxed);
                            }
                        }
                    }
                    if ye > 0 && i % ye as u16 == 0 {
                        std::thread::yield_now();
                    }
                }
                let t1 = Instant::now();
                let mut l = last.lock().unwrap();
                if l.map(|x| t1 > x).unwrap_or(true) {
                    *l = Some(t1);
                }
            }));
        }
        for h in handles {
            if h.join().is_err() {
                fail!("panic-in-request-thread", "a thread calling handle_message panicked ({b:?})");
            }
        }
        let span = last.lock().unwrap().unwrap().duration_since(first.lock().unwrap().unwrap());
        if span > Duration::from_millis(900) {
            st.discard("burst-took-longer-than-0.9s");
            continue;
        }
        st.evals(total);
        let (f, s, d, bad) = (full.load(Ordering::SeqCst), slipped.load(Ordering::SeqCst), dropped.load(Ordering::SeqCst), bad.load(Ordering::SeqCst));
        let what = format!("{} threads x {} requests, limit {limit}, slip {}: {f} full responses, {s} slipped, {d} dropped, burst took {:?}", b.threads, b.per_thread, b.slip, span);
        ensure!(bad == 0, "malformed-limited-response", "{what}: {bad} responses were malformed or slipped with records");
        ensure!(f == total.min(limit), if f > total.min(limit) { "more-responses-than-the-limit" } else { "fewer-responses-than-the-limit" }, "{what}; expected exactly {}", total.min(limit));
        ensure!(f + s + d == total, "lost-requests", "{what}");
        ensure!(b.slip != 0 || s == 0, "slipped-with-slip-0", "{what}");
        ensure!(b.slip != 1 || d == 0, "dropped-with-slip-1", "{what}");
        st.class_n("bursts", 1);
        if category == 3 {
            st.class("burst-on-a-stream-of-truncated-responses");
        }
        if b.saturated_neighbour {
            st.class(if b.size == 1 { "burst-taking-over-the-saturated-bucket-of-another-stream" } else { "burst-after-a-saturated-stream-of-another-network" });
        }
        st.class_n("requests", total);
        st.class_n("responses-limited", s + d);
        if total > limit && b.threads >= 4 {
            st.nontrivial(b, || json!({"burst": b, "full": f, "slipped": s, "dropped": d, "span_us": span.as_micros() as u64}));
        }
        return Ok(());
    }
    st.discard("burst-never-finished-within-0.9s");
    Ok(())
}

////////////////////////////////////////////////////////////////////////
// C32: swaps of catalogs and key sets under real threads              //
////////////////////////////////////////////////////////////////////////

#[derive(Clone, Debug, Serialize, Deserialize, PartialEq, Eq, Hash)]
pub struct SwapRun {
    pub queriers: u8,
    pub queries_each: u16,
    pub generations: u16,
    pub swapper_pause_us: u16,
    pub signed_pct: u8,
    /// catalogs and key sets are replaced by two different threads instead of one
    #[serde(default)]
    pub two_swappers: bool,
    /// a further thread keeps installing *empty* key sets (a second concurrent caller of
    /// set_tsig_keys); queries are unsigned in such runs, the key set is judged at the end
    #[serde(default)]
    pub empty_key_rival: bool,
}

fn swap_run() -> impl Strategy<Value = SwapRun> {
    (2u8..=8, 50u16..400, 3u16..200, prop_oneof![Just(0u16), 1u16..200], 0u8..=100, any::<bool>(), prop::bool::weighted(0.3))
        .prop_map(|(queriers, queries_each, generations, swapper_pause_us, signed_pct, two_swappers, empty_key_rival)| SwapRun { queriers, queries_each, generations, swapper_pause_us, signed_pct: if empty_key_rival { 0 } else { signed_pct }, two_swappers, empty_key_rival })
}

/// Every record of generation g carries g: last octet(s) of addresses, TTLs, SOA serial.
fn gen_catalog(g: u32) -> CatalogSpec {
    let ttl = 1000 + g;
    CatalogSpec {
        zones: vec![ZoneSpec {
            apex: n(&[b"g", b"test"]),
            class: 1,
            kind: 0,
            recs: vec![
                RecSpec { owner: rel(&[]), ttl, rd: RdSpec::Soa { minimum: 100_000 + g, serial: g as u8 } },
                RecSpec { owner: rel(&[]), ttl, rd: RdSpec::Single(mr::T_NS, rel(&[b"ns"])) },
                RecSpec { owner: rel(&[b"ns"]), ttl, rd: RdSpec::A(g as u8) },
                RecSpec { owner: rel(&[b"www"]), ttl, rd: RdSpec::Mx(10, rel(&[b"mail"])) },
                RecSpec { owner: rel(&[b"mail"]), ttl, rd: RdSpec::A(g as u8) },
                RecSpec { owner: rel(&[b"sub"]), ttl, rd: RdSpec::Single(mr::T_NS, rel(&[b"ns", b"sub"])) },
                RecSpec { owner: rel(&[b"ns", b"sub"]), ttl, rd: RdSpec::A(g as u8) },
            ],
        }],
        single: false,
    }
}

fn secret(g: u32) -> Vec<u8> {
    let mut s = b"generation-secret-".to_vec();
    s.extend_from_slice(&g.to_be_bytes());
    s
}

fn key_name() -> MName {
    n(&[b"k", b"keys", b"test"])
}

fn keys(g: u32) -> Arc<TsigKeyMap> {
    let mut m = TsigKeyMap::new();
    m.insert(qn(&key_name()), (Algorithm::HmacSha256, secret(g).into_boxed_slice()));
    Arc::new(m)
}

fn sign(msg: &[u8], secret: &[u8], time: u64) -> (Vec<u8>, Vec<u8>) {
    let id = u16::from_be_bytes([msg[0], msg[1]]);
    let mut with_count = msg.to_vec();
    let ar = u16::from_be_bytes([with_count[10], with_count[11]]).wrapping_add(1);
    with_count[10..12].copy_from_slice(&ar.to_be_bytes());
    let vars = mt::Vars { key_name: key_name(), alg_name: Alg::Sha256.name(), time_signed: time, fudge: 3600, error: 0, other: Vec::new() };
    let mac = mt::hmac(Alg::Sha256, secret, &mt::request_digest_input(&with_count, id, &vars));
    let rd = mr::encode_tsig(&mr::TsigRdata { algorithm: Alg::Sha256.name(), time_signed: time, fudge: 3600, mac: mac.clone(), original_id: id, error: 0, other: Vec::new() });
    let mut bytes = with_count;
    bytes.extend_from_slice(&key_name().wire());
    bytes.extend_from_slice(&mr::T_TSIG.to_be_bytes());
    bytes.extend_from_slice(&255u16.to_be_bytes());
    bytes.extend_from_slice(&0u32.to_be_bytes());
    bytes.extend_from_slice(&(rd.len() as u16).to_be_bytes());
    bytes.extend_from_slice(&rd);
    (bytes, mac)
}

/// The generation markers of a response: every record must name the same one.
fn generations_in(d: &vmodel::wire::MessageDecode) -> Result<Vec<u32>, String> {
    let mut out = Vec::new();
    for r in d.all_rrs() {
        match r.rtype {
            mr::T_OPT | mr::T_TSIG => continue,
            mr::T_A => {
                out.push(*r.rdata.get(3).ok_or("short A")? as u32);
                out.push(r.ttl_raw.wrapping_sub(1000));
            }
            mr::T_SOA => {
                let l = r.rdata.len();
                if l < 20 {
                    return Err("short SOA".into());
                }
                out.push(u32::from_be_bytes(r.rdata[l - 20..l - 16].try_into().unwrap()));
                out.push(u32::from_be_bytes(r.rdata[l - 4..].try_into().unwrap()).wrapping_sub(100_000));
                // negative answers: min(SOA TTL, MINIMUM) = 1000 + g
                out.push(r.ttl_raw.wrapping_sub(1000));
            }
            mr::T_NS | mr::T_MX => out.push(r.ttl_raw.wrapping_sub(1000)),
            other => return Err(format!("unexpected record type {other}")),
        }
    }
    Ok(out)
}

pub fn oracle_c32(w: &SwapRun, st: &mut Stats) -> Verdict {
    let cats: Arc<Vec<Arc<Cat>>> = Arc::new((0..=w.generations as u32).map(|g| tree(&gen_catalog(g))).collect());
    let server = Server::new(cats[1].clone());
    server.set_tsig_keys(keys(1));
    let server = Arc::new(server);
    let cat_started = Arc::new(AtomicU64::new(1));
    let cat_installed = Arc::new(AtomicU64::new(1));
    let key_started = Arc::new(AtomicU64::new(1));
    let key_installed = Arc::new(AtomicU64::new(1));
    let done = Arc::new(AtomicBool::new(false));
    let failure: Arc<std::sync::Mutex<Option<(String, String)>>> = Arc::new(std::sync::Mutex::new(None));
    let overlapped = Arc::new(AtomicU64::new(0));
    let checked = Arc::new(AtomicU64::new(0));

    // which = 0: both replacements on one thread; 1: catalogs only; 2: key sets only
    let spawn_swapper = |which: u8| {
        let (server, cats, cs, ci, ks, ki, done) = (server.clone(), cats.clone(), cat_started.clone(), cat_installed.clone(), key_started.clone(), key_installed.clone(), done.clone());
        let (gens, pause) = (w.generations as u64, w.swapper_pause_us);
        std::thread::spawn(move || {
            for g in 2..=gens {
                if done.load(Ordering::SeqCst) {
                    break;
                }
                if which != 2 {
                    cs.store(g, Ordering::SeqCst);
                    server.set_catalog(cats[g as usize].clone());
                    ci.store(g, Ordering::SeqCst);
                }
                if which != 1 {
                    ks.store(g, Ordering::SeqCst);
                    server.set_tsig_keys(keys(g as u32));
                    ki.store(g, Ordering::SeqCst);
                }
                if pause > 0 {
                    std::thread::sleep(Duration::from_micros(pause as u64));
                } else {
                    std::thread::yield_now();
                }
            }
        })
    };
    let mut swappers = if w.two_swappers { vec![spawn_swapper(1), spawn_swapper(2)] } else { vec![spawn_swapper(0)] };
    if w.empty_key_rival {
        let (server, done, gens) = (server.clone(), done.clone(), w.generations);
        swappers.push(std::thread::spawn(move || {
            for _ in 0..gens {
                if done.load(Ordering::SeqCst) {
                    break;
                }
                server.set_tsig_keys(Arc::new(TsigKeyMap::new()));
                std::thread::yield_now();
            }
        }));
    }
    let mut handles = Vec::new();
    for qi in 0..w.queriers {
        let (server, cs, ci, ks, ki, failure, overlapped, checked) = (server.clone(), cat_started.clone(), cat_installed.clone(), key_started.clone(), key_installed.clone(), failure.clone(), overlapped.clone(), checked.clone());
        let (each, signed_pct) = (w.queries_each, w.signed_pct);
        handles.push(std::thread::spawn(move || {
            let mut buf = vec![0u8; 65535];
            let src = IpAddr::V4(Ipv4Addr::new(192, 0, 2, 20 + qi));
            for k in 0..each {
                if failure.lock().unwrap().is_some() {
                    return;
                }
                let kind = (k as usize + qi as usize) % 4;
                let (qname, qtype) = match kind {
                    0 => (n(&[b"www", b"g", b"test"]), mr::T_MX),
                    1 => (n(&[b"deep", b"sub", b"g", b"test"]), mr::T_A),
                    2 => (n(&[b"missing", b"g", b"test"]), mr::T_A),
                    _ => (n(&[b"g", b"test"]), mr::T_NS),
                };
                let mut b = Builder::new(0x3200u16.wrapping_add(k), 0);
                b.question(&qname, qtype, 1);
                b.rr(3, &MName::root(), mr::T_OPT, 4096, 0, &[]);
                let key_lo = ki.load(Ordering::SeqCst);
                let cat_lo = ci.load(Ordering::SeqCst);
                let signed = if ((k as u32 * 37 + qi as u32 * 11) % 100) < signed_pct as u32 {
                    let now = std::time::SystemTime::now().duration_since(std::time::UNIX_EPOCH).map(|d| d.as_secs()).unwrap_or(0);
                    Some((key_lo, sign(&b.buf, &secret(key_lo as u32), now)))
                } else {
                    None
                };
                let request: &[u8] = match &signed {
                    Some((_, (bytes, _))) => bytes,
                    None => &b.buf,
                };
                let tcp = k % 3 == 0;
                let r = server.handle_message(request, ReceivedInfo::new(src, if tcp { Transport::Tcp } else { Transport::Udp }), &mut buf);
                let key_hi = ks.load(Ordering::SeqCst);
                let cat_hi = cs.load(Ordering::SeqCst);
                if cat_hi > cat_lo || key_hi > key_lo {
                    overlapped.fetch_add(1, Ordering::Relaxed);
                }
                let mut report = |sig: &str, detail: String| {
                    let mut f = failure.lock().unwrap();
                    if f.is_none() {
                        *f = Some((sig.to_string(), detail));
                    }
                };
                let len = match r {
                    Response::Single(l) => l,
                    Response::None => return report("no-response", format!("query kind {kind} got no response")),
                };
                let d = match vmodel::wire::decode_message_opts(&buf[..len], true) {
                    Ok(d) => d,
                    Err(e) => return report("response-does-not-decode", format!("{e:?}")),
                };
                let ctx = format!("query kind {kind}: catalog generations {cat_lo}..{cat_hi}, key sets {key_lo}..{key_hi}; response {d:?}");
                let mut answered = true;
                if let Some((gen, (_, mac))) = &signed {
                    let Some(t) = d.tsig() else { return report("signed-request-answered-without-tsig", ctx) };
                    let Some(rd) = mr::parse_tsig(&t.rdata) else { return report("response-tsig-malformed", ctx) };
                    if rd.error == 0 && d.header.rcode != 9 {
                        if !(*gen >= key_lo && *gen <= key_hi) {
                            return report("request-verified-with-a-key-set-that-was-never-current", ctx);
                        }
                        let vars = mt::Vars { key_name: key_name(), alg_name: rd.algorithm.clone(), time_signed: rd.time_signed, fudge: rd.fudge, error: rd.error, other: rd.other.clone() };
                        let expect = mt::hmac(Alg::Sha256, &secret(*gen as u32), &mt::response_digest_input(mac, &buf[..t.start], rd.original_id, &vars));
                        if expect != rd.mac {
                            return report("response-signed-with-a-different-key-generation", ctx);
                        }
                    } else {
                        answered = false;
                        if key_lo == key_hi && *gen == key_lo {
                            return report("valid-signature-rejected", ctx);
                        }
                        if d.header.rcode != 9 || rd.error != 16 || !rd.mac.is_empty() || !d.answers.is_empty() || !d.authority.is_empty() {
                            return report("inconsistent-tsig-rejection", ctx);
                        }
                    }
                }
                if answered {
                    let mut seen = match generations_in(&d) {
                        Ok(s) => s,
                        Err(e) => return report("unexpected-record", format!("{e}; {ctx}")),
                    };
                    if seen.is_empty() {
                        return report("empty-answer", ctx);
                    }
                    seen.sort_unstable();
                    seen.dedup();
                    if seen.len() != 1 {
                        return report("mixed-catalog-generations-in-one-response", format!("markers {seen:?}; {ctx}"));
                    }
                    let g = seen[0] as u64;
                    if g < cat_lo {
                        return report("stale-catalog-after-set_catalog-returned", format!("generation {g}; {ctx}"));
                    }
                    if g > cat_hi {
                        return report("catalog-generation-from-the-future", format!("generation {g}; {ctx}"));
                    }
                }
                checked.fetch_add(1, Ordering::Relaxed);
            }
        }));
    }
    let mut panicked = false;
    for h in handles {
        panicked |= h.join().is_err();
    }
    done.store(true, Ordering::SeqCst);
    for h in swappers {
        panicked |= h.join().is_err();
    }
    ensure!(!panicked, "panic-in-thread", "a thread panicked during {w:?}");
    if let Some((sig, detail)) = failure.lock().unwrap().take() {
        fail!(sig, "{detail}");
    }
    // every replacement has returned: the newest catalog and the newest key set must be in use
    {
        let (cat_final, key_final) = (cat_installed.load(Ordering::SeqCst), key_installed.load(Ordering::SeqCst));
        let mut buf = vec![0u8; 65535];
        let src = IpAddr::V4(Ipv4Addr::new(192, 0, 2, 99));
        let mut b = Builder::new(0x32ff, 0);
        b.question(&n(&[b"g", b"test"]), mr::T_NS, 1);
        b.rr(3, &MName::root(), mr::T_OPT, 4096, 0, &[]);
        let now = std::time::SystemTime::now().duration_since(std::time::UNIX_EPOCH).map(|d| d.as_secs()).unwrap_or(0);
        // the catalog and the key set the server reports are the ones it uses
        ensure!(Arc::ptr_eq(&server.catalog(), &cats[cat_final as usize]), "stale-catalog-after-set_catalog-returned", "Server::catalog() is not the catalog of generation {cat_final}, whose installation has returned");
        let km = server.tsig_keys();
        let installed: Option<u32> = km.get(&qn(&key_name())).and_then(|(_, sec)| (1..=w.generations as u32).find(|g| secret(*g)[..] == sec[..]));
        if !w.empty_key_rival {
            ensure!(installed == Some(key_final as u32), "stale-key-set-after-set_tsig_keys-returned", "Server::tsig_keys() holds generation {installed:?}, generation {key_final} has been installed");
        }
        let (signed, _) = sign(&b.buf, &secret(installed.unwrap_or(1)), now);
        for (request, is_signed) in [(&b.buf, false), (&signed, true)] {
            let len = match server.handle_message(request, ReceivedInfo::new(src, Transport::Tcp), &mut buf) {
                Response::Single(l) => l,
                Response::None => fail!("no-response", "the final query got no response"),
            };
            let d = match vmodel::wire::decode_message_opts(&buf[..len], true) {
                Ok(d) => d,
                Err(e) => fail!("response-does-not-decode", "{e:?}"),
            };
            let ctx = format!("final query after every replacement returned (catalog generation {cat_final}, key set {key_final}, two swapper threads: {}); response {d:?}", w.two_swappers);
            if is_signed {
                let rd = d.tsig().and_then(|t| mr::parse_tsig(&t.rdata));
                match (installed, rd) {
                    (Some(_), Some(rd)) => ensure!(rd.error == 0 && d.header.rcode != 9, "handling-disagrees-with-the-installed-key-set", "Server::tsig_keys() holds generation {installed:?}; {ctx}"),
                    (None, Some(rd)) => {
                        ensure!(d.header.rcode == 9 && rd.error == 17, "handling-disagrees-with-the-installed-key-set", "Server::tsig_keys() holds no key; {ctx}");
                        continue;
                    }
                    (_, None) => fail!("signed-request-answered-without-tsig", "{ctx}"),
                }
            }
            let mut seen = generations_in(&d).map_err(|e| crate::fw::Fail::new("unexpected-record", format!("{e}; {ctx}")))?;
            seen.sort_unstable();
            seen.dedup();
            ensure!(seen == vec![cat_final as u32], "stale-catalog-after-set_catalog-returned", "markers {seen:?}; {ctx}");
        }
    }
    st.class(if w.two_swappers { "catalogs-and-key-sets-replaced-by-two-threads" } else { "catalogs-and-key-sets-replaced-by-one-thread" });
    if w.empty_key_rival {
        st.class("runs-with-a-second-thread-installing-empty-key-sets");
    }
    let c = checked.load(Ordering::SeqCst);
    let o = overlapped.load(Ordering::SeqCst);
    st.evals(c);
    st.class_n("responses-checked", c);
    st.class_n("requests-overlapping-a-swap", o);
    if o > 0 {
        st.nontrivial(w, || json!({"run": w, "requests_overlapping_a_swap": o, "responses_checked": c}));
    }
    Ok(())
}

////////////////////////////////////////////////////////////////////////
// DRIVER                                                             //
////////////////////////////////////////////////////////////////////////

fn write_summary(id: &str, ctx: &Ctx, report: &Report) {
    let body = json!({
        "property": id,
        "tier": ctx.tier.as_str(),
        "seed": ctx.seed,
        "engine": "OS threads on the normal build (std::sync), generated thread counts / burst sizes / yields",
        "evaluations": report.stats.evaluations,
        "distinct_nontrivial": report.stats.nontrivial.len(),
        "classes": report.stats.classes,
        "discarded": report.stats.discarded,
        "violations": report.violations.len(),
    });
    let _ = std::fs::create_dir_all("/verif/.work");
    let _ = std::fs::write(format!("/verif/.work/stress-{id}.json"), serde_json::to_string_pretty(&body).unwrap());
}

pub fn run(ctx: &Ctx, report: &mut Report) {
    // Bursts use many OS threads themselves, so few shards run at a time.
    let sub = Ctx { id: ctx.id.clone(), tier: ctx.tier, seed: ctx.seed, shards: 2 };
    if ctx.id == "C28S" {
        report.rule = "bursts with more requests than the limit from at least four OS threads".into();
        let cases = ctx.tier.pick(300, 6000);
        run_prop(&sub, report, PropSpec { name: "rrl-os-thread-bursts", cases, max_shrink_iters: 60 }, burst, oracle_c28);
        write_summary("C28", ctx, report);
    } else {
        report.rule = "runs in which at least one request overlapped a catalog or key-set replacement".into();
        let cases = ctx.tier.pick(200, 4000);
        run_prop(&sub, report, PropSpec { name: "snapshot-os-thread-swaps", cases, max_shrink_iters: 60 }, swap_run, oracle_c32);
        write_summary("C32", ctx, report);
    }
}

pub fn replay(check: &str, case: &serde_json::Value) -> Verdict {
    if check == "rrl-os-thread-bursts" {
        replay_case::<Burst, _>(case, oracle_c28)
    } else {
        replay_case::<SwapRun, _>(case, oracle_c32)
    }
}
