//! C22 — catalog updates never disturb unrelated entries (oracle: vmodel::zone::MCatalog).

use std::sync::Arc;

use proptest::prelude::*;
use quandary::class::Class;
use quandary::db::catalog::Entry;
use quandary::db::zone::GluePolicy;
use quandary::db::{Catalog, HashMapTreeCatalog, HashMapTreeZone, SingleZoneCatalog};
use quandary::name::Name;
use serde::{Deserialize, Serialize};
use serde_json::json;
use vmodel::name::MName;
use vmodel::zone::MCatalog;

use crate::fw::{catch, panic_signature, run_prop, Ctx, PropSpec, Report, Stats, Verdict};
use crate::gen::{flip_case, pick};
use crate::{ensure, fail};

#[derive(Clone, Debug, Serialize, Deserialize, PartialEq, Eq, Hash)]
pub enum Op {
    /// (name selector, case mask, class selector, entry kind 0..3)
    Insert(u16, u64, u8, u8),
    Remove(u16, u64, u8),
    Lookup(u16, u64, u8),
    Get(u16, u64, u8),
    Iter,
    /// insert a Loaded entry that shares its zone object (the same `Arc`) with the Loaded entry inserted
    /// last at this name and class, with fresh metadata: (name selector, case mask, class selector)
    Reinsert(u16, u64, u8),
    /// continue with a clone of the catalog (copy-on-write updates of a served catalog clone it first)
    CloneCatalog,
}

#[derive(Clone, Debug, Serialize, Deserialize, PartialEq, Eq, Hash)]
pub struct Case {
    pub names: Vec<MName>,
    pub ops: Vec<Op>,
}

const CLASSES: [u16; 3] = [1, 3, 300];

fn qn(m: &MName) -> Box<Name> {
    Name::try_from_uncompressed_all(&m.wire()).unwrap()
}

type E = Entry<HashMapTreeZone, u32>;

/// (kind, folded name, class, id)
type Ident = (u8, MName, u16, u32);

fn ident(e: &E) -> Ident {
    let kind = match e {
        Entry::Loaded(..) => 0,
        Entry::NotYetLoaded(..) => 1,
        Entry::FailedToLoad(..) => 2,
    };
    let name = MName::from_wire(e.name().wire_repr()).unwrap().0.folded();
    (kind, name, u16::from(e.class()), *e.metadata())
}

fn make_entry(name: &MName, class: u16, kind: u8, id: u32) -> E {
    match kind % 3 {
        0 => Entry::Loaded(Arc::new(HashMapTreeZone::new(qn(name), Class::from(class), GluePolicy::Narrow)), id),
        1 => Entry::NotYetLoaded(qn(name), Class::from(class), id),
        _ => Entry::FailedToLoad(qn(name), Class::from(class), id),
    }
}

pub fn oracle(case: &Case, st: &mut Stats) -> Verdict {
    if case.names.is_empty() {
        return Ok(());
    }
    let mut cat: HashMapTreeCatalog<HashMapTreeZone, u32> = HashMapTreeCatalog::new();
    let mut model: MCatalog<Ident> = MCatalog::new();
    let mut remove_under_ancestor = false;
    let mut next_id = 0u32;
    let mut zones: std::collections::HashMap<(MName, u16), Arc<HashMapTreeZone>> = std::collections::HashMap::new();
    macro_rules! g {
        ($i:expr, $what:expr, $body:expr) => {
            match catch(|| $body) {
                Ok(v) => v,
                Err(p) => fail!(panic_signature(&p), "op #{} {} panicked: {p}", $i, $what),
            }
        };
    }
    for (i, op) in case.ops.iter().enumerate() {
        st.eval();
        match op {
            Op::Insert(s, mask, c, kind) => {
                let name = flip_case(&case.names[pick(*s, case.names.len())], *mask);
                let class = CLASSES[*c as usize % 3];
                next_id += 1;
                let e = make_entry(&name, class, *kind, next_id);
                if let Entry::Loaded(z, _) = &e {
                    zones.insert((name.folded(), class), z.clone());
                }
                let id = ident(&e);
                let prev = g!(i, "insert", cat.insert(e));
                let mprev = model.insert(&name, class, id);
                ensure!(
                    prev.as_ref().map(ident) == mprev,
                    "insert-return",
                    "op #{i} insert({name}, class {class}) returned {:?}, reference {:?}",
                    prev.as_ref().map(ident),
                    mprev
                );
            }
            Op::Reinsert(s, mask, c) => {
                let name = flip_case(&case.names[pick(*s, case.names.len())], *mask);
                let class = CLASSES[*c as usize % 3];
                if let Some(z) = zones.get(&(name.folded(), class)).cloned() {
                    next_id += 1;
                    if matches!(model.get(&name, class), Some((0, ..))) {
                        st.class("loaded-entry-replaced-by-one-sharing-its-zone-object");
                    }
                    let e: E = Entry::Loaded(z, next_id);
                    let id = ident(&e);
                    let prev = g!(i, "insert", cat.insert(e));
                    let mprev = model.insert(&name, class, id);
                    ensure!(
                        prev.as_ref().map(ident) == mprev,
                        "insert-return",
                        "op #{i} insert({name}, class {class}, the zone object inserted there before, new metadata {next_id}) returned {:?}, reference {:?}",
                        prev.as_ref().map(ident),
                        mprev
                    );
                }
            }
            Op::Remove(s, mask, c) => {
                let name = flip_case(&case.names[pick(*s, case.names.len())], *mask);
                let class = CLASSES[*c as usize % 3];
                let had = model.get(&name, class).is_some();
                let ancestor_entry = name.parent().map_or(false, |p| model.lookup(&p, class).is_some());
                if had && ancestor_entry {
                    remove_under_ancestor = true;
                }
                let prev = g!(i, "remove", cat.remove(&qn(&name), Class::from(class)));
                let mprev = model.remove(&name, class);
                ensure!(
                    prev.as_ref().map(ident) == mprev,
                    "remove-return",
                    "op #{i} remove({name}, class {class}) returned {:?}, reference {:?}",
                    prev.as_ref().map(ident),
                    mprev
                );
            }
            Op::CloneCatalog => {
                let copy = g!(i, "clone", cat.clone());
                cat = copy;
                st.class("history-continued-on-a-clone-of-the-catalog");
            }
            Op::Lookup(..) | Op::Get(..) | Op::Iter => {}
        }
        // after every step: every (name, class) pair of the pool is looked up both ways, plus iteration
        for n in &case.names {
            for class in CLASSES {
                let q = qn(n);
                let got = g!(i, "lookup", cat.lookup(&q, Class::from(class)).map(ident));
                let want = model.lookup(n, class).map(|(_, e)| e.clone());
                ensure!(
                    got == want,
                    if want.is_some() && got.is_none() { "lookup-lost-entry" } else { "lookup-mismatch" },
                    "after op #{i} {op:?}: lookup({n}, class {class}) = {got:?}, reference (longest suffix match) {want:?}"
                );
                let got = g!(i, "get", cat.get(&q, Class::from(class)).map(ident));
                let want = model.get(n, class).cloned();
                ensure!(
                    got == want,
                    "get-mismatch",
                    "after op #{i} {op:?}: get({n}, class {class}) = {got:?}, reference (exact match) {want:?}"
                );
            }
        }
        let mut got: Vec<Ident> = g!(i, "iter", cat.iter().map(ident).collect());
        got.sort();
        let mut want: Vec<Ident> = model.entries.values().cloned().collect();
        want.sort();
        ensure!(got == want, "iter-mismatch", "after op #{i} {op:?}: iter yields {got:?}, reference {want:?}");
        // a clone is an independent, equal catalog
        if i % 7 == 0 {
            let cl = cat.clone();
            let mut c2: Vec<Ident> = cl.iter().map(ident).collect();
            c2.sort();
            ensure!(c2 == want, "clone-mismatch", "clone differs after op #{i}");
        }
    }
    if remove_under_ancestor {
        st.class("remove-below-an-ancestor-entry");
        st.nontrivial(case, || json!({"names": case.names.iter().map(|n| n.to_text()).collect::<Vec<_>>(), "ops": format!("{:?}", case.ops)}));
    }
    // SingleZoneCatalog: lookup = suffix match on its single entry, get = exact
    if let Some(first) = case.names.first() {
        for kind in 0..3u8 {
            let class = CLASSES[(case.ops.len() + kind as usize) % 3];
            let e = make_entry(first, class, kind, 7);
            let id = ident(&e);
            let sc = SingleZoneCatalog::new(e);
            ensure!(ident(sc.entry()) == id, "single-entry", "SingleZoneCatalog::entry differs");
            // besides the pool: names whose wire form ends with the entry's wire form although they are not at or below it
            let mut probes: Vec<MName> = case.names.clone();
            if let Some(m) = crate::gen::merged_confusable(first) {
                probes.push(m.child(b"www"));
                probes.push(m);
                st.class("single-zone-lookup-of-wire-confusable-names");
            }
            if let Some(l0) = first.labels.first() {
                let mut labels = first.labels.clone();
                let mut f = vec![b'x', l0.len() as u8];
                f.extend_from_slice(l0);
                labels[0] = f;
                let n = MName { labels };
                if n.is_valid() {
                    probes.push(n);
                }
            }
            for n in &probes {
                for c in CLASSES {
                    st.eval();
                    let q = qn(n);
                    let got = match catch(|| sc.lookup(&q, Class::from(c)).map(ident)) {
                        Ok(v) => v,
                        Err(p) => fail!(panic_signature(&p), "SingleZoneCatalog::lookup panicked: {p}"),
                    };
                    let want = if c == class && n.at_or_below(first) { Some(id.clone()) } else { None };
                    ensure!(got == want, "single-lookup", "SingleZoneCatalog({first}, class {class}).lookup({n}, class {c}) = {got:?}, reference {want:?}");
                    let got = match catch(|| sc.get(&q, Class::from(c)).map(ident)) {
                        Ok(v) => v,
                        Err(p) => fail!(panic_signature(&p), "SingleZoneCatalog::get panicked: {p}"),
                    };
                    let want = if c == class && n.eq_fold(first) { Some(id.clone()) } else { None };
                    ensure!(got == want, "single-get", "SingleZoneCatalog({first}, class {class}).get({n}, class {c}) = {got:?}, reference {want:?}");
                }
            }
        }
    }
    Ok(())
}

fn case_strategy() -> impl Strategy<Value = Case> {
    // nested names: chains of parents/children from a small alphabet, root included
    let names = prop::collection::vec((prop::collection::vec(prop_oneof![Just(b"a".to_vec()), Just(b"b".to_vec()), Just(b"test".to_vec()), Just(b"*".to_vec())], 0..4), any::<bool>()), 2..7).prop_map(|v| {
        let mut names: Vec<MName> = Vec::new();
        for (labels, with_parents) in v {
            let n = MName { labels };
            if with_parents {
                let mut p = n.clone();
                while let Some(pp) = p.parent() {
                    if !names.contains(&pp) {
                        names.push(pp.clone());
                    }
                    p = pp;
                }
            }
            if !names.contains(&n) {
                names.push(n);
            }
        }
        names
    });
    let mask = || prop_oneof![3 => Just(0u64), 1 => any::<u64>()];
    let op = prop_oneof![
        5 => (any::<u16>(), mask(), 0u8..3, 0u8..3).prop_map(|(s, m, c, k)| Op::Insert(s, m, c, k)),
        4 => (any::<u16>(), mask(), 0u8..3).prop_map(|(s, m, c)| Op::Remove(s, m, c)),
        1 => Just(Op::Iter),
        2 => (any::<u16>(), mask(), 0u8..3).prop_map(|(s, m, c)| Op::Reinsert(s, m, c)),
        1 => Just(Op::CloneCatalog),
    ];
    (names, prop::collection::vec(op, 0..50)).prop_map(|(names, ops)| Case { names, ops })
}

pub fn run(ctx: &Ctx, report: &mut Report) {
    report.rule = "histories of up to 50 inserts (all three entry kinds) and removes over 2-12 nested names (root included, case \
        variants) in three classes on a HashMapTreeCatalog; after EVERY step lookup and get of every pool name in every class \
        and the full iteration are compared with a reference map (longest suffix / exact / set); SingleZoneCatalog lookup/get \
        checked per case. evaluations = steps. Non-trivial = history in which a remove hits an entry while an ancestor also \
        holds an entry."
        .into();
    report.assumptions.push("reference catalog vmodel::zone::MCatalog (BTreeMap keyed by class and folded name)".into());
    run_prop(ctx, report, PropSpec { name: "catalog-history", cases: ctx.tier.pick(200_000, 3_000_000), max_shrink_iters: 8192 }, case_strategy, oracle);
}

pub fn replay(_check: &str, case: &serde_json::Value) -> Verdict {
    crate::fw::replay_case::<Case, _>(case, oracle)
}
