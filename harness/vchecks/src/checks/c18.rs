//! C18 — RDATA reading, validation and writing are mutually consistent
//! (oracle: vmodel::rdata, written from the defining RFCs).

use proptest::prelude::*;
use quandary::class::Class;
use quandary::message::writer::{CompressionMode, Hint, HintedName};
use quandary::message::{Qclass, Qtype, Question, Reader, Writer};
use quandary::name::Name;
use quandary::rr::{Rdata, Ttl, Type};
use serde::{Deserialize, Serialize};
use serde_json::json;
use vmodel::name::MName;
use vmodel::rdata::{self as mr, decode_in_message};
use vmodel::wire::decode_message;

use crate::fw::{catch, panic_signature, run_prop, Ctx, PropSpec, Report, Stats, Verdict};
use crate::gen::pick;
use crate::msggen::{gen_name, invalid_rdata, valid_rdata, FieldSpec, Renderer};
use crate::{ensure, fail};

fn hex(b: &[u8]) -> String {
    b.iter().map(|x| format!("{x:02x}")).collect()
}

fn flat(fields: &[FieldSpec]) -> Vec<u8> {
    let mut out = Vec::new();
    for f in fields {
        match f {
            FieldSpec::Bytes(b) => out.extend_from_slice(b),
            FieldSpec::Name(n, _) => out.extend_from_slice(&n.wire()),
        }
    }
    out
}

fn known_pair(class: u16, rtype: u16) -> bool {
    mr::name_layout(class, rtype).is_some()
        || matches!(rtype, mr::T_HINFO | mr::T_TXT | mr::T_OPT | mr::T_TSIG)
        || (class == mr::C_IN && matches!(rtype, mr::T_A | mr::T_AAAA | mr::T_WKS))
}

////////////////////////////////////////////////////////////////////////
// 1. validate                                                        //
////////////////////////////////////////////////////////////////////////

#[derive(Clone, Debug, Serialize, Deserialize, PartialEq, Eq, Hash)]
pub struct ValidateCase {
    pub class: u16,
    pub rtype: u16,
    pub rdata: Vec<u8>,
}

pub fn oracle_validate(c: &ValidateCase, st: &mut Stats) -> Verdict {
    st.eval();
    let expect = mr::validate(c.class, c.rtype, &c.rdata);
    let rd: &Rdata = c.rdata.as_slice().try_into().unwrap();
    let got = match catch(|| rd.validate(Class::from(c.class), Type::from(c.rtype))) {
        Ok(r) => r,
        Err(p) => fail!(
            panic_signature(&p),
            "Rdata::validate(class {}, type {}, {}) panicked: {p}",
            c.class,
            c.rtype,
            hex(&c.rdata)
        ),
    };
    if known_pair(c.class, c.rtype) {
        st.class(if expect { "known-type-valid" } else { "known-type-invalid" });
        if !expect {
            st.nontrivial(c, || json!({"class": c.class, "type": c.rtype, "rdata_hex": hex(&c.rdata), "reference": "rejects"}));
        }
    } else {
        st.class("unknown-class-type");
    }
    ensure!(
        got.is_ok() == expect,
        if expect { "validate-rejects-valid" } else { "validate-accepts-invalid" },
        "Rdata::validate(class {}, type {}, {}) = {got:?}, but the defining RFC {} this encoding",
        c.class,
        c.rtype,
        hex(&c.rdata),
        if expect { "allows" } else { "does not allow" }
    );
    Ok(())
}

fn tsig_rdata() -> impl Strategy<Value = (u16, u16, Vec<FieldSpec>)> {
    (
        gen_name(),
        prop::collection::vec(any::<u8>(), 6..=6),
        any::<u16>(),
        prop::collection::vec(any::<u8>(), 0..40),
        any::<u16>(),
        any::<u16>(),
        prop::collection::vec(any::<u8>(), 0..8),
        0u8..6,
    )
        .prop_map(|(alg, time, fudge, mac, oid, err, other, breakage)| {
            let mut b = Vec::new();
            b.extend_from_slice(&time);
            b.extend_from_slice(&fudge.to_be_bytes());
            let mac_len = if breakage == 1 { mac.len() as u16 + 1 } else { mac.len() as u16 };
            b.extend_from_slice(&mac_len.to_be_bytes());
            b.extend_from_slice(&mac);
            b.extend_from_slice(&oid.to_be_bytes());
            b.extend_from_slice(&err.to_be_bytes());
            let other_len = if breakage == 2 { other.len() as u16 + 1 } else { other.len() as u16 };
            b.extend_from_slice(&other_len.to_be_bytes());
            b.extend_from_slice(&other);
            if breakage == 3 {
                b.push(0);
            }
            if breakage == 4 {
                b.pop();
            }
            (mr::T_TSIG, mr::C_ANY, vec![FieldSpec::Name(alg, 0), FieldSpec::Bytes(b)])
        })
}

fn opt_rdata() -> impl Strategy<Value = (u16, u16, Vec<FieldSpec>)> {
    (prop::collection::vec((any::<u16>(), prop::collection::vec(any::<u8>(), 0..6)), 0..4), 0u8..5, any::<u16>()).prop_map(|(opts, breakage, class)| {
        let mut b = Vec::new();
        for (code, data) in &opts {
            b.extend_from_slice(&code.to_be_bytes());
            b.extend_from_slice(&(data.len() as u16).to_be_bytes());
            b.extend_from_slice(data);
        }
        if breakage == 1 {
            b.push(7);
        }
        if breakage == 2 && !b.is_empty() {
            b.pop();
        }
        (mr::T_OPT, class, vec![FieldSpec::Bytes(b)])
    })
}

fn any_rdata() -> impl Strategy<Value = (u16, u16, Vec<FieldSpec>)> {
    prop_oneof![6 => valid_rdata(), 4 => invalid_rdata(), 1 => tsig_rdata(), 1 => opt_rdata()]
}

////////////////////////////////////////////////////////////////////////
// 2. read from a message                                             //
////////////////////////////////////////////////////////////////////////

#[derive(Clone, Debug, Serialize, Deserialize, PartialEq, Eq, Hash)]
pub struct ReadCase {
    /// names written (compressibly) before the RDATA so that pointers have targets
    pub prefix: Vec<MName>,
    pub class: u16,
    pub rtype: u16,
    pub fields: Vec<FieldSpec>,
    /// octets after the RDATA
    pub suffix: Vec<u8>,
    /// pad the message so that the last prefix name (the likely pointer target) starts
    /// exactly at this offset (256, 512: pointers whose second octet is zero)
    #[serde(default)]
    pub align_target: Option<u16>,
    /// after the prefix names: this many pointer-only chunks, the first pointing at the last prefix name,
    /// each next one at the previous; an embedded name written as a pointer then enters at the top
    #[serde(default)]
    pub ladder: u16,
    /// cursor adjustment (-2..=2) and RDLENGTH adjustment selector
    pub cursor_delta: i8,
    pub rdlength_mode: u8,
    pub rdlength_sel: u16,
}

pub fn oracle_read(c: &ReadCase, st: &mut Stats) -> Verdict {
    st.eval();
    let mut r = Renderer::new();
    r.buf.extend_from_slice(&[0u8; 12]);
    for (i, n) in c.prefix.iter().enumerate() {
        if let (Some(at), true) = (c.align_target, i + 1 == c.prefix.len()) {
            while r.buf.len() < at as usize {
                r.buf.push(0xee);
            }
        }
        r.put_name(n, 0xffff);
    }
    // the ladder: its top is where RDATA names written as bare pointers will point
    let mut ladder_top: Option<usize> = None;
    if c.ladder > 0 && !c.prefix.is_empty() {
        // the last prefix name starts where it was put: find it again by rendering its length
        let last = c.prefix.last().unwrap();
        let mut probe = Renderer::new();
        probe.buf.extend_from_slice(&[0u8; 12]);
        for n in &c.prefix[..c.prefix.len() - 1] {
            probe.put_name(n, 0xffff);
        }
        let mut target = probe.buf.len().max(c.align_target.map_or(0, |a| a as usize));
        let _ = last;
        for _ in 0..c.ladder {
            let here = r.buf.len();
            if target > 0x3fff {
                break;
            }
            r.buf.push(0xc0 | (target >> 8) as u8);
            r.buf.push(target as u8);
            target = here;
        }
        ladder_top = Some(target);
    }
    let start = r.buf.len();
    // offsets (relative to start) where embedded names begin
    let mut name_starts = Vec::new();
    for f in &c.fields {
        match f {
            FieldSpec::Bytes(b) => r.buf.extend_from_slice(b),
            FieldSpec::Name(n, comp) => {
                name_starts.push(r.buf.len() - start);
                match ladder_top {
                    // the name equal to the last prefix name, written as one pointer into the ladder
                    Some(top) if top <= 0x3fff && c.prefix.last().map_or(false, |p| p.eq_fold(n)) => {
                        r.buf.push(0xc0 | (top >> 8) as u8);
                        r.buf.push(top as u8);
                    }
                    _ => r.put_name(n, *comp),
                }
            }
        }
    }
    let true_len = r.buf.len() - start;
    r.buf.extend_from_slice(&c.suffix);
    let msg = r.buf;
    let cursor = (start as i64 + c.cursor_delta as i64).max(0) as usize;
    let rdlength: usize = match c.rdlength_mode {
        0..=5 => true_len,
        6 => true_len.saturating_sub(1),
        7 => true_len + 1,
        8 => {
            // ending exactly where an embedded name starts
            if name_starts.is_empty() {
                0
            } else {
                name_starts[pick(c.rdlength_sel, name_starts.len())]
            }
        }
        9 => 0,
        10 => pick(c.rdlength_sel, true_len + c.suffix.len() + 3),
        _ => c.rdlength_sel as usize,
    }
    .min(65535);
    if ladder_top.is_some() {
        st.class(if c.ladder >= 120 { "name-reached-through-120-or-more-pointers" } else { "name-reached-through-a-short-pointer-ladder" });
    }
    let model = decode_in_message(c.class, c.rtype, &msg, cursor, rdlength);
    let got = match catch(|| {
        Rdata::read(Class::from(c.class), Type::from(c.rtype), &msg, cursor, rdlength as u16).map(|r| r.octets().to_vec())
    }) {
        Ok(r) => r,
        Err(p) => fail!(
            panic_signature(&p),
            "Rdata::read(class {}, type {}, msg {}, cursor {cursor}, rdlength {rdlength}) panicked: {p}",
            c.class,
            c.rtype,
            hex(&msg)
        ),
    };
    let compressed = model.as_ref().map_or(false, |(_, names)| names.iter().any(|(_, d, _)| !d.pointers.is_empty()));
    if compressed {
        st.class("read-ok-with-compressed-name");
    }
    match &model {
        Ok(_) => st.class("reference-accepts"),
        Err(_) => st.class("reference-rejects"),
    }
    if compressed || (model.is_err() && known_pair(c.class, c.rtype)) {
        st.nontrivial(&(&msg, cursor, rdlength, c.class, c.rtype), || {
            json!({"class": c.class, "type": c.rtype, "msg_hex": hex(&msg), "cursor": cursor, "rdlength": rdlength, "reference_ok": model.is_ok()})
        });
    }
    match (got, model) {
        (Ok(g), Ok((m, _))) => {
            ensure!(
                g == m,
                "read-wrong-rdata",
                "Rdata::read(class {}, type {}, msg {}, cursor {cursor}, rdlength {rdlength}) = {}, reference {}",
                c.class,
                c.rtype,
                hex(&msg),
                hex(&g),
                hex(&m)
            );
            ensure!(
                mr::validate(c.class, c.rtype, &g),
                "read-returns-invalid",
                "Rdata::read returned {} which is not valid for class {} type {}",
                hex(&g),
                c.class,
                c.rtype
            );
            let rd: &Rdata = g.as_slice().try_into().unwrap();
            ensure!(
                rd.validate(Class::from(c.class), Type::from(c.rtype)).is_ok(),
                "read-validate-disagree",
                "Rdata::read returned {} which Rdata::validate rejects",
                hex(&g)
            );
        }
        (Err(_), Err(_)) => {}
        (Ok(g), Err(e)) => fail!(
            "read-accepts-invalid",
            "Rdata::read(class {}, type {}, msg {}, cursor {cursor}, rdlength {rdlength}) = {} but the reference rejects ({e:?})",
            c.class,
            c.rtype,
            hex(&msg),
            hex(&g)
        ),
        (Err(e), Ok((m, _))) => fail!(
            "read-rejects-valid",
            "Rdata::read(class {}, type {}, msg {}, cursor {cursor}, rdlength {rdlength}) failed ({e:?}); reference reads {}",
            c.class,
            c.rtype,
            hex(&msg),
            hex(&m)
        ),
    }
    Ok(())
}

fn read_case() -> impl Strategy<Value = ReadCase> {
    (
        prop::collection::vec(gen_name(), 0..3),
        any_rdata(),
        prop::collection::vec(any::<u8>(), 0..4),
        prop_oneof![8 => Just(0i8), 1 => -2i8..=2],
        0u8..12,
        any::<u16>(),
        prop_oneof![5 => Just(None), 1 => Just(Some(256u16)), 1 => Just(Some(512u16))],
        prop_oneof![16 => Just(0u16), 1 => 1u16..6, 2 => 120u16..136, 1 => 250u16..262],
    )
        .prop_map(|(mut prefix, (rtype, class, mut fields), suffix, cursor_delta, rdlength_mode, rdlength_sel, align_target, ladder)| {
            // make pointer targets likely: earlier names that share suffixes with the embedded names
            if rdlength_sel % 4 != 0 {
                for f in fields.iter_mut() {
                    if let FieldSpec::Name(n, comp) = f {
                        let skip = (rdlength_sel as usize / 4) % (n.labels.len() + 1);
                        prefix.push(n.superdomain(skip).unwrap());
                        if *comp == 0 && rdlength_sel % 8 >= 4 {
                            *comp = 0xffff;
                        }
                    }
                }
            }
            ReadCase {
            prefix,
            class,
            rtype,
            fields,
            suffix,
            align_target,
            ladder,
            cursor_delta,
            rdlength_mode,
            rdlength_sel,
        }})
}

////////////////////////////////////////////////////////////////////////
// 3. write -> read round trip                                        //
////////////////////////////////////////////////////////////////////////

#[derive(Clone, Debug, Serialize, Deserialize, PartialEq, Eq, Hash)]
pub struct RoundTripCase {
    pub qname: MName,
    pub owner: MName,
    pub class: u16,
    pub rtype: u16,
    pub rdata: Vec<u8>,
    pub mode: u8,
    pub ttl: u32,
    /// write a filler record first so that the owner of the first copy starts at this offset
    /// (around 16384, beyond which a name cannot be the target of a compression pointer)
    #[serde(default)]
    pub owner_at: Option<u16>,
    /// first an attempt that fails: the record is added to a writer whose limit ends `slack` octets
    /// after the first name embedded in the RDATA (so the add is rejected with that name already
    /// written), then an NS record whose RDATA is that name is added to the same writer and must
    /// read back: (wire form of the first embedded name, its end offset in the RDATA, slack)
    #[serde(default)]
    pub fail_first: Option<(Vec<u8>, u16, u8)>,
}

fn qn(m: &MName) -> Box<Name> {
    Name::try_from_uncompressed_all(&m.wire()).unwrap()
}

/// A rejected add followed by an add to the same writer (see `RoundTripCase::fail_first`).
fn oracle_after_rejected_add(c: &RoundTripCase, name_wire: &[u8], name_end: usize, slack: usize, st: &mut Stats) -> Verdict {
    let mode = match c.mode % 3 {
        0 => CompressionMode::Standard,
        1 => CompressionMode::CasePreserving,
        _ => CompressionMode::Disabled,
    };
    let qname = qn(&c.qname);
    let owner = qn(&c.owner);
    let rd: &Rdata = c.rdata.as_slice().try_into().unwrap();
    let ns: &Rdata = name_wire.try_into().unwrap();
    // where the RDATA of the first answer starts if the owner is written in full
    let limit = 12 + c.qname.wire_len() + 4 + c.owner.wire_len() + 10 + name_end + slack;
    let mut buf = vec![0u8; 4096];
    let res = catch(|| {
        let mut w = Writer::new(&mut buf, limit).map_err(|e| format!("new: {e:?}"))?;
        w.set_compression_mode(mode);
        w.add_question(&Question { qname: qname.clone(), qtype: Qtype::from(c.rtype), qclass: Qclass::from(c.class) }).map_err(|e| format!("add_question: {e:?}"))?;
        let first = w.add_answer_rr(HintedName::new(Hint::None, &owner), Type::from(c.rtype), Class::from(c.class), Ttl::from(c.ttl), rd, None);
        let second = w.add_answer_rr(HintedName::new(Hint::None, &owner), Type::from(mr::T_NS), Class::from(c.class), Ttl::from(c.ttl), ns, None);
        Ok::<_, String>((first.is_ok(), second.is_ok(), w.finish()))
    });
    let (first_ok, second_ok, len) = match res {
        Ok(Ok(v)) => v,
        Ok(Err(_)) => {
            st.discard("limit-too-small-for-the-question");
            return Ok(());
        }
        Err(p) => fail!(panic_signature(&p), "writing after a rejected add panicked: {p}"),
    };
    if first_ok || !second_ok {
        st.discard("the-first-add-was-not-rejected-or-the-second-did-not-fit");
        return Ok(());
    }
    st.class("record-added-after-a-rejected-add-that-had-written-the-same-name");
    let msg = &buf[..len];
    let what = format!("class {} type {} RDATA {} rejected at limit {limit} ({mode:?}), then NS {} added: message {}", c.class, c.rtype, hex(&c.rdata), hex(name_wire), hex(msg));
    let dec = match decode_message(msg) {
        Ok(d) => d,
        Err(e) => fail!("written-message-undecodable", "{what} does not decode: {e:?}"),
    };
    ensure!(dec.answers.len() == 1, "roundtrip-independent-decode", "{what}: {} answers", dec.answers.len());
    let folded = |b: &[u8]| MName::from_wire(b).map(|(n, _)| n.folded());
    ensure!(folded(&dec.answers[0].rdata) == folded(name_wire) && folded(name_wire).is_some(), "roundtrip-independent-decode", "{what}: decodes to RDATA {}", hex(&dec.answers[0].rdata));
    let got = catch(|| {
        let mut r = Reader::try_from(msg).map_err(|e| format!("{e:?}"))?;
        r.read_question().map_err(|e| format!("read_question: {e:?}"))?;
        let a = r.read_rr().map_err(|e| format!("read_rr: {e:?}"))?;
        Ok::<_, String>((a.rdata.octets().to_vec(), r.at_eom()))
    });
    match got {
        Err(p) => fail!(panic_signature(&p), "reading back panicked: {p}; {what}"),
        Ok(Err(e)) => fail!("roundtrip-read-fails", "{what}: reading back failed: {e}"),
        Ok(Ok((g, eom))) => {
            ensure!(folded(&g) == folded(name_wire), "roundtrip-wrong", "{what}: read back {}", hex(&g));
            ensure!(eom, "roundtrip-trailing", "{what}: reader not at the end");
        }
    }
    st.nontrivial(&(msg, c.mode), || json!({"class": c.class, "type": c.rtype, "mode": format!("{mode:?}"), "after_rejected_add": true, "message_hex": hex(msg)}));
    Ok(())
}

pub fn oracle_roundtrip(c: &RoundTripCase, st: &mut Stats) -> Verdict {
    st.eval();
    if !mr::validate(c.class, c.rtype, &c.rdata) || c.rtype == mr::T_OPT || c.rtype == mr::T_TSIG {
        st.discard("not-valid-zone-rdata");
        return Ok(());
    }
    if let Some((name_wire, name_end, slack)) = &c.fail_first {
        return oracle_after_rejected_add(c, name_wire, *name_end as usize, *slack as usize, st);
    }
    let mode = match c.mode % 3 {
        0 => CompressionMode::Standard,
        1 => CompressionMode::CasePreserving,
        _ => CompressionMode::Disabled,
    };
    let size = if c.owner_at.is_some() { 65535 } else { 4096 };
    let mut buf = vec![0u8; size];
    let qname = qn(&c.qname);
    let owner = qn(&c.owner);
    let rd: &Rdata = c.rdata.as_slice().try_into().unwrap();
    // filler: one NULL record at the root, sized so that the next owner starts at `owner_at`
    let filler: Option<Vec<u8>> = c.owner_at.and_then(|at| (at as usize).checked_sub(12 + c.qname.wire_len() + 4 + 11)).map(|n| vec![0x5a; n]);
    let n_filler = filler.is_some() as usize;
    let res = catch(|| {
        let mut w = Writer::new(&mut buf, size).unwrap();
        w.set_compression_mode(mode);
        w.add_question(&Question {
            qname: qname.clone(),
            qtype: Qtype::from(c.rtype),
            qclass: Qclass::from(c.class),
        })
        .map_err(|e| format!("add_question: {e:?}"))?;
        if let Some(f) = &filler {
            let frd: &Rdata = f.as_slice().try_into().unwrap();
            w.add_answer_rr(HintedName::new(Hint::None, &qn(&MName::root())), Type::from(mr::T_NULL), Class::from(c.class), Ttl::from(0), frd, None)
                .map_err(|e| format!("add_answer_rr (filler): {e:?}"))?;
        }
        w.add_answer_rr(
            HintedName::new(Hint::None, &owner),
            Type::from(c.rtype),
            Class::from(c.class),
            Ttl::from(c.ttl),
            rd,
            None,
        )
        .map_err(|e| format!("add_answer_rr: {e:?}"))?;
        // a second copy so that RDATA names can compress against the first copy's RDATA
        w.add_answer_rr(
            HintedName::new(Hint::MostRecentOwner, &owner),
            Type::from(c.rtype),
            Class::from(c.class),
            Ttl::from(c.ttl),
            rd,
            None,
        )
        .map_err(|e| format!("add_answer_rr #2: {e:?}"))?;
        Ok::<usize, String>(w.finish())
    });
    let len = match res {
        Ok(Ok(len)) => len,
        Ok(Err(e)) => fail!(
            "write-rejects-valid",
            "writing valid RDATA (class {}, type {}, {}) failed: {e}",
            c.class,
            c.rtype,
            hex(&c.rdata)
        ),
        Err(p) => fail!(panic_signature(&p), "writing RDATA panicked: {p}"),
    };
    let msg = &buf[..len];
    // independent decode
    let dec = match decode_message(msg) {
        Ok(d) => d,
        Err(e) => fail!("written-message-undecodable", "message {} does not decode: {e:?}", hex(msg)),
    };
    let compressed = dec.answers.iter().any(|rr| rr.rdata_names.iter().any(|(_, d, _)| !d.pointers.is_empty()));
    if compressed {
        st.class("rdata-name-was-compressed");
        st.nontrivial(&(msg, c.mode), || json!({"class": c.class, "type": c.rtype, "mode": format!("{mode:?}"), "message_hex": hex(msg)}));
    }
    st.class(&format!("mode-{mode:?}"));
    if let Some(first) = dec.answers.get(n_filler) {
        if n_filler == 1 && first.start < 16384 && first.start + c.owner.wire_len() > 16384 {
            st.class("owner-straddles-offset-16384");
        }
    }
    let expect_exact = mode != CompressionMode::Standard;
    for (i, rr) in dec.answers.iter().enumerate().skip(n_filler) {
        let same = if expect_exact {
            rr.rdata == c.rdata
        } else {
            mr::fold_names(c.class, c.rtype, &rr.rdata) == mr::fold_names(c.class, c.rtype, &c.rdata)
        };
        ensure!(
            same,
            "roundtrip-independent-decode",
            "answer #{i} of {} decodes (independently) to RDATA {}, written {}",
            hex(msg),
            hex(&rr.rdata),
            hex(&c.rdata)
        );
    }
    // quandary's own reader
    let got = catch(|| {
        let mut r = Reader::try_from(msg).map_err(|e| format!("{e:?}"))?;
        r.read_question().map_err(|e| format!("read_question: {e:?}"))?;
        if n_filler == 1 {
            r.read_rr().map_err(|e| format!("read_rr (filler): {e:?}"))?;
        }
        let a = r.read_rr().map_err(|e| format!("read_rr: {e:?}"))?;
        let b = r.read_rr().map_err(|e| format!("read_rr #2: {e:?}"))?;
        Ok::<_, String>((a.rdata.octets().to_vec(), b.rdata.octets().to_vec(), r.at_eom()))
    });
    match got {
        Err(p) => fail!(panic_signature(&p), "reading back {} panicked: {p}", hex(msg)),
        Ok(Err(e)) => fail!("roundtrip-read-fails", "reading back {} failed: {e}", hex(msg)),
        Ok(Ok((a, b, eom))) => {
            for (i, g) in [a, b].iter().enumerate() {
                let same = if expect_exact {
                    *g == c.rdata
                } else {
                    mr::fold_names(c.class, c.rtype, g) == mr::fold_names(c.class, c.rtype, &c.rdata)
                };
                ensure!(
                    same,
                    "roundtrip-wrong",
                    "record #{i}: wrote {} (class {}, type {}, mode {mode:?}), read back {} from {}",
                    hex(&c.rdata),
                    c.class,
                    c.rtype,
                    hex(g),
                    hex(msg)
                );
                let grd: &Rdata = g.as_slice().try_into().unwrap();
                ensure!(
                    grd.equals(rd, Class::from(c.class), Type::from(c.rtype)),
                    "roundtrip-not-equal",
                    "record #{i}: read-back RDATA {} does not equal the written {}",
                    hex(g),
                    hex(&c.rdata)
                );
            }
            ensure!(eom, "roundtrip-trailing", "reader not at end of {}", hex(msg));
        }
    }
    Ok(())
}

fn roundtrip_case() -> impl Strategy<Value = RoundTripCase> {
    (gen_name(), gen_name(), valid_rdata(), 0u8..3, prop_oneof![0u32..100000, any::<u32>()], prop::option::weighted(0.35, 0u8..12)).prop_map(|(qname, owner, (rtype, class, fields), mode, ttl, fail)| {
        let rdata = flat(&fields);
        // the first embedded name and where it ends, if more RDATA follows it
        let mut fail_first = None;
        if let Some(slack) = fail {
            let mut at = 0usize;
            for f in &fields {
                match f {
                    FieldSpec::Bytes(b) => at += b.len(),
                    FieldSpec::Name(n, _) => {
                        at += n.wire_len();
                        if at < rdata.len() && !n.labels.is_empty() {
                            fail_first = Some((n.wire(), at as u16, slack.min((rdata.len() - at - 1) as u8)));
                        }
                        break;
                    }
                }
            }
        }
        RoundTripCase { qname, owner, class, rtype, rdata, mode, ttl, owner_at: None, fail_first }
    })
}

/// Messages of more than 16 KiB in which the record's owner starts just before offset 16384 and
/// shares a suffix with a name in the RDATA.
fn roundtrip_large_case() -> impl Strategy<Value = RoundTripCase> {
    (pool_name_short(), valid_rdata(), 0u8..3, 0u16..=48, any::<u16>(), prop::bool::weighted(0.8)).prop_map(|(qname, (rtype, class, fields), mode, before, sel, share)| {
        // owner: a suffix of an embedded name under a different first label
        let embedded: Vec<&MName> = fields.iter().filter_map(|f| if let FieldSpec::Name(n, _) = f { Some(n) } else { None }).collect();
        let owner = if share && !embedded.is_empty() {
            let n = embedded[pick(sel, embedded.len())];
            let skip = pick(sel.rotate_left(5), n.labels.len() + 1);
            let sup = n.superdomain(skip).unwrap();
            let c = sup.child(b"own");
            if c.is_valid() { c } else { sup }
        } else {
            MName { labels: vec![b"own".to_vec(), b"example".to_vec()] }
        };
        RoundTripCase { qname, owner, class, rtype, rdata: flat(&fields), mode, ttl: 300, owner_at: Some(16384 - before), fail_first: None }
    })
}

fn pool_name_short() -> impl Strategy<Value = MName> {
    crate::gen::pool_name(2)
}

pub fn run(ctx: &Ctx, report: &mut Report) {
    report.rule = "every class/type pair the library knows (A, NS, MD, MF, CNAME, SOA, MB, MG, MR, NULL, WKS, PTR, HINFO, \
        MINFO, MX, TXT, AAAA, SRV, OPT, TSIG, CH A) plus unknown types and known types in other classes; RDATA from \
        valid generators and near-valid mutations (junk appended, last octet removed, unterminated names, wrong TSIG/OPT \
        length fields, arbitrary octets); for reading: messages with earlier names as pointer targets, cursor off by \
        -2..2 and RDLENGTH exact / +-1 / 0 / ending exactly where an embedded name starts / arbitrary; for the round \
        trip: all three compression modes through Writer and Reader. Non-trivial = RDATA with an embedded name that was \
        compressed, or a known type whose encoding the reference rejects."
        .into();
    report.assumptions.push("vmodel::rdata transcribes the RDATA formats of RFC 1035 §3.3/§3.4, RFC 1034 §3.6 (CH A), RFC 3596, RFC 2782, RFC 6891, RFC 8945".into());
    let t = ctx.tier;
    run_prop(
        ctx,
        report,
        PropSpec { name: "validate", cases: t.pick(300_000, 5_000_000), max_shrink_iters: 4096 },
        || any_rdata().prop_map(|(rtype, class, fields)| ValidateCase { class, rtype, rdata: flat(&fields) }),
        oracle_validate,
    );
    run_prop(ctx, report, PropSpec { name: "read", cases: t.pick(300_000, 5_000_000), max_shrink_iters: 4096 }, read_case, oracle_read);
    run_prop(ctx, report, PropSpec { name: "roundtrip", cases: t.pick(150_000, 3_000_000), max_shrink_iters: 4096 }, roundtrip_case, oracle_roundtrip);
    run_prop(ctx, report, PropSpec { name: "roundtrip-large", cases: t.pick(20_000, 400_000), max_shrink_iters: 1024 }, roundtrip_large_case, oracle_roundtrip);
}

pub fn replay(check: &str, case: &serde_json::Value) -> Verdict {
    use crate::fw::replay_case;
    match check {
        "validate" => replay_case::<ValidateCase, _>(case, oracle_validate),
        "read" => replay_case::<ReadCase, _>(case, oracle_read),
        _ => replay_case::<RoundTripCase, _>(case, oracle_roundtrip),
    }
}
