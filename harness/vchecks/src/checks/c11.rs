//! C11 — TSIG MACs match RFC 8945 and detect tampering (oracle: vmodel::tsig,
//! an independent composition of the RFC 8945 §4.3 digest).

use proptest::prelude::*;
use quandary::class::Class;
use quandary::message::tsig::{Algorithm, PreparedTsigRr, ReadTsigRr, VerificationError};
use quandary::message::writer::{Hint, HintedName, TsigMode};
use quandary::message::{ExtendedRcode, Qclass, Qtype, Question, Reader, Writer};
use quandary::name::{LowercaseName, Name};
use quandary::rr::rdata::TimeSigned;
use quandary::rr::{Rdata, Ttl, Type};
use serde::{Deserialize, Serialize};
use serde_json::json;
use vmodel::name::MName;
use vmodel::rdata as mr;
use vmodel::tsig as mt;
use vmodel::wire::decode_message;

use crate::fw::{catch, panic_signature, run_prop, Ctx, PropSpec, Report, Stats, Verdict};
use crate::msggen::{gen_name, valid_rdata, FieldSpec};
use crate::{ensure, fail};

fn hex(b: &[u8]) -> String {
    b.iter().map(|x| format!("{x:02x}")).collect()
}

fn qn(m: &MName) -> Box<Name> {
    Name::try_from_uncompressed_all(&m.wire()).unwrap()
}

#[derive(Clone, Debug, Serialize, Deserialize, PartialEq, Eq, Hash)]
pub enum Mode {
    Request,
    Response(Vec<u8>),
    Subsequent(Vec<u8>),
}

#[derive(Clone, Debug, Serialize, Deserialize, PartialEq, Eq, Hash)]
pub struct Case {
    pub id: u16,
    pub flags: u16,
    pub qname: MName,
    pub records: Vec<(MName, u16, u16, u32, Vec<u8>)>,
    pub edns: bool,
    pub key_name: MName,
    pub key: Vec<u8>,
    pub sha256: bool,
    pub mode: Mode,
    pub time: u64,
    pub fudge: u16,
    pub original_id: u16,
    pub error: u16,
    pub server_time: u64,
    /// `now` = time + offset (saturating), chosen around the fudge boundary
    pub now_offset: i64,
    /// sample of corruption positions (selector); the thorough tier corrupts every position
    pub corrupt_sel: Vec<u16>,
    pub all_positions: bool,
    /// only with mode Subsequent(B): the writer is first put into another signing mode (0 request,
    /// 1 response, 2 subsequent, with this other MAC), turned into a Template, and a new Writer is
    /// started from the template with try_from_template_as_tsig_subsequent(B)
    #[serde(default)]
    pub template_from: Option<(u8, Vec<u8>)>,
    /// this many extra A records in the additional section (ARCOUNT around multiples of 256: the
    /// digest covers the header with ARCOUNT decremented, a 16-bit subtraction)
    #[serde(default)]
    pub extra_additional: u16,
}

#[derive(Clone, Debug, PartialEq, Eq)]
pub enum V {
    Ok,
    FormErr,
    BadSig,
    BadTime,
    /// the message / TSIG record could not be used at all
    Unusable,
}

/// The reference verifier: strict decode, TSIG must be the last record, class
/// ANY, TTL 0, known algorithm, permitted MAC length, MAC equal to the RFC 8945
/// digest truncated to that length, time within the fudge window — in that order.
fn ref_verify(full: &[u8], mode: &Mode, key: &[u8], now: u64) -> V {
    let d = match decode_message(full) {
        Ok(d) => d,
        Err(_) => return V::Unusable,
    };
    let t = match d.additional.last() {
        Some(t) if t.rtype == mr::T_TSIG => t,
        _ => return V::Unusable,
    };
    if d.all_rrs().filter(|r| r.rtype == mr::T_TSIG).count() != 1 {
        return V::Unusable;
    }
    if t.class != mr::C_ANY || (t.ttl_raw != 0 && t.ttl_raw <= i32::MAX as u32) {
        return V::Unusable;
    }
    let rd = match mr::parse_tsig(&t.rdata) {
        Some(r) => r,
        None => return V::Unusable,
    };
    let alg = match mt::Alg::from_name(&rd.algorithm) {
        Some(a) => a,
        None => return V::Unusable,
    };
    if !alg.mac_len_ok(rd.mac.len()) {
        return V::FormErr;
    }
    let vars = mt::Vars {
        key_name: t.owner.name.clone(),
        alg_name: rd.algorithm.clone(),
        time_signed: rd.time_signed,
        fudge: rd.fudge,
        error: rd.error,
        other: rd.other.clone(),
    };
    let before = &full[..t.start];
    let input = match mode {
        Mode::Request => mt::request_digest_input(before, rd.original_id, &vars),
        Mode::Response(m) => mt::response_digest_input(m, before, rd.original_id, &vars),
        Mode::Subsequent(m) => mt::subsequent_digest_input(m, before, rd.original_id, &vars),
    };
    let mac = mt::hmac(alg, key, &input);
    if mac[..rd.mac.len()] != rd.mac[..] {
        return V::BadSig;
    }
    if !mt::time_ok(rd.time_signed, rd.fudge, now) {
        return V::BadTime;
    }
    V::Ok
}

/// Drives quandary's verification the way the server does.
fn q_verify(full: &[u8], mode: &Mode, key: &[u8], now: u64) -> Result<V, String> {
    catch(|| {
        let mut r = match Reader::try_from(full) {
            Ok(r) => r,
            Err(_) => return V::Unusable,
        };
        for _ in 0..r.qdcount() {
            if r.skip_question().is_err() {
                return V::Unusable;
            }
        }
        let total = r.ancount() as usize + r.nscount() as usize + r.arcount() as usize;
        if total == 0 {
            return V::Unusable;
        }
        for _ in 0..total - 1 {
            match r.peek_rr() {
                Ok(p) => {
                    if p.rr_type() == Type::TSIG {
                        return V::Unusable;
                    }
                    p.skip();
                }
                Err(_) => return V::Unusable,
            }
        }
        if r.arcount() == 0 {
            return V::Unusable;
        }
        let peek = match r.peek_rr() {
            Ok(p) => p,
            Err(_) => return V::Unusable,
        };
        if peek.rr_type() != Type::TSIG {
            return V::Unusable;
        }
        let before = peek.message_to_rr();
        let rr = match peek.parse() {
            Ok(rr) => rr,
            Err(_) => return V::Unusable,
        };
        if !r.at_eom() {
            return V::Unusable;
        }
        let t = match ReadTsigRr::try_from(rr) {
            Ok(t) => t,
            Err(_) => return V::Unusable,
        };
        let alg = match Algorithm::from_name(t.algorithm()) {
            Some(a) => a,
            None => return V::Unusable,
        };
        let now = TimeSigned::try_from_unix_time(now & 0xffff_ffff_ffff).unwrap();
        let res = match mode {
            Mode::Request => t.verify_request(before, alg, key, now),
            Mode::Response(m) => t.verify_response(before, m, alg, key, now),
            Mode::Subsequent(m) => t.verify_subsequent(before, m, alg, key, now),
        };
        match res {
            Ok(()) => V::Ok,
            Err(VerificationError::FormErr) => V::FormErr,
            Err(VerificationError::BadSig) => V::BadSig,
            Err(VerificationError::BadTime) => V::BadTime,
        }
    })
}

fn agree(got: &V, want: &V, ttl_ambiguous: bool) -> bool {
    got == want || (ttl_ambiguous && (*got == V::Unusable || *want == V::Unusable))
}

pub fn oracle(c: &Case, st: &mut Stats) -> Verdict {
    let alg = if c.sha256 { mt::Alg::Sha256 } else { mt::Alg::Sha1 };
    let qalg = if c.sha256 { Algorithm::HmacSha256 } else { Algorithm::HmacSha1 };
    let time = c.time & 0xffff_ffff_ffff;
    let server_time = c.server_time & 0xffff_ffff_ffff;
    // 1. build and sign with the Writer
    let mut buf = vec![0u8; 24576];
    let mut buf2 = vec![0u8; 24576];
    let detour = match (&c.template_from, &c.mode) {
        (Some((sel, a)), Mode::Subsequent(b)) => Some((*sel, a.clone(), b.clone())),
        _ => None,
    };
    let built = catch(|| {
        let mut w = Writer::new(&mut buf, 24576).unwrap();
        w.set_id(c.id);
        w.set_qr(c.flags & 0x8000 != 0);
        w.set_rd(c.flags & 0x0100 != 0);
        w.set_aa(c.flags & 0x0400 != 0);
        w.add_question(&Question {
            qname: qn(&c.qname),
            qtype: Qtype::from(1),
            qclass: Qclass::from(1),
        })
        .map_err(|e| format!("{e:?}"))?;
        for (owner, rtype, class, ttl, rdata) in &c.records {
            let rd: &Rdata = rdata.as_slice().try_into().unwrap();
            w.add_answer_rr(HintedName::new(Hint::None, &qn(owner)), Type::from(*rtype), Class::from(*class), Ttl::from(*ttl), rd, None)
                .map_err(|e| format!("{e:?}"))?;
        }
        for i in 0..c.extra_additional {
            let octets = [10u8, 9, (i >> 8) as u8, i as u8];
            let rd: &Rdata = (&octets[..]).try_into().unwrap();
            w.add_additional_rr(HintedName::new(Hint::None, &qn(&c.qname)), Type::from(1), Class::from(1), Ttl::from(60), rd, None)
                .map_err(|e| format!("{e:?}"))?;
        }
        if c.edns {
            w.set_edns(1232).map_err(|e| format!("{e:?}"))?;
        }
        let first_mode = match &detour {
            Some((0, _, _)) => Mode::Request,
            Some((1, a, _)) => Mode::Response(a.clone()),
            Some((_, a, _)) => Mode::Subsequent(a.clone()),
            None => c.mode.clone(),
        };
        let mode = match &first_mode {
            Mode::Request => TsigMode::Request { algorithm: qalg, key: c.key.clone().into() },
            Mode::Response(m) => TsigMode::Response {
                algorithm: qalg,
                request_mac: m.clone().into(),
                key: c.key.clone().into(),
            },
            Mode::Subsequent(m) => TsigMode::Subsequent {
                algorithm: qalg,
                prior_mac: m.clone().into(),
                key: c.key.clone().into(),
            },
        };
        let lkn: Box<LowercaseName> = qn(&c.key_name).into();
        let prepared = PreparedTsigRr {
            key_name: lkn,
            time_signed: TimeSigned::try_from_unix_time(time).unwrap(),
            fudge: c.fudge,
            original_id: c.original_id,
            error: ExtendedRcode::from(c.error),
            server_time: TimeSigned::try_from_unix_time(server_time).unwrap(),
        };
        w.set_tsig(mode, prepared).map_err(|e| format!("{e:?}"))?;
        if let Some((_, _, b)) = &detour {
            let template = w.into_template();
            let w2 = Writer::try_from_template_as_tsig_subsequent(&mut buf2, &template, b.clone().into()).map_err(|e| format!("{e:?}"))?;
            let (len, mac) = w2.finish_with_mac();
            return Ok((len, mac, true));
        }
        let (len, mac) = w.finish_with_mac();
        Ok::<_, String>((len, mac, false))
    });
    let (len, mac, second) = match built {
        Err(p) => fail!(panic_signature(&p), "building/signing panicked: {p}"),
        Ok(Err(e)) => {
            st.discard("message-did-not-fit");
            let _ = e;
            return Ok(());
        }
        Ok(Ok(v)) => v,
    };
    let full = if second { buf2[..len].to_vec() } else { buf[..len].to_vec() };
    if let Some((sel, _, _)) = &detour {
        st.class(["subsequent-from-template-of-a-request-writer", "subsequent-from-template-of-a-response-writer", "subsequent-from-template-of-a-subsequent-writer"][(*sel as usize).min(2)]);
    }
    if c.extra_additional > 0 {
        let ar = u16::from_be_bytes([full[10], full[11]]);
        if ar & 0xff <= 1 || ar & 0xff == 0xff {
            st.class("ARCOUNT-low-octet-0-1-or-255");
        }
    }
    st.eval();
    let d = match decode_message(&full) {
        Ok(d) => d,
        Err(e) => fail!("signed-message-undecodable", "signed message {} does not decode: {e:?}", hex(&full)),
    };
    let t = match d.additional.last() {
        Some(t) if t.rtype == mr::T_TSIG => t,
        _ => fail!("tsig-not-last", "the TSIG record is not the last record of {}", hex(&full)),
    };
    let rd = mr::parse_tsig(&t.rdata).ok_or_else(|| crate::fw::Fail::new("tsig-rdata", "TSIG RDATA does not parse"))?;
    let other: Vec<u8> = if c.error == 18 { server_time.to_be_bytes()[2..8].to_vec() } else { vec![] };
    let vars = mt::Vars {
        key_name: c.key_name.clone(),
        alg_name: alg.name(),
        time_signed: time,
        fudge: c.fudge,
        error: c.error,
        other: other.clone(),
    };
    let before = &full[..t.start];
    let input = match &c.mode {
        Mode::Request => mt::request_digest_input(before, c.original_id, &vars),
        Mode::Response(m) => mt::response_digest_input(m, before, c.original_id, &vars),
        Mode::Subsequent(m) => mt::subsequent_digest_input(m, before, c.original_id, &vars),
    };
    let want_mac = mt::hmac(alg, &c.key, &input);
    ensure!(
        rd.mac == want_mac && mac.as_deref() == Some(&want_mac[..]),
        "mac-mismatch",
        "mode {:?}: MAC in the record {} / returned {:?}, RFC 8945 computation {} (message {})",
        c.mode,
        hex(&rd.mac),
        mac.as_ref().map(|m| hex(m)),
        hex(&want_mac),
        hex(&full)
    );
    ensure!(
        rd.time_signed == time && rd.fudge == c.fudge && rd.original_id == c.original_id && rd.error == c.error && rd.other == other && rd.algorithm.eq_fold(&alg.name()) && t.owner.name.eq_fold(&c.key_name),
        "tsig-fields",
        "TSIG fields differ from what was prepared: {rd:?}"
    );
    let mode_name = match c.mode {
        Mode::Request => "request",
        Mode::Response(_) => "response",
        Mode::Subsequent(_) => "subsequent",
    };
    st.class(&format!("mode-{mode_name}-{}", if c.sha256 { "sha256" } else { "sha1" }));

    // 2. verification at `now` around the fudge boundary
    let offsets: Vec<i64> = vec![c.now_offset, c.fudge as i64, -(c.fudge as i64), c.fudge as i64 + 1, -(c.fudge as i64) - 1, 0];
    for off in offsets {
        let now = (time as i64).saturating_add(off).clamp(0, 0xffff_ffff_ffff) as u64;
        st.eval();
        let want = ref_verify(&full, &c.mode, &c.key, now);
        let got = match q_verify(&full, &c.mode, &c.key, now) {
            Ok(v) => v,
            Err(p) => fail!(panic_signature(&p), "verification panicked: {p}"),
        };
        if off.unsigned_abs() == c.fudge as u64 || off.unsigned_abs() == c.fudge as u64 + 1 {
            st.class("now-at-fudge-boundary");
        }
        ensure!(
            got == want,
            format!("verify-mismatch-{want:?}"),
            "mode {mode_name}: verification with now = time signed {:+} (fudge {}) gives {got:?}, reference {want:?}",
            off,
            c.fudge
        );
    }
    let now_ok = time;

    // 3. every truncation length of the MAC (and one octet more than the full MAC)
    for l in 0..=alg.output_len() + 1 {
        st.eval();
        let mut nrd = rd.clone();
        if l <= want_mac.len() {
            nrd.mac = want_mac[..l].to_vec();
        } else {
            nrd.mac.push(0);
        }
        let enc = mr::encode_tsig(&nrd);
        let mut m = full[..t.rdata_start - 2].to_vec();
        m.extend_from_slice(&(enc.len() as u16).to_be_bytes());
        m.extend_from_slice(&enc);
        let want = ref_verify(&m, &c.mode, &c.key, now_ok);
        let got = match q_verify(&m, &c.mode, &c.key, now_ok) {
            Ok(v) => v,
            Err(p) => fail!(panic_signature(&p), "verification of a truncated MAC panicked: {p}"),
        };
        st.class("mac-truncation");
        ensure!(
            got == want,
            format!("truncation-mismatch-{want:?}"),
            "mode {mode_name} ({alg:?}): MAC truncated to {l} of {} octets verifies as {got:?}, reference {want:?}",
            alg.output_len()
        );
        // a wrong MAC of permitted length must be BADSIG even when the time is bad too
        if alg.mac_len_ok(l) && l > 0 {
            let mut bad = nrd.clone();
            bad.mac[l - 1] ^= 1;
            let enc = mr::encode_tsig(&bad);
            let mut m2 = full[..t.rdata_start - 2].to_vec();
            m2.extend_from_slice(&(enc.len() as u16).to_be_bytes());
            m2.extend_from_slice(&enc);
            let far = time.saturating_add(c.fudge as u64 + 1000) & 0xffff_ffff_ffff;
            let got = match q_verify(&m2, &c.mode, &c.key, far) {
                Ok(v) => v,
                Err(p) => fail!(panic_signature(&p), "verification panicked: {p}"),
            };
            ensure!(got == V::BadSig, "badsig-before-badtime", "wrong MAC and bad time: got {got:?}, expected BadSig");
        }
    }

    // 4. single-octet corruption
    // (messages padded with hundreds of additional records: header, the last 300 octets and samples)
    let positions: Vec<usize> = if c.all_positions && c.extra_additional > 0 {
        (0..12).chain(full.len().saturating_sub(300)..full.len()).chain(c.corrupt_sel.iter().map(|s| crate::gen::pick(*s, full.len()))).collect()
    } else if c.all_positions {
        (0..full.len()).collect()
    } else {
        c.corrupt_sel.iter().map(|s| crate::gen::pick(*s, full.len())).collect()
    };
    let mut still_parse = 0u64;
    for (i, p) in positions.iter().enumerate() {
        let mut m = full.clone();
        let x = if c.all_positions { 1u8 << (p % 8) } else { 1u8 << ((c.corrupt_sel[i % c.corrupt_sel.len()] >> 3) % 8) };
        m[*p] ^= x;
        st.eval();
        let want = ref_verify(&m, &c.mode, &c.key, now_ok);
        let got = match q_verify(&m, &c.mode, &c.key, now_ok) {
            Ok(v) => v,
            Err(pn) => fail!(panic_signature(&pn), "verification of a corrupted message panicked (octet {p} ^ {x:#04x} of {}): {pn}", hex(&full)),
        };
        // a flipped top bit of the TSIG TTL is read as zero by RFC 2181 readers: both verdicts accepted there
        let ttl_amb = *p == t.rdata_start - 6;
        if want != V::Unusable {
            still_parse += 1;
        }
        let accepted = got == V::Ok;
        let should = want == V::Ok;
        if accepted != should && !agree(&got, &want, ttl_amb) {
            fail!(
                if accepted { "corruption-accepted" } else { "corruption-verdict-mismatch" },
                "mode {mode_name}: flipping octet {p} (^{x:#04x}) of the signed message {} verifies as {got:?}, reference {want:?}",
                hex(&full)
            );
        }
    }
    st.class_n("corruptions-still-parsing", still_parse);
    st.nontrivial(&(mode_name, c.sha256, c.error == 18, c.now_offset.unsigned_abs() == c.fudge as u64, &full), || {
        json!({"mode": mode_name, "sha256": c.sha256, "message_hex": hex(&full), "fudge": c.fudge, "now_offset": c.now_offset})
    });
    Ok(())
}

fn flat(fields: &[FieldSpec]) -> Vec<u8> {
    let mut out = Vec::new();
    for f in fields {
        match f {
            FieldSpec::Bytes(b) => out.extend_from_slice(b),
            FieldSpec::Name(n, _) => out.extend_from_slice(&n.wire()),
        }
    }
    out
}

fn case_strategy(all_positions: bool) -> impl Strategy<Value = Case> {
    // (an earlier MAC of zero octets is still digested, as its two-octet length)
    let mac = || prop_oneof![12 => prop::collection::vec(any::<u8>(), 10..=64), 1 => Just(Vec::new()), 1 => prop::collection::vec(any::<u8>(), 1..10)];
    (
        (any::<u16>(), any::<u16>(), gen_name(), prop::collection::vec((gen_name(), valid_rdata(), 0u32..100000), 0..4), any::<bool>()),
        (
            gen_name(),
            prop::collection::vec(any::<u8>(), 1..80),
            any::<bool>(),
            prop_oneof![Just(Mode::Request), mac().prop_map(Mode::Response), mac().prop_map(Mode::Subsequent)],
        ),
        (
            prop_oneof![4 => 1_000_000_000u64..2_000_000_000, 1 => 0u64..1000, 1 => Just(0xffff_ffff_ffffu64), 1 => 0xffff_ffff_0000u64..=0xffff_ffff_ffff],
            prop_oneof![4 => Just(300u16), 1 => Just(0u16), 1 => Just(65535u16), 2 => any::<u16>()],
            any::<u16>(),
            prop_oneof![6 => Just(0u16), 2 => Just(18u16), 1 => Just(16u16), 1 => any::<u16>()],
            any::<u64>(),
            prop_oneof![3 => -400i64..=400, 1 => any::<i32>().prop_map(|v| v as i64)],
        ),
        (prop::collection::vec(any::<u16>(), 24), prop::option::weighted(0.6, (0u8..3, mac())), prop_oneof![30 => Just(0u16), 1 => 253u16..=257, 1 => 509u16..=513, 1 => 1u16..600]),
    )
        .prop_map(move |((id, flags, qname, recs, edns), (key_name, key, sha256, mode), (time, fudge, original_id, error, server_time, now_offset), (corrupt_sel, template_from, extra_additional))| {
            let records = recs
                .into_iter()
                .filter(|(_, (t, _, _), _)| *t != mr::T_OPT && *t != mr::T_TSIG)
                .map(|(owner, (rtype, class, fields), ttl)| (owner, rtype, class, ttl, flat(&fields)))
                .collect();
            Case {
                id,
                flags,
                qname,
                records,
                edns,
                key_name,
                key,
                sha256,
                mode,
                time,
                fudge,
                original_id,
                error,
                server_time,
                now_offset,
                corrupt_sel,
                all_positions,
                template_from,
                extra_additional,
            }
        })
}

pub fn run(ctx: &Ctx, report: &mut Report) {
    report.rule = "messages built and signed through Writer::set_tsig/finish_with_mac (question, 0-3 records of every type, optional OPT; \
        random key 1-79 octets, HMAC-SHA1/SHA256, request / response (random request MAC) / subsequent (prior MAC) modes, random time \
        incl. 0 and 2^48-1, fudge incl. 0 and 65535, original ID, error incl. BADTIME with other data); MAC compared with the \
        independent RFC 8945 §4.3 composition; verification (driven like the server: Reader, ReadTsigRr::try_from, algorithm by name) at \
        now = time +- fudge, +- (fudge+1) and a random offset; every truncation length 0..=out+1 of the MAC; single-octet corruption at \
        every position (thorough) or 24 sampled positions (quick) judged by the reference verifier on the corrupted octets. \
        evaluations = individual verifications. Non-trivial = distinct (mode, algorithm, BADTIME?, boundary time?, message)."
        .into();
    report.assumptions.push("hmac/sha1/sha2 crates as primitives (checked against RFC 2202/4231 vectors in vmodel's unit tests); the digest composition is vmodel::tsig".into());
    let thorough = ctx.tier == crate::fw::Tier::Thorough;
    run_prop(ctx, report, PropSpec { name: "tsig-sign-verify", cases: ctx.tier.pick(120_000, 160_000), max_shrink_iters: 3000 }, move || case_strategy(thorough), oracle);
}

pub fn replay(_check: &str, case: &serde_json::Value) -> Verdict {
    crate::fw::replay_case::<Case, _>(case, oracle)
}
