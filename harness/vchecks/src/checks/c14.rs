//! C14 — wire-format name decoding matches RFC 1035 (oracle: vmodel::wire).

use proptest::prelude::*;
use quandary::name::Name;
use serde::{Deserialize, Serialize};
use serde_json::json;
use vmodel::name::MName;
use vmodel::wire::{decode_name, delimit_name};

use crate::fw::{catch, panic_signature, run_parallel, run_prop, Ctx, Fail, PropSpec, Report, Stats, Verdict};
use crate::{ensure, fail};

#[derive(Clone, Debug, Serialize, Deserialize, PartialEq, Eq, Hash)]
pub struct Case {
    pub buf: Vec<u8>,
    pub start: usize,
}

fn hex(b: &[u8]) -> String {
    b.iter().map(|x| format!("{x:02x}")).collect()
}

/// The oracle: all decoding entry points against the reference decoder.
pub fn oracle(case: &Case) -> Verdict {
    let buf = &case.buf[..];
    let start = case.start;

    // try_from_compressed(buf, start)
    let model = decode_name(buf, start);
    match catch(|| Name::try_from_compressed(buf, start).map(|(n, l)| (n.wire_repr().to_vec(), n.len(), l))) {
        Err(p) => fail!(
            panic_signature(&p),
            "try_from_compressed(buf={}, start={start}) panicked: {p}; reference says {:?}",
            hex(buf),
            model.as_ref().map(|m| m.name.to_text())
        ),
        Ok(Ok((wire, nlabels, chunk))) => match &model {
            Ok(m) => {
                ensure!(
                    wire == m.name.wire(),
                    "compressed-wrong-name",
                    "try_from_compressed(buf={}, start={start}) = {} but reference decodes {}",
                    hex(buf),
                    hex(&wire),
                    hex(&m.name.wire())
                );
                ensure!(
                    nlabels == m.name.n_labels_with_root(),
                    "compressed-wrong-label-count",
                    "try_from_compressed(buf={}, start={start}) has {nlabels} labels, reference {}",
                    hex(buf),
                    m.name.n_labels_with_root()
                );
                ensure!(
                    chunk == m.first_chunk_len,
                    "compressed-wrong-chunk-len",
                    "try_from_compressed(buf={}, start={start}) first chunk {chunk}, reference {}",
                    hex(buf),
                    m.first_chunk_len
                );
            }
            Err(e) => fail!(
                "compressed-accepts-invalid",
                "try_from_compressed(buf={}, start={start}) accepted ({}) but the reference rejects: {e:?}",
                hex(buf),
                hex(&wire)
            ),
        },
        Ok(Err(e)) => {
            if let Ok(m) = &model {
                fail!(
                    "compressed-rejects-valid",
                    "try_from_compressed(buf={}, start={start}) failed with {e:?} but the reference decodes {}",
                    hex(buf),
                    m.name.to_text()
                );
            }
        }
    }

    // The slice-based entry points operate on buf[start..].
    if start <= buf.len() {
        let s = &buf[start..];
        let model_skip = delimit_name(s, 0);
        match catch(|| Name::skip_compressed(s)) {
            Err(p) => fail!(panic_signature(&p), "skip_compressed({}) panicked: {p}", hex(s)),
            Ok(r) => match (&r, &model_skip) {
                (Ok(a), Ok(b)) => ensure!(
                    a == b,
                    "skip-wrong-len",
                    "skip_compressed({}) = {a}, reference first chunk = {b}",
                    hex(s)
                ),
                (Ok(a), Err(e)) => fail!(
                    "skip-accepts-invalid",
                    "skip_compressed({}) = Ok({a}) but the reference cannot delimit the chunk: {e:?}",
                    hex(s)
                ),
                (Err(e), Ok(b)) => fail!(
                    "skip-rejects-valid",
                    "skip_compressed({}) failed with {e:?}, reference first chunk = {b}",
                    hex(s)
                ),
                (Err(_), Err(_)) => {}
            },
        }
        let model_unc = MName::from_wire(s);
        match catch(|| Name::try_from_uncompressed(s).map(|(n, l)| (n.wire_repr().to_vec(), n.len(), l))) {
            Err(p) => fail!(panic_signature(&p), "try_from_uncompressed({}) panicked: {p}", hex(s)),
            Ok(Ok((wire, nlabels, len))) => match &model_unc {
                Some((m, mlen)) => ensure!(
                    wire == m.wire() && len == *mlen && nlabels == m.n_labels_with_root(),
                    "uncompressed-wrong",
                    "try_from_uncompressed({}) = ({}, {len}), reference ({}, {mlen})",
                    hex(s),
                    hex(&wire),
                    hex(&m.wire())
                ),
                None => fail!("uncompressed-accepts-invalid", "try_from_uncompressed({}) accepted", hex(s)),
            },
            Ok(Err(e)) => ensure!(
                model_unc.is_none(),
                "uncompressed-rejects-valid",
                "try_from_uncompressed({}) failed with {e:?}",
                hex(s)
            ),
        }
        let all_ok = model_unc.as_ref().map_or(false, |(_, l)| *l == s.len());
        match catch(|| Name::try_from_uncompressed_all(s).map(|n| n.wire_repr().to_vec())) {
            Err(p) => fail!(panic_signature(&p), "try_from_uncompressed_all({}) panicked: {p}", hex(s)),
            Ok(r) => {
                ensure!(
                    r.is_ok() == all_ok,
                    "uncompressed-all-acceptance",
                    "try_from_uncompressed_all({}) is_ok={}, reference {all_ok}",
                    hex(s),
                    r.is_ok()
                );
                if let Ok(w) = r {
                    ensure!(w == s, "uncompressed-all-wrong", "try_from_uncompressed_all({}) = {}", hex(s), hex(&w));
                }
            }
        }
        match catch(|| Name::validate_uncompressed(s)) {
            Err(p) => fail!(panic_signature(&p), "validate_uncompressed({}) panicked: {p}", hex(s)),
            Ok(r) => {
                let expect = model_unc.as_ref().map(|(_, l)| *l);
                ensure!(
                    r.as_ref().ok().copied() == expect,
                    "validate-uncompressed",
                    "validate_uncompressed({}) = {r:?}, reference {expect:?}",
                    hex(s)
                );
            }
        }
        match catch(|| Name::validate_uncompressed_all(s)) {
            Err(p) => fail!(panic_signature(&p), "validate_uncompressed_all({}) panicked: {p}", hex(s)),
            Ok(r) => ensure!(
                r.is_ok() == all_ok,
                "validate-uncompressed-all",
                "validate_uncompressed_all({}) is_ok={}, reference {all_ok}",
                hex(s),
                r.is_ok()
            ),
        }
    }
    Ok(())
}

fn is_nontrivial(case: &Case) -> bool {
    case.buf.iter().any(|b| *b >= 0x3f) && !case.buf.is_empty()
}

fn classify(case: &Case, st: &mut Stats) {
    st.eval();
    match decode_name(&case.buf, case.start) {
        Ok(d) => {
            st.class("ref-accepts");
            if !d.pointers.is_empty() {
                st.class("ref-accepts-with-pointer");
            }
            if d.pointers.len() >= 2 {
                st.class("ref-accepts-pointer-chain");
            }
            if d.name.wire_len() >= 250 {
                st.class("ref-accepts-name>=250");
            }
            if d.name.labels.len() >= 100 {
                st.class("ref-accepts-labels>=100");
            }
            if d.name.labels.iter().any(|l| l.len() == 63) {
                st.class("ref-accepts-label-63");
            }
        }
        Err(e) => st.class(&format!("ref-rejects-{e:?}")),
    }
    if case.start >= case.buf.len() {
        st.class("start-at-or-past-end");
    }
    if is_nontrivial(case) {
        st.nontrivial(case, || json!({"buf_hex": hex(&case.buf), "start": case.start}));
    }
}

const ALPHABET: [u8; 12] = [0x00, 0x01, 0x02, 0x3f, 0x40, 0x7f, 0xc0, 0xc1, 0xff, b'a', b'A', 0x05];

fn nth_small_buffer(mut idx: u64) -> Vec<u8> {
    // Enumerates buffers of length 0..=5 in order of length.
    let mut len = 0usize;
    let mut block = 1u64;
    while idx >= block {
        idx -= block;
        block *= 12;
        len += 1;
    }
    let mut buf = vec![0u8; len];
    for i in (0..len).rev() {
        buf[i] = ALPHABET[(idx % 12) as usize];
        idx /= 12;
    }
    buf
}

#[derive(Clone, Debug)]
enum Seg {
    Label(Vec<u8>),
    Root,
    /// pointer to the start of an earlier segment chosen by selector
    PtrSeg(u16),
    /// pointer with an arbitrary 14-bit target
    PtrAbs(u16),
    /// pointer to itself (+delta 0..3)
    PtrNear(u8),
    Raw(Vec<u8>),
    /// n labels of length k
    Run(u8, u8),
    /// a terminated name followed by n pointers, each pointing at the previous one
    /// (chunks that consist of a pointer alone are legal; so is any number of them)
    PtrChain(u16),
}

fn seg_strategy() -> impl Strategy<Value = Seg> {
    prop_oneof![
        6 => prop::collection::vec(any::<u8>(), 1..6).prop_map(Seg::Label),
        1 => prop::collection::vec(prop_oneof![Just(b'a'), Just(b'Z'), Just(0u8), Just(0xc0u8)], 62..=63).prop_map(Seg::Label),
        3 => Just(Seg::Root),
        5 => any::<u16>().prop_map(Seg::PtrSeg),
        1 => any::<u16>().prop_map(|v| Seg::PtrAbs(v & 0x3fff)),
        1 => (0u8..4).prop_map(Seg::PtrNear),
        1 => prop::collection::vec(any::<u8>(), 1..4).prop_map(Seg::Raw),
        1 => prop::collection::vec(prop_oneof![Just(0x40u8), Just(0x80u8), Just(0xbfu8), Just(0x3fu8), Just(0xc0u8)], 1..2).prop_map(Seg::Raw),
        1 => (1u8..=130, 1u8..=3).prop_map(|(n, k)| Seg::Run(n, k)),
        1 => (1u8..=5, 40u8..=63).prop_map(|(n, k)| Seg::Run(n, k)),
        1 => prop_oneof![1u16..8, 120u16..135, 1u16..280].prop_map(Seg::PtrChain),
    ]
}

fn build(segs: &[Seg]) -> (Vec<u8>, Vec<usize>, Vec<usize>) {
    build_after(segs, 0)
}

/// `gap` octets of small terminated names ("\x03abc\x00" repeated) come first, so that every
/// segment, and every pointer to a segment, lies at a large offset.
fn build_after(segs: &[Seg], gap: usize) -> (Vec<u8>, Vec<usize>, Vec<usize>) {
    let mut buf: Vec<u8> = b"\x03abc\x00".iter().copied().cycle().take(gap).collect();
    let cap = gap + 600;
    let mut starts = Vec::new();
    // offsets worth starting at that are not segment starts (ends of pointer chains)
    let mut specials = Vec::new();
    for s in segs {
        starts.push(buf.len());
        match s {
            Seg::Label(l) => {
                buf.push(l.len() as u8);
                buf.extend_from_slice(l);
            }
            Seg::Root => buf.push(0),
            Seg::PtrSeg(sel) => {
                let n = starts.len();
                let t = starts[(*sel as usize * n) >> 16];
                buf.push(0xc0 | ((t >> 8) as u8 & 0x3f));
                buf.push(t as u8);
            }
            Seg::PtrAbs(t) => {
                buf.push(0xc0 | (t >> 8) as u8);
                buf.push(*t as u8);
            }
            Seg::PtrNear(d) => {
                let t = buf.len() + *d as usize;
                buf.push(0xc0 | ((t >> 8) as u8 & 0x3f));
                buf.push(t as u8);
            }
            Seg::Raw(r) => buf.extend_from_slice(r),
            Seg::Run(n, k) => {
                for i in 0..*n {
                    buf.push(*k);
                    for j in 0..*k {
                        buf.push(b'a' + ((i as u16 + j as u16) % 26) as u8);
                    }
                }
            }
            Seg::PtrChain(n) => {
                // "\x01a\x00" then the chain
                let mut target = buf.len();
                buf.extend_from_slice(&[1, b'a', 0]);
                for _ in 0..*n {
                    if buf.len() + 2 > cap || target > 0x3fff {
                        break;
                    }
                    let here = buf.len();
                    buf.push(0xc0 | ((target >> 8) as u8 & 0x3f));
                    buf.push(target as u8);
                    target = here;
                }
                specials.push(target);
            }
        }
        if buf.len() > cap {
            buf.truncate(cap);
            break;
        }
    }
    (buf, starts, specials)
}

pub fn case_strategy() -> impl Strategy<Value = Case> {
    (
        prop::collection::vec(seg_strategy(), 0..30),
        any::<u16>(),
        0u8..10,
        any::<u16>(),
        // one buffer in eight starts with a gap, so that pointer offsets use the high bits of the 14-bit field
        prop_oneof![28 => Just(0usize), 1 => 250usize..260, 1 => 1020usize..1030, 1 => 4090usize..4100, 1 => 16370usize..16390],
    )
        .prop_map(|(segs, sel, mode, cut, gap)| {
            let (mut buf, starts, specials) = build_after(&segs, gap);
            // sometimes truncate the buffer
            if mode == 9 && !buf.is_empty() {
                let keep = (cut as usize * (buf.len() + 1)) >> 16;
                buf.truncate(keep);
            }
            let start = if mode == 7 && !specials.is_empty() {
                specials[(sel as usize * specials.len()) >> 16].min(buf.len())
            } else if mode < 7 && !starts.is_empty() {
                starts[(sel as usize * starts.len()) >> 16].min(buf.len())
            } else {
                (sel as usize * (buf.len() + 2)) >> 16
            };
            Case { buf, start }
        })
}

/// Names whose uncompressed length is exactly around the 255-octet / 127-label
/// limits, laid out as 1-3 chunks chained by pointers.
pub fn boundary_strategy() -> impl Strategy<Value = Case> {
    (
        250usize..=258,
        prop_oneof![Just(1usize), Just(2), Just(3), Just(62), Just(63), 1usize..=63],
        0usize..=2,
        any::<u16>(),
        any::<u16>(),
        0usize..3,
    )
        .prop_map(|(target, lab, splits, s1, s2, prefix)| {
            // label lengths summing (with length octets and root) to `target`
            let mut lens = Vec::new();
            let mut total = 1usize;
            while total < target {
                let remaining = target - total;
                let l = if remaining >= lab + 1 { lab } else { remaining.saturating_sub(1) };
                if l == 0 {
                    // cannot hit the target exactly with one more label; extend the last one
                    if let Some(last) = lens.last_mut() {
                        if *last < 63 {
                            *last += 1;
                            total += 1;
                            continue;
                        }
                    }
                    break;
                }
                lens.push(l);
                total += l + 1;
            }
            let n = lens.len();
            let mut cuts = vec![(s1 as usize * (n + 1)) >> 16, (s2 as usize * (n + 1)) >> 16];
            cuts.truncate(splits);
            cuts.sort();
            cuts.dedup();
            // chunks in name order: [0..c1) [c1..c2) [c2..n); laid out in reverse so pointers go backwards
            let mut bounds = vec![0];
            bounds.extend(cuts.iter().copied());
            bounds.push(n);
            let mut buf = vec![0u8; prefix];
            let mut next_target: Option<usize> = None;
            let mut start = 0;
            for w in (0..bounds.len() - 1).rev() {
                let (lo, hi) = (bounds[w], bounds[w + 1]);
                start = buf.len();
                for (i, l) in lens[lo..hi].iter().enumerate() {
                    buf.push(*l as u8);
                    for j in 0..*l {
                        buf.push(b'a' + ((i + j) % 26) as u8);
                    }
                }
                match next_target {
                    None => buf.push(0),
                    Some(t) => {
                        buf.push(0xc0 | (t >> 8) as u8);
                        buf.push(t as u8);
                    }
                }
                next_target = Some(start);
            }
            Case { buf, start }
        })
}

pub fn run(ctx: &Ctx, report: &mut Report) {
    report.rule = "exhaustive: all 271453 buffers of length <= 5 over the 12 significant octets at every start \
        offset 0..=len+1; plus proptest-generated structured buffers (labels, 63-octet labels, label runs up to \
        >255 octets / >127 labels, pointers to earlier segments / arbitrary / self / forward, reserved label types, \
        truncation) up to 600 octets. Non-trivial = buffer contains an octet >= 0x3f (pointer, reserved label type \
        or maximal label); distinct = distinct (buffer, start) pairs."
        .into();
    report.exhaustive = false;
    report.assumptions.push("reference decoder vmodel::wire (unit-tested on the RFC 1035 §4.1.4 example)".into());

    let known: Vec<String> = report.known.iter().map(|k| k.signature.clone()).collect();
    let known = &known;
    let total: u64 = (0..=5).map(|l| 12u64.pow(l)).sum();
    run_parallel(ctx, report, "exhaustive-small", total, move |range, st| {
        for i in range {
            let buf = nth_small_buffer(i);
            for start in 0..=buf.len() + 1 {
                let case = Case {
                    buf: buf.clone(),
                    start,
                };
                classify(&case, st);
                if let Err(f) = oracle(&case) {
                    if known.iter().any(|k| *k == f.signature) {
                        *st.known_hits.entry(f.signature.clone()).or_insert(0) += 1;
                    } else {
                        return Some((json!(case), f));
                    }
                }
            }
        }
        None
    });
    report.stats.extra.insert("exhaustive_small_buffers".into(), json!(total));

    run_prop(
        ctx,
        report,
        PropSpec {
            name: "structured",
            cases: ctx.tier.pick(1_200_000, 12_000_000),
            max_shrink_iters: 4096,
        },
        case_strategy,
        |case: &Case, st: &mut Stats| {
            classify(case, st);
            oracle(case)
        },
    );
    run_prop(
        ctx,
        report,
        PropSpec {
            name: "boundary",
            cases: ctx.tier.pick(300_000, 3_000_000),
            max_shrink_iters: 4096,
        },
        boundary_strategy,
        |case: &Case, st: &mut Stats| {
            classify(case, st);
            oracle(case)
        },
    );
}

pub fn replay(_check: &str, case: &serde_json::Value) -> Verdict {
    crate::fw::replay_case::<Case, _>(case, |c, _| oracle(c))
}

#[allow(dead_code)]
fn _unused(_: Fail) {}
