//! C30, sub-check `io-slow-clients`: requests that arrive slowly but *within*
//! the read timeout. The server gives a client 5 s (`READ_MESSAGE_TIMEOUT`) to
//! deliver each message, counted from the moment it starts waiting for that
//! message. Here a client sends 2-3 requests one after the other on one
//! connection (each only after the previous response has arrived), waits
//! 0 / 1.5 / 3 s before the first octet of a request and up to 0.5 s between
//! its parts — never more than 3.5 s per request by construction — and must get
//! every response, equal to the twin server's.
//!
//! Timing guard: the client measures, for every request, the time from the
//! arrival of the previous response (or from connecting) to its last write. If
//! the machine was so loaded that this exceeded 4.2 s the history is not judged.
//! The server's own clock for a message starts no later than the client's (it
//! starts when the previous response has been written), so below that bound
//! the request was within the server's timeout.

use super::*;

#[derive(Clone, Debug, Serialize, Deserialize, PartialEq, Eq, Hash)]
pub struct SlowReq {
    pub req: ReqSpec,
    /// tenths of a second to wait before the first octet (0, 15 or 30)
    pub idle_ds: u8,
    /// where to cut the framed request (selectors) and the pause before each further part, in tenths of a second
    pub cuts: Vec<(u16, u8)>,
}

#[derive(Clone, Debug, Serialize, Deserialize, PartialEq, Eq, Hash)]
pub struct SlowCase {
    pub cfg: u8,
    pub reqs: Vec<SlowReq>,
}

/// One provider per configuration for the whole sub-check (connections are independent).
static SHARED: std::sync::Mutex<Option<HashMap<u8, Running>>> = std::sync::Mutex::new(None);

fn shared_port_for(cfg_index: u8) -> u16 {
    let mut g = SHARED.lock().unwrap();
    let map = g.get_or_insert_with(HashMap::new);
    if let Some(r) = map.get(&cfg_index) {
        return r.port;
    }
    let cfg = &CONFIGS[cfg_index as usize % CONFIGS.len()];
    match start(cfg) {
        Some(r) => {
            let port = r.port;
            map.insert(cfg_index, r);
            port
        }
        None => {
            eprintln!("INFRA: cannot start provider {} on a loopback port", cfg.name);
            std::process::exit(2);
        }
    }
}

pub fn stop_shared_providers() {
    let all: Vec<Running> = match SHARED.lock().unwrap().take() {
        Some(m) => m.into_values().collect(),
        None => return,
    };
    std::thread::scope(|s| {
        for r in all {
            s.spawn(move || drop(r));
        }
    });
}

fn read_exact_timeout(s: &mut TcpStream, buf: &mut [u8], deadline: Instant) -> std::io::Result<bool> {
    let mut got = 0;
    while got < buf.len() {
        let left = deadline.saturating_duration_since(Instant::now());
        if left.is_zero() {
            return Err(std::io::Error::new(std::io::ErrorKind::TimedOut, "no response in time"));
        }
        s.set_read_timeout(Some(left))?;
        match s.read(&mut buf[got..]) {
            Ok(0) => return Ok(false),
            Ok(n) => got += n,
            Err(e) if e.kind() == std::io::ErrorKind::Interrupted => {}
            Err(e) if e.kind() == std::io::ErrorKind::WouldBlock || e.kind() == std::io::ErrorKind::TimedOut => {
                return Err(std::io::Error::new(std::io::ErrorKind::TimedOut, "no response in time"));
            }
            Err(e) if e.kind() == std::io::ErrorKind::ConnectionReset => return Ok(false),
            Err(e) => return Err(e),
        }
    }
    Ok(true)
}

pub fn oracle_slow(case: &SlowCase, st: &mut Stats) -> Verdict {
    let cfg_index = case.cfg % CONFIGS.len() as u8;
    let cfg = CONFIGS[cfg_index as usize];
    let port = shared_port_for(cfg_index);
    let twin = new_server(cfg.payload);
    let addr = SocketAddr::new(IpAddr::V4(Ipv4Addr::LOCALHOST), port);
    let infra = |what: &str, e: std::io::Error| -> Fail { Fail::new("infra", format!("{what}: {e}")) };
    let mut stream = match TcpStream::connect_timeout(&addr, Duration::from_secs(3)) {
        Ok(s) => s,
        Err(_) => {
            st.discard("connect-failed");
            return Ok(());
        }
    };
    let _ = stream.set_nodelay(true);
    let mut clock = Instant::now();
    let mut buf = vec![0u8; 65535];
    let mut waited_long = false;
    for (i, r) in case.reqs.iter().enumerate() {
        let bytes = render(&r.req, &env().pool, &[], now_secs()).bytes;
        let expected = match catch(|| twin.handle_message(&bytes, ReceivedInfo::new(IpAddr::V4(Ipv4Addr::LOCALHOST), Transport::Tcp), &mut buf)) {
            Ok(Response::Single(n)) => buf[..n].to_vec(),
            // a request without a response ends the connection; such requests are not part of this sub-check
            _ => {
                st.discard("request-without-response");
                return Ok(());
            }
        };
        let mut frame = (bytes.len() as u16).to_be_bytes().to_vec();
        frame.extend_from_slice(&bytes);
        // parts
        let mut cut_at: Vec<usize> = r.cuts.iter().map(|(sel, _)| 1 + crate::gen::pick(*sel, frame.len() - 1)).collect();
        cut_at.sort_unstable();
        cut_at.dedup();
        let mut budget_ds = 35u32.saturating_sub(r.idle_ds as u32);
        std::thread::sleep(Duration::from_millis(r.idle_ds as u64 * 100));
        let mut pos = 0;
        for (k, end) in cut_at.iter().copied().chain(std::iter::once(frame.len())).enumerate() {
            if k > 0 {
                let pause = (r.cuts[(k - 1) % r.cuts.len()].1 as u32).min(budget_ds);
                budget_ds -= pause;
                std::thread::sleep(Duration::from_millis(pause as u64 * 100));
            }
            if let Err(e) = stream.write_all(&frame[pos..end]) {
                // the server closed on us: judged below through the missing response
                let _ = e;
                break;
            }
            pos = end;
        }
        let spent = clock.elapsed();
        if spent > Duration::from_millis(4200) {
            st.discard("client-was-too-slow-for-the-read-timeout");
            return Ok(());
        }
        if spent > Duration::from_millis(1400) {
            waited_long = true;
        }
        let describe = || {
            format!(
                "provider {}; request #{i} of {} ({} octets, sent {:.1} s after the previous response in {} parts: idle {} ds, cuts {:?}); earlier requests: {:?}",
                cfg.name,
                case.reqs.len(),
                bytes.len(),
                spent.as_secs_f64(),
                cut_at.len() + 1,
                r.idle_ds,
                r.cuts,
                case.reqs[..i].iter().map(|q| (q.idle_ds, q.cuts.clone())).collect::<Vec<_>>()
            )
        };
        let deadline = Instant::now() + Duration::from_secs(4);
        let mut len2 = [0u8; 2];
        match read_exact_timeout(&mut stream, &mut len2, deadline) {
            Ok(true) => {}
            Ok(false) => fail!("tcp-slow-client-connection-closed", "{}: the server closed the connection instead of answering a request that arrived within the read timeout", describe()),
            Err(e) if e.kind() == std::io::ErrorKind::TimedOut => fail!("tcp-slow-client-not-answered", "{}: no response within 4 s", describe()),
            Err(e) => return Err(infra("reading the response length", e)),
        }
        let n = u16::from_be_bytes(len2) as usize;
        let mut body = vec![0u8; n];
        match read_exact_timeout(&mut stream, &mut body, deadline) {
            Ok(true) => {}
            Ok(false) => fail!("tcp-slow-client-connection-closed", "{}: the connection ended inside a response frame", describe()),
            Err(e) if e.kind() == std::io::ErrorKind::TimedOut => fail!("tcp-slow-client-not-answered", "{}: response frame incomplete after 4 s", describe()),
            Err(e) => return Err(infra("reading the response", e)),
        }
        clock = Instant::now();
        st.eval();
        ensure!(same_response(&body, &expected), "tcp-response-differs", "{}: response {} differs from the twin's {}", describe(), hex(&body), hex(&expected));
    }
    st.class(cfg.name);
    if waited_long && case.reqs.len() >= 2 {
        st.class("connection-with-a-request-sent-more-than-1.4-s-after-the-previous-response");
        st.nontrivial(case, || json!({"provider": cfg.name, "requests": case.reqs.iter().map(|q| json!({"idle_ds": q.idle_ds, "cuts": q.cuts})).collect::<Vec<_>>()}));
    }
    Ok(())
}

pub fn slow_case() -> impl Strategy<Value = SlowCase> {
    let one = (req_spec(1, 0.02), prop_oneof![1 => Just(0u8), 1 => Just(15u8), 2 => Just(30u8)], prop::collection::vec((any::<u16>(), prop_oneof![2 => Just(0u8), 1 => Just(3u8), 1 => Just(5u8)]), 0..3)).prop_map(|(mut req, idle_ds, cuts)| {
        req.mutations.clear();
        SlowReq { req, idle_ds, cuts }
    });
    (prop_oneof![1 => Just(4u8), 4 => 0u8..4], prop::collection::vec(one, 2..=3)).prop_map(|(cfg, reqs)| SlowCase { cfg, reqs })
}
