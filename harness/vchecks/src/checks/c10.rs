//! C10 — TSIG-signed requests are authenticated before being answered
//! (oracle: vmodel::scan for the verdict, vmodel::tsig for the response MAC,
//! and a differential against the same server's answer to the unsigned request).

use proptest::prelude::*;
use serde_json::json;
use vmodel::rdata as mr;
use vmodel::scan::{scan, Scan, Stage};
use vmodel::tsig as mt;
use vmodel::wire::{decode_message, MessageDecode};

use crate::fw::{panic_signature, run_prop, Ctx, Fail, PropSpec, Report, Stats, Verdict};
use crate::reqgen::{key_specs, render, req_spec, source_addr};
use crate::srvgen::{build, catalog_spec};
use crate::srvrun::{canon_decoded, hex, make_server, plain_additional, ServerCfg};
use crate::{ensure, fail};

use super::c05::query_names;
use super::srvchk::{keys_for_scan, now_secs, Case};

fn no_data(d: &MessageDecode) -> bool {
    d.answers.is_empty() && d.authority.is_empty() && plain_additional(d).is_empty()
}

fn judge(req: &[u8], tcp: bool, resp: &[u8], twin: Option<&[u8]>, limit: usize, sc: &Scan, t0: u64, t1: u64, st: &mut Stats) -> Verdict {
    let what = || format!("request {} over {}", hex(req), if tcp { "TCP" } else { "UDP" });
    let ts = match &sc.tsig {
        Some(t) => t,
        None => return Ok(()),
    };
    let d = match decode_message(resp) {
        Ok(d) => d,
        Err(e) => fail!("response-undecodable", "{}: response {} does not decode: {e:?}", what(), hex(resp)),
    };
    let rc = d.extended_rcode();
    // the TSIG stage reached by the scanner is the last entry it pushed before deciding
    let tsig_rr = d.additional.last().filter(|r| r.rtype == mr::T_TSIG);
    let rd = tsig_rr.and_then(|r| mr::parse_tsig(&r.rdata));
    // response MAC check helper
    let mac_verifies = |key: &vmodel::scan::KeyM| -> Result<bool, String> {
        let r = tsig_rr.ok_or("no TSIG record in the response")?;
        let rd = rd.as_ref().ok_or("response TSIG RDATA does not parse")?;
        let vars = mt::Vars {
            key_name: r.owner.name.clone(),
            alg_name: rd.algorithm.clone(),
            time_signed: rd.time_signed,
            fudge: rd.fudge,
            error: rd.error,
            other: rd.other.clone(),
        };
        let input = mt::response_digest_input(&ts.request_mac, &resp[..r.start], rd.original_id, &vars);
        Ok(mt::hmac(key.alg, &key.secret, &input) == rd.mac)
    };
    let outcome_of = |s: &Stage| -> &'static str {
        match s {
            Stage::Query | Stage::NotImp => "authenticated",
            Stage::NotAuth(16) => "badsig",
            Stage::NotAuth(17) => "badkey",
            Stage::NotAuth(18) => "badtime",
            Stage::NotAuth(_) => "notauth",
            Stage::TsigMacFormErr => "mac-length-formerr",
            Stage::FormErr => "formerr",
            Stage::BadVers => "badvers",
        }
    };
    for s in &sc.accept {
        st.class(outcome_of(s));
    }
    // Try each acceptable stage; the response must satisfy one of them completely.
    let mut problems: Vec<String> = Vec::new();
    for s in &sc.accept {
        let r: Result<(), String> = (|| match s {
            Stage::NotAuth(err @ (16 | 17)) => {
                if rc != 9 {
                    return Err(format!("RCODE {rc}, expected NOTAUTH"));
                }
                if !no_data(&d) {
                    return Err("answer data in a NOTAUTH response".into());
                }
                let rd = rd.as_ref().ok_or("no (parseable) TSIG record as the last record")?;
                if rd.error != *err {
                    return Err(format!("TSIG error {}, expected {err}", rd.error));
                }
                if !rd.mac.is_empty() {
                    return Err(format!("MAC of {} octets, expected an empty MAC", rd.mac.len()));
                }
                if !tsig_rr.unwrap().owner.name.eq_fold(&ts.key_name) || !rd.algorithm.eq_fold(&ts.alg_name) {
                    return Err("key or algorithm name not echoed".into());
                }
                Ok(())
            }
            Stage::NotAuth(18) => {
                if rc != 9 {
                    return Err(format!("RCODE {rc}, expected NOTAUTH"));
                }
                if !no_data(&d) {
                    return Err("answer data in a BADTIME response".into());
                }
                let rd = rd.as_ref().ok_or("no (parseable) TSIG record as the last record")?;
                if rd.error != 18 {
                    return Err(format!("TSIG error {}, expected 18 (BADTIME)", rd.error));
                }
                if rd.time_signed != ts.time_signed {
                    return Err(format!("time signed {} is not the request's {}", rd.time_signed, ts.time_signed));
                }
                if rd.other.len() != 6 {
                    return Err(format!("other data of {} octets, expected the 6-octet server time", rd.other.len()));
                }
                let mut srv = 0u64;
                for b in &rd.other {
                    srv = (srv << 8) | *b as u64;
                }
                if srv < t0 || srv > t1 {
                    return Err(format!("server time {srv} in other data is outside [{t0}, {t1}]"));
                }
                let key = ts.key.as_ref().ok_or("internal: BADTIME without a key")?;
                if !mac_verifies(key)? {
                    return Err("the BADTIME response's MAC does not verify against the request MAC".into());
                }
                Ok(())
            }
            Stage::NotAuth(_) => Err("unexpected stage".into()),
            Stage::TsigMacFormErr => {
                if rc != 1 {
                    return Err(format!("RCODE {rc}, expected FORMERR for a MAC of {} octets", ts.request_mac.len()));
                }
                if !no_data(&d) {
                    return Err("answer data in a FORMERR response".into());
                }
                Ok(())
            }
            Stage::FormErr => {
                if rc != 1 {
                    return Err(format!("RCODE {rc}, expected FORMERR"));
                }
                Ok(())
            }
            Stage::BadVers => {
                if rc != 16 {
                    return Err(format!("RCODE {rc}, expected BADVERS"));
                }
                Ok(())
            }
            Stage::Query | Stage::NotImp => {
                // authenticated: answered as the unsigned request would be, and signed
                let key = ts.key.as_ref().ok_or("internal: authenticated without a key")?;
                let rd = rd.as_ref().ok_or("the response to an authenticated request has no (parseable) TSIG record as its last record")?;
                if rd.error != 0 {
                    return Err(format!("TSIG error {} in the response to an authenticated request", rd.error));
                }
                if !tsig_rr.unwrap().owner.name.eq_fold(&ts.key_name) || !rd.algorithm.eq_fold(&ts.alg_name) {
                    return Err("key or algorithm name not echoed".into());
                }
                if rd.original_id != ts.original_id {
                    return Err(format!("original ID {} differs from the request's {}", rd.original_id, ts.original_id));
                }
                if rd.time_signed < t0 || rd.time_signed > t1 {
                    return Err(format!("time signed {} outside [{t0}, {t1}]", rd.time_signed));
                }
                if !mac_verifies(key)? {
                    return Err(format!("the response MAC {} does not verify (RFC 8945 response digest over the received request MAC of {} octets)", hex(&rd.mac), ts.request_mac.len()));
                }
                if *s == Stage::NotImp && rc != 4 {
                    return Err(format!("RCODE {rc}, expected NOTIMP"));
                }
                if let Some(tw_bytes) = twin {
                    let tw = decode_message(tw_bytes).map_err(|e| format!("twin response undecodable: {e:?}"))?;
                    // The space reserved for the TSIG record is not available to optional additional
                    // records: when the unsigned answer ends within 300 octets of the limit, the signed
                    // one may carry fewer of them (a subset), never others.
                    let near_limit = tw_bytes.len() + 300 > limit;
                    if !tw.header.tc && !d.header.tc {
                        let sec = |m: &MessageDecode| {
                            let mut a: Vec<_> = m.answers.iter().map(canon_decoded).collect();
                            let mut b: Vec<_> = m.authority.iter().map(canon_decoded).collect();
                            let mut c: Vec<_> = plain_additional(m).into_iter().map(canon_decoded).collect();
                            a.sort();
                            b.sort();
                            c.sort();
                            c.dedup();
                            (m.extended_rcode(), m.header.aa, a, b, c)
                        };
                        let (st_, sd_) = (sec(&tw), sec(&d));
                        let same = if near_limit {
                            (&st_.0, &st_.1, &st_.2, &st_.3) == (&sd_.0, &sd_.1, &sd_.2, &sd_.3) && sd_.4.iter().all(|r| st_.4.contains(r))
                        } else {
                            st_ == sd_
                        };
                        if !same {
                            return Err(format!("the answer differs from the answer to the same request without TSIG: RCODE/AA {}/{} vs {}/{}, {}+{} vs {}+{} answer+authority records", rc, d.header.aa, tw.extended_rcode(), tw.header.aa, d.answers.len(), d.authority.len(), tw.answers.len(), tw.authority.len()));
                        }
                    }
                }
                Ok(())
            }
        })();
        match r {
            Ok(()) => {
                st.nontrivial(&(outcome_of(s), req), || json!({"outcome": outcome_of(s), "request_hex": hex(req), "response_hex": hex(resp)}));
                return Ok(());
            }
            Err(e) => problems.push(format!("as {}: {e}", outcome_of(s))),
        }
    }
    let first = sc.accept.first().map(outcome_of).unwrap_or("none");
    fail!(
        format!("tsig-{first}"),
        "{}: the reference authenticates this request as {:?} ({}), but the response {} does not match: {}",
        what(),
        sc.accept,
        if sc.reason.is_empty() { "valid signature and time" } else { sc.reason },
        hex(resp),
        problems.join("; ")
    );
}

#[path = "c10s.rs"]
pub mod size;

pub fn oracle(case: &Case, st: &mut Stats) -> Verdict {
    oracle_with(case, None, st)
}

/// `pool`: the (name, class) pairs question selectors pick from (default: names derived from the catalog)
pub fn oracle_with(case: &Case, pool: Option<Vec<(vmodel::name::MName, u16)>>, st: &mut Stats) -> Verdict {
    let (cat, model) = build(&case.catalog);
    let mut cfg = case.cfg.clone();
    cfg.rrl = None;
    let pool = pool.unwrap_or_else(|| query_names(&model, &[], 400));
    // One key in three is renamed to a name that occurs in the catalog, so that the TSIG owner can
    // share labels with names inside the response (also with names of records that were written
    // and then discarded when the response is truncated).
    if !pool.is_empty() {
        for k in cfg.keys.iter_mut() {
            if k.secret.len() % 3 == 0 {
                let cand = pool[(k.secret[0] as usize * 7 + k.secret.len()) % pool.len()].0.folded();
                if cand.is_valid() && !cand.labels.is_empty() {
                    k.name = cand;
                }
            }
        }
        let mut seen = std::collections::BTreeSet::new();
        cfg.keys.retain(|k| seen.insert(k.name.folded()));
    }
    let server = make_server(&cat, &cfg);
    let payload = server.payload();
    let keys = keys_for_scan(&cfg);
    let mut buf = Vec::new();
    for r in &case.requests {
        if r.tsig.is_none() {
            continue;
        }
        let mut attempts = 0;
        loop {
            attempts += 1;
            let t0 = now_secs();
            let rendered = render(r, &pool, &cfg.keys, t0);
            let src = source_addr(&r.source);
            let resp = match server.handle(&rendered.bytes, r.tcp, src, &mut buf) {
                Ok(Some(n)) => Some(buf[..n].to_vec()),
                Ok(None) => None,
                Err(p) => return Err(Fail::new(panic_signature(&p), format!("handle_message panicked on {}: {p}", hex(&rendered.bytes)))),
            };
            let t1 = now_secs();
            if t1 - t0 > 1 && attempts < 3 {
                st.discard("slow-exchange-retried");
                continue;
            }
            st.eval();
            let sc = scan(&rendered.bytes, &keys, t0, t1);
            if !sc.respond || sc.tsig.is_none() {
                st.class("tsig-not-reached");
                break;
            }
            let limit = if r.tcp { 65535 } else { sc.udp_limit(payload) };
            let resp = match resp {
                Some(r) => r,
                None => {
                    if sc.tsig_may_not_fit(limit) {
                        st.discard("tsig-cannot-fit-the-size-limit");
                        break;
                    }
                    fail!("no-response", "request {} got no response", hex(&rendered.bytes));
                }
            };
            // the same request without the TSIG record (only when it was the last record and nothing was mutated)
            let twin = if r.mutations.is_empty() && r.tsig.as_ref().map_or(false, |t| !t.misplaced && t.tamper.is_none()) {
                let ts = sc.tsig.as_ref().unwrap();
                let mut unsigned = rendered.bytes[..ts.rr_start].to_vec();
                let ar = u16::from_be_bytes([unsigned[10], unsigned[11]]).wrapping_sub(1);
                unsigned[10..12].copy_from_slice(&ar.to_be_bytes());
                match server.handle(&unsigned, r.tcp, src, &mut buf) {
                    Ok(Some(n)) => Some(buf[..n].to_vec()),
                    _ => None,
                }
            } else {
                None
            };
            judge(&rendered.bytes, r.tcp, &resp, twin.as_deref(), limit, &sc, t0, t1, st)?;
            break;
        }
    }
    Ok(())
}

fn case_strategy() -> impl Strategy<Value = Case> {
    let cfg = (prop_oneof![Just(1232u16), Just(4096u16), Just(512u16)], key_specs()).prop_map(|(payload, keys)| ServerCfg { payload, keys, rrl: None });
    (prop_oneof![3 => catalog_spec(true, false, true).boxed(), 1 => catalog_spec(true, true, true).boxed()], cfg, prop::collection::vec(req_spec(4, 0.95), 1..10)).prop_map(|(catalog, cfg, requests)| Case {
        catalog,
        cfg,
        requests,
        raw: vec![],
    })
}

pub fn run(ctx: &Ctx, report: &mut Report) {
    report.rule = "generated key sets (0-4 keys, HMAC-SHA1/SHA256, secrets 1-63 octets) and requests signed by the independent signer with: \
        configured key / wrong secret / other algorithm / unknown name / unknown algorithm / giant names; MAC truncated to 0-33 octets; time \
        offsets inside and outside the fudge window incl. the edge (the scanner accepts both verdicts when the server's clock reading \
        within the exchange could fall on either side); request fudge 0-65535; original ID != ID; one bit tampered; TSIG class/TTL \
        variations; optional OPT before the TSIG; both transports. Oracle: outcome class from the Appendix B scanner; response TSIG \
        fields; response MAC recomputed by the independent RFC 8945 response digest over the received request MAC; authenticated \
        answers equal the same server's answer to the request without TSIG. Non-trivial = signed request by outcome class (classes)."
        .into();
    report.assumptions.push("wall clock: the server's time reading lies between the harness's readings before and after the call".into());
    run_prop(ctx, report, PropSpec { name: "tsig-server", cases: ctx.tier.pick(48_000, 600_000), max_shrink_iters: 3000 }, case_strategy, oracle);
    run_prop(ctx, report, PropSpec { name: "tsig-size-limit", cases: ctx.tier.pick(40_000, 600_000), max_shrink_iters: 2000 }, size::case_strategy, size::oracle);
}

pub fn replay(check: &str, case: &serde_json::Value) -> Verdict {
    if check == "tsig-size-limit" {
        return crate::fw::replay_case::<size::SizeCase, _>(case, size::oracle);
    }
    crate::fw::replay_case::<Case, _>(case, oracle)
}
