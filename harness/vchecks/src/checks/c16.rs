//! C16 — domain name text form, equality, ordering, accessors, builder
//! (oracle: vmodel::name).

use std::collections::hash_map::DefaultHasher;
use std::hash::{Hash, Hasher};

use proptest::prelude::*;
use quandary::name::{Label, LabelBuf, LowercaseName, Name, NameBuilder};
use serde::{Deserialize, Serialize};
use serde_json::json;
use vmodel::name::MName;

use crate::fw::{catch, panic_signature, run_prop, Ctx, PropSpec, Report, Stats, Verdict};
use crate::gen::{arb_label, arb_name, boundary_name, flip_case, label_octet, pick, pool_name};
use crate::{ensure, fail};

fn hex(b: &[u8]) -> String {
    b.iter().map(|x| format!("{x:02x}")).collect()
}

pub fn qname(m: &MName) -> Box<Name> {
    Name::try_from_uncompressed_all(&m.wire()).expect("model name must be accepted")
}

fn hash_name(n: &Name) -> u64 {
    let mut h = DefaultHasher::new();
    n.hash(&mut h);
    h.finish()
}

macro_rules! guarded {
    ($what:expr, $body:expr) => {
        match catch(|| $body) {
            Ok(v) => v,
            Err(p) => fail!(panic_signature(&p), "{} panicked: {p}", $what),
        }
    };
}

////////////////////////////////////////////////////////////////////////
// 1. text round trip                                                 //
////////////////////////////////////////////////////////////////////////

pub fn oracle_roundtrip(m: &MName, st: &mut Stats) -> Verdict {
    st.eval();
    let wire = m.wire();
    let name = guarded!("try_from_uncompressed_all", Name::try_from_uncompressed_all(&wire));
    let name = match name {
        Ok(n) => n,
        Err(e) => fail!("valid-name-rejected", "valid wire name {} rejected: {e:?}", hex(&wire)),
    };
    let text = guarded!("to_string", name.to_string());
    if text.contains('\\') {
        st.class("text-with-escape");
    }
    if wire.len() >= 200 {
        st.class("name>=200-octets");
    }
    if text.contains('\\') || wire.len() >= 200 {
        st.nontrivial(&wire, || json!({"wire_hex": hex(&wire), "text": text}));
    }
    // quandary's own parser reads its own output back
    match guarded!("parse", text.parse::<Box<Name>>()) {
        Ok(back) => ensure!(
            back.wire_repr() == &wire[..],
            "display-parse-roundtrip",
            "name {} displays as {text:?} which parses back to {}",
            hex(&wire),
            hex(back.wire_repr())
        ),
        Err(e) => fail!(
            "display-parse-roundtrip",
            "name {} displays as {text:?} which does not parse: {e:?}",
            hex(&wire)
        ),
    }
    // an independent RFC 1035 §5.1 parser reads the output to the same name
    match MName::parse_text(&text) {
        Some(back) => ensure!(
            back == *m,
            "display-not-rfc1035",
            "name {} displays as {text:?}, which an independent parser reads as {}",
            hex(&wire),
            hex(&back.wire())
        ),
        None => fail!(
            "display-not-rfc1035",
            "name {} displays as {text:?}, which an independent parser rejects",
            hex(&wire)
        ),
    }
    // and quandary parses the independent printer's text
    let mtext = m.to_text();
    match guarded!("parse", mtext.parse::<Box<Name>>()) {
        Ok(back) => ensure!(
            back.wire_repr() == &wire[..],
            "parse-model-text",
            "text {mtext:?} parses to {}, expected {}",
            hex(back.wire_repr()),
            hex(&wire)
        ),
        Err(e) => fail!("parse-model-text", "text {mtext:?} rejected: {e:?}"),
    }
    // Debug is the quoted Display
    ensure!(format!("{name:?}") == format!("\"{text}\""), "debug-format", "Debug of {text:?} is {name:?}");
    Ok(())
}

////////////////////////////////////////////////////////////////////////
// 2. text parsing acceptance                                         //
////////////////////////////////////////////////////////////////////////

fn text_strategy() -> impl Strategy<Value = String> {
    let piece = prop_oneof![
        10 => prop_oneof![Just("a"), Just("b"), Just("Z"), Just("0"), Just("9"), Just("-"), Just("*"), Just("@"), Just(" "), Just("\""), Just(";"), Just("("), Just(")")].prop_map(|s| s.to_string()),
        6 => Just(".".to_string()),
        2 => Just("\\.".to_string()),
        2 => Just("\\\\".to_string()),
        2 => (0u16..=300).prop_map(|v| format!("\\{v:03}")),
        1 => (0u16..=99).prop_map(|v| format!("\\{v}")),
        1 => Just("\\".to_string()),
        1 => Just("\\a".to_string()),
        1 => Just("é".to_string()),
        1 => Just("\\é".to_string()),
        1 => (1usize..=70).prop_map(|n| "x".repeat(n)),
        1 => (1usize..=130).prop_map(|n| "y.".repeat(n)),
        1 => any::<char>().prop_map(|c| c.to_string()),
    ];
    prop_oneof![
        8 => prop::collection::vec(piece.clone(), 0..12).prop_map(|v| v.concat()),
        2 => prop::collection::vec(piece, 0..12).prop_map(|v| v.concat() + "."),
        // texts around the 255-octet limit: k labels of 63 plus a tail
        1 => (55usize..=66, any::<bool>()).prop_map(|(tail, dot)| {
            let l63 = "q".repeat(63);
            format!("{l63}.{l63}.{l63}.{}{}", "r".repeat(tail), if dot { "." } else { "" })
        }),
    ]
}

pub fn oracle_parse(text: &String, st: &mut Stats) -> Verdict {
    st.eval();
    let model = MName::parse_text(text);
    let got = guarded!("parse", text.parse::<Box<Name>>());
    match (&got, &model) {
        (Ok(n), Some(m)) => {
            st.class("text-accepted");
            if text.contains('\\') {
                st.nontrivial(text, || json!({"text": text, "wire_hex": hex(&m.wire())}));
            }
            ensure!(
                n.wire_repr() == &m.wire()[..],
                "parse-wrong-name",
                "text {text:?} parses to {}, reference {}",
                hex(n.wire_repr()),
                hex(&m.wire())
            );
            ensure!(n.len() == m.n_labels_with_root(), "parse-wrong-label-count", "text {text:?}: {} labels", n.len());
            // LowercaseName::from_str agrees
            let lower = guarded!("parse lowercase", text.parse::<Box<LowercaseName>>());
            match lower {
                Ok(l) => ensure!(
                    l.wire_repr() == &m.folded().wire()[..],
                    "lowercase-parse",
                    "text {text:?} as LowercaseName = {}",
                    hex(l.wire_repr())
                ),
                Err(e) => fail!("lowercase-parse", "text {text:?} rejected as LowercaseName: {e:?}"),
            }
        }
        (Ok(n), None) => fail!(
            "parse-accepts-invalid",
            "text {text:?} accepted as {} but is not an absolute name within the RFC 1035 limits",
            hex(n.wire_repr())
        ),
        (Err(e), Some(m)) => fail!(
            "parse-rejects-valid",
            "text {text:?} rejected ({e:?}) but denotes {}",
            hex(&m.wire())
        ),
        (Err(_), None) => {
            st.class("text-rejected");
            if text.len() > 3 {
                st.nontrivial(text, || json!({"text": text, "rejected": true}));
            }
        }
    }
    Ok(())
}

////////////////////////////////////////////////////////////////////////
// 3. relations between names                                         //
////////////////////////////////////////////////////////////////////////

#[derive(Clone, Debug, Serialize, Deserialize)]
pub struct Pair {
    pub a: MName,
    pub b: MName,
}

fn related_pair() -> impl Strategy<Value = Pair> {
    let base = prop_oneof![4 => pool_name(5), 2 => arb_name(), 1 => boundary_name()];
    (base, 0u8..12, any::<u64>(), arb_label(), any::<u16>(), arb_name()).prop_map(|(a, mode, mask, lab, sel, other)| {
        let b = match mode {
            0 => a.clone(),
            1 | 2 => flip_case(&a, mask),
            3 => {
                // subdomain
                let mut n = flip_case(&a, mask).child(&lab);
                if !n.is_valid() {
                    n = a.clone();
                }
                n
            }
            4 => a.superdomain(pick(sel, a.labels.len() + 1)).unwrap(),
            5 => {
                // same octets, different label boundaries: merge the first two labels
                if a.labels.len() >= 2 && a.labels[0].len() + a.labels[1].len() <= 63 {
                    let mut labels = a.labels.clone();
                    let second = labels.remove(1);
                    labels[0].extend_from_slice(&second);
                    MName { labels }
                } else {
                    a.clone()
                }
            }
            6 => {
                // change one octet by a non-case difference
                let mut labels = a.labels.clone();
                if !labels.is_empty() {
                    let i = pick(sel, labels.len());
                    let j = (mask as usize) % labels[i].len();
                    labels[i][j] = labels[i][j].wrapping_add(1 + (mask >> 8) as u8 % 3);
                }
                MName { labels }
            }
            7 => {
                // a label that is a prefix of the other
                let mut labels = a.labels.clone();
                if !labels.is_empty() {
                    let i = pick(sel, labels.len());
                    if labels[i].len() < 63 {
                        labels[i].push(lab[0]);
                    }
                }
                let n = MName { labels };
                if n.is_valid() {
                    n
                } else {
                    a.clone()
                }
            }
            8 => {
                // flip bit 5 of a non-letter octet (e.g. '@' vs '`', '[' vs '{')
                let mut labels = a.labels.clone();
                if !labels.is_empty() {
                    let i = pick(sel, labels.len());
                    let j = (mask as usize) % labels[i].len();
                    labels[i][j] ^= 0x20;
                }
                MName { labels }
            }
            9 => {
                // wire-form confusable: the first label of b contains the length octet and the
                // text of a's first label (optionally of its first two labels), so the tail of
                // b's wire form equals a's wire form although the label boundaries differ
                let mut labels = a.labels.clone();
                if !labels.is_empty() {
                    let take = if labels.len() >= 2 && mask & 1 == 1 { 2 } else { 1 };
                    let mut first = vec![lab[0]];
                    for l in labels.iter().take(take) {
                        first.push(l.len() as u8);
                        first.extend_from_slice(l);
                    }
                    if mask & 2 == 2 {
                        // keep the label count equal by adding the absorbed labels back in front
                        labels.drain(..take);
                        labels.insert(0, first);
                        for _ in 1..take {
                            labels.insert(0, vec![b'p']);
                        }
                    } else {
                        labels.drain(..take);
                        labels.insert(0, first);
                        labels.insert(0, vec![b'q']);
                    }
                }
                let n = MName { labels };
                if n.is_valid() {
                    n
                } else {
                    a.clone()
                }
            }
            _ => other,
        };
        Pair { a, b }
    })
}

pub fn oracle_pair(p: &Pair, st: &mut Stats) -> Verdict {
    st.eval();
    let (ma, mb) = (&p.a, &p.b);
    let (a, b) = (qname(ma), qname(mb));
    let m_eq = ma.eq_fold(mb);
    let m_cmp = ma.canonical_cmp(mb);
    if m_eq && ma != mb {
        st.class("equal-differing-in-case");
        st.nontrivial(&(ma, mb), || json!({"a": ma.to_text(), "b": mb.to_text(), "relation": "case-variant"}));
    } else if !m_eq && ma.wire().iter().filter(|b| **b > 63).collect::<Vec<_>>() == mb.wire().iter().filter(|b| **b > 63).collect::<Vec<_>>() {
        st.class("same-octets-different-boundaries-or-lengths");
        st.nontrivial(&(ma, mb), || json!({"a": ma.to_text(), "b": mb.to_text(), "relation": "boundaries"}));
    } else if !m_eq && ma.wire().eq_ignore_ascii_case(&mb.wire()) == false && ma.wire().len() == mb.wire().len() {
        st.class("same-length-unequal");
    }
    let eq = guarded!("eq", *a == *b);
    ensure!(
        eq == m_eq,
        "eq-mismatch",
        "{} == {} is {eq}, reference (ASCII-case-insensitive label equality) {m_eq}",
        ma.to_text(),
        mb.to_text()
    );
    ensure!(guarded!("eq", *b == *a) == m_eq, "eq-asymmetric", "{} vs {}", ma.to_text(), mb.to_text());
    if m_eq {
        ensure!(
            hash_name(&a) == hash_name(&b),
            "hash-inconsistent",
            "{} == {} but their hashes differ",
            ma.to_text(),
            mb.to_text()
        );
    }
    let c = guarded!("cmp", a.cmp(&b));
    ensure!(
        c == m_cmp,
        "cmp-mismatch",
        "{}.cmp({}) = {c:?}, RFC 4034 §6.1 order gives {m_cmp:?}",
        ma.to_text(),
        mb.to_text()
    );
    let c2 = guarded!("cmp", b.cmp(&a));
    ensure!(c2 == m_cmp.reverse(), "cmp-antisymmetry", "{} vs {}", ma.to_text(), mb.to_text());
    ensure!(
        (c == std::cmp::Ordering::Equal) == eq,
        "cmp-eq-inconsistent",
        "{} vs {}: cmp {c:?} but eq {eq}",
        ma.to_text(),
        mb.to_text()
    );
    ensure!(a.partial_cmp(&b) == Some(c), "partial-cmp", "{} vs {}", ma.to_text(), mb.to_text());
    let sub = guarded!("eq_or_subdomain_of", a.eq_or_subdomain_of(&b));
    ensure!(
        sub == ma.at_or_below(mb),
        "subdomain-mismatch",
        "{}.eq_or_subdomain_of({}) = {sub}, reference {}",
        ma.to_text(),
        mb.to_text(),
        ma.at_or_below(mb)
    );
    let sub2 = guarded!("eq_or_subdomain_of", b.eq_or_subdomain_of(&a));
    ensure!(
        sub2 == mb.at_or_below(ma),
        "subdomain-mismatch",
        "{}.eq_or_subdomain_of({}) = {sub2}, reference {}",
        mb.to_text(),
        ma.to_text(),
        mb.at_or_below(ma)
    );
    if sub {
        st.class("a-at-or-below-b");
    }
    // LowercaseName derives Eq/Ord/Hash from Name
    let la: Box<LowercaseName> = a.clone().into();
    let lb: Box<LowercaseName> = b.clone().into();
    ensure!((la == lb) == m_eq, "lowercase-eq", "{} vs {}", ma.to_text(), mb.to_text());
    ensure!(la.cmp(&lb) == m_cmp, "lowercase-cmp", "{} vs {}", ma.to_text(), mb.to_text());
    // label level
    for (x, y) in ma.labels.iter().zip(mb.labels.iter()) {
        let lx: &Label = x.as_slice().try_into().unwrap();
        let ly: &Label = y.as_slice().try_into().unwrap();
        let meq = x.eq_ignore_ascii_case(y);
        ensure!((lx == ly) == meq, "label-eq", "labels {} vs {}", hex(x), hex(y));
        let mc = x.to_ascii_lowercase().cmp(&y.to_ascii_lowercase());
        ensure!(lx.cmp(ly) == mc, "label-cmp", "labels {} vs {}: {:?} expected {mc:?}", hex(x), hex(y), lx.cmp(ly));
        let bx = LabelBuf::try_from(x.as_slice()).unwrap();
        let by = LabelBuf::try_from(y.as_slice()).unwrap();
        ensure!((bx == by) == meq && bx.cmp(&by) == mc, "labelbuf-eq-cmp", "labels {} vs {}", hex(x), hex(y));
        if meq {
            let (mut h1, mut h2, mut h3) = (DefaultHasher::new(), DefaultHasher::new(), DefaultHasher::new());
            lx.hash(&mut h1);
            ly.hash(&mut h2);
            bx.hash(&mut h3);
            let (h1, h2, h3) = (h1.finish(), h2.finish(), h3.finish());
            ensure!(h1 == h2 && h1 == h3, "label-hash", "labels {} vs {}", hex(x), hex(y));
        }
    }
    Ok(())
}

#[derive(Clone, Debug, Serialize, Deserialize)]
pub struct Triple {
    pub a: MName,
    pub b: MName,
    pub c: MName,
}

pub fn oracle_triple(t: &Triple, st: &mut Stats) -> Verdict {
    st.eval();
    let (a, b, c) = (qname(&t.a), qname(&t.b), qname(&t.c));
    use std::cmp::Ordering::*;
    let (ab, bc, ac) = (a.cmp(&b), b.cmp(&c), a.cmp(&c));
    if ab != Greater && bc != Greater {
        st.class("chain a<=b<=c");
        ensure!(
            ac != Greater,
            "cmp-not-transitive",
            "{} <= {} <= {} but a.cmp(c) = {ac:?}",
            t.a.to_text(),
            t.b.to_text(),
            t.c.to_text()
        );
        if ab == Less || bc == Less {
            ensure!(ac == Less, "cmp-not-transitive", "{} {} {}", t.a.to_text(), t.b.to_text(), t.c.to_text());
        }
    }
    if *a == *b && *b == *c {
        ensure!(*a == *c, "eq-not-transitive", "{} {} {}", t.a.to_text(), t.b.to_text(), t.c.to_text());
    }
    Ok(())
}

////////////////////////////////////////////////////////////////////////
// 4. accessors                                                       //
////////////////////////////////////////////////////////////////////////

/// One call on a `Labels` iterator.
#[derive(Clone, Debug, Serialize, Deserialize, PartialEq, Eq, Hash)]
pub enum ItOp {
    Next,
    NextBack,
    Nth(u8),
    NthBack(u8),
    /// skip(n) as an adapter, then one `next` and one `next_back` on it, then back to the plain iterator
    SkipNext(u8),
    Len,
}

#[derive(Clone, Debug, Serialize, Deserialize, PartialEq, Eq, Hash)]
pub struct IterCase {
    pub name: MName,
    pub ops: Vec<ItOp>,
}

/// `Name::labels()` is a double-ended exact-size iterator over name[0..len]: every method of the
/// Iterator / DoubleEndedIterator / ExactSizeIterator interfaces must behave as on a VecDeque of the
/// labels, whatever was consumed from either end before.
pub fn oracle_label_iterator(c: &IterCase, st: &mut Stats) -> Verdict {
    st.eval();
    let name = qname(&c.name);
    let mut model: std::collections::VecDeque<Vec<u8>> = c.name.labels.iter().cloned().collect();
    model.push_back(Vec::new());
    let mut it = name.labels();
    let mut both_ends = (false, false);
    for (i, op) in c.ops.iter().enumerate() {
        let what = || format!("{}: call #{i} {op:?} after {:?}", c.name.to_text(), &c.ops[..i]);
        match op {
            ItOp::Next => {
                let got = guarded!("labels.next", it.next().map(|l| l.octets().to_vec()));
                ensure!(got == model.pop_front(), "labels-iterator", "{}: got {got:?}", what());
                both_ends.0 = true;
            }
            ItOp::NextBack => {
                let got = guarded!("labels.next_back", it.next_back().map(|l| l.octets().to_vec()));
                ensure!(got == model.pop_back(), "labels-iterator", "{}: got {got:?}", what());
                both_ends.1 = true;
            }
            ItOp::Nth(n) => {
                let got = guarded!("labels.nth", it.nth(*n as usize).map(|l| l.octets().to_vec()));
                let want = {
                    let k = (*n as usize).min(model.len());
                    model.drain(..k);
                    model.pop_front()
                };
                ensure!(got == want, "labels-iterator", "{}: got {got:?}, a deque of the labels gives {want:?}", what());
            }
            ItOp::NthBack(n) => {
                let got = guarded!("labels.nth_back", it.nth_back(*n as usize).map(|l| l.octets().to_vec()));
                let want = {
                    let k = (*n as usize).min(model.len());
                    let keep = model.len() - k;
                    model.truncate(keep);
                    model.pop_back()
                };
                ensure!(got == want, "labels-iterator", "{}: got {got:?}, a deque of the labels gives {want:?}", what());
            }
            ItOp::SkipNext(n) => {
                let mut sk = it.clone().skip(*n as usize);
                let a = guarded!("labels.skip.next_back", sk.next_back().map(|l| l.octets().to_vec()));
                let b = guarded!("labels.skip.next", sk.next().map(|l| l.octets().to_vec()));
                let mut m2 = model.clone();
                let k = (*n as usize).min(m2.len());
                m2.drain(..k);
                let (wa, wb) = (m2.pop_back(), m2.pop_front());
                ensure!((a.clone(), b.clone()) == (wa.clone(), wb.clone()), "labels-iterator", "{}: skip({n}) then next_back / next gave {a:?} / {b:?}, a deque gives {wa:?} / {wb:?}", what());
            }
            ItOp::Len => {}
        }
        let len = guarded!("labels.len", it.len());
        ensure!(len == model.len(), "labels-iterator-len", "{}: len() = {len}, {} labels remain", what(), model.len());
        let hint = guarded!("labels.size_hint", it.size_hint());
        ensure!(hint == (model.len(), Some(model.len())), "labels-iterator-len", "{}: size_hint() = {hint:?}", what());
    }
    let rest: Vec<Vec<u8>> = guarded!("labels.collect", it.map(|l| l.octets().to_vec()).collect());
    ensure!(rest == model.iter().cloned().collect::<Vec<_>>(), "labels-iterator", "{}: after {:?} the iterator yields {rest:?}, expected {model:?}", c.name.to_text(), c.ops);
    if both_ends.0 && both_ends.1 {
        st.class("labels-consumed-from-both-ends");
        st.nontrivial(c, || json!({"name": c.name.to_text(), "ops": format!("{:?}", c.ops)}));
    }
    Ok(())
}

fn iter_case() -> impl Strategy<Value = IterCase> {
    let op = prop_oneof![
        3 => Just(ItOp::Next),
        3 => Just(ItOp::NextBack),
        3 => (0u8..6).prop_map(ItOp::Nth),
        3 => (0u8..6).prop_map(ItOp::NthBack),
        1 => (0u8..130).prop_map(ItOp::Nth),
        2 => (0u8..5).prop_map(ItOp::SkipNext),
        1 => Just(ItOp::Len),
    ];
    (any_name(), prop::collection::vec(op, 1..10)).prop_map(|(name, ops)| IterCase { name, ops })
}

pub fn oracle_accessors(m: &MName, st: &mut Stats) -> Verdict {
    st.eval();
    let wire = m.wire();
    let name = qname(m);
    let n = m.n_labels_with_root();
    ensure!(name.len() == n, "len", "{}: len {} expected {n}", m.to_text(), name.len());
    ensure!(name.is_root() == m.labels.is_empty(), "is_root", "{}", m.to_text());
    ensure!(
        guarded!("is_wildcard", name.is_wildcard()) == m.is_wildcard(),
        "is_wildcard",
        "{}: is_wildcard = {}",
        m.to_text(),
        name.is_wildcard()
    );
    ensure!(name.wire_repr() == &wire[..], "wire_repr", "{}", m.to_text());
    // labels forward / backward / indexing
    let fwd: Vec<Vec<u8>> = guarded!("labels", name.labels().map(|l| l.octets().to_vec()).collect());
    let mut expect: Vec<Vec<u8>> = m.labels.clone();
    expect.push(Vec::new());
    ensure!(fwd == expect, "labels-forward", "{}: labels() = {fwd:?}", m.to_text());
    let mut back: Vec<Vec<u8>> = guarded!("labels.rev", name.labels().rev().map(|l| l.octets().to_vec()).collect());
    back.reverse();
    ensure!(back == expect, "labels-backward", "{}: labels().rev() = {back:?}", m.to_text());
    ensure!(name.labels().len() == n, "labels-exact-size", "{}", m.to_text());
    // mixed front/back consumption
    {
        let mut it = name.labels();
        let mut lo = 0usize;
        let mut hi = n;
        let mut toggle = wire.len() % 2 == 0;
        while lo < hi {
            if toggle {
                let l = it.next();
                ensure!(l.map(|l| l.octets()) == Some(&expect[lo][..]), "labels-mixed", "{} front {lo}", m.to_text());
                lo += 1;
            } else {
                let l = it.next_back();
                ensure!(l.map(|l| l.octets()) == Some(&expect[hi - 1][..]), "labels-mixed", "{} back {hi}", m.to_text());
                hi -= 1;
            }
            toggle = !toggle;
        }
        ensure!(it.next().is_none() && it.next_back().is_none(), "labels-fused", "{}", m.to_text());
    }
    for i in 0..n {
        let l = guarded!("index", name[i].octets().to_vec());
        ensure!(l == expect[i], "index", "{}[{i}] = {}", m.to_text(), hex(&l));
        ensure!(name[i].is_null() == (i == n - 1), "label-is-null", "{}[{i}]", m.to_text());
        ensure!(name[i].is_asterisk() == (expect[i] == b"*"), "label-is-asterisk", "{}[{i}]", m.to_text());
        ensure!(name[i].len() == expect[i].len(), "label-len", "{}[{i}]", m.to_text());
    }
    // superdomain / wire_repr_to / wire_repr_from
    for skip in 0..=n + 1 {
        let s = guarded!("superdomain", name.superdomain(skip));
        let ms = if skip < n { m.superdomain(skip) } else { None };
        match (&s, &ms) {
            (Some(s), Some(ms)) => {
                ensure!(
                    s.wire_repr() == &ms.wire()[..] && s.len() == ms.n_labels_with_root(),
                    "superdomain",
                    "{}.superdomain({skip}) = {}",
                    m.to_text(),
                    hex(s.wire_repr())
                );
                // the derived name must be fully functional
                let again: Vec<Vec<u8>> = s.labels().map(|l| l.octets().to_vec()).collect();
                ensure!(again[..] == expect[skip..], "superdomain-labels", "{}.superdomain({skip})", m.to_text());
                ensure!(name.eq_or_subdomain_of(s), "superdomain-subdomain", "{}.superdomain({skip})", m.to_text());
            }
            (None, None) => {}
            _ => fail!("superdomain", "{}.superdomain({skip}) is_some = {}", m.to_text(), s.is_some()),
        }
    }
    for k in 0..=n {
        let prefix_len: usize = expect[..k].iter().map(|l| l.len() + 1).sum();
        let to = guarded!("wire_repr_to", name.wire_repr_to(k).to_vec());
        ensure!(to == wire[..prefix_len], "wire_repr_to", "{}.wire_repr_to({k}) = {}", m.to_text(), hex(&to));
        let from = guarded!("wire_repr_from", name.wire_repr_from(k).to_vec());
        ensure!(from == wire[prefix_len..], "wire_repr_from", "{}.wire_repr_from({k}) = {}", m.to_text(), hex(&from));
    }
    // lowercasing
    let mut lowered = name.clone();
    guarded!("make_ascii_lowercase", lowered.make_ascii_lowercase());
    ensure!(
        lowered.wire_repr() == &m.folded().wire()[..],
        "make_ascii_lowercase",
        "{} lowercases to {}",
        m.to_text(),
        hex(lowered.wire_repr())
    );
    ensure!(*lowered == *name, "lowercase-equal", "{}", m.to_text());
    let l: Box<LowercaseName> = name.clone().into();
    ensure!(l.wire_repr() == &m.folded().wire()[..], "lowercase-name", "{}", m.to_text());
    let back: Box<Name> = l.clone().into();
    ensure!(back.wire_repr() == &m.folded().wire()[..], "lowercase-name-back", "{}", m.to_text());
    ensure!(l.to_string() == m.folded().to_text() || MName::parse_text(&l.to_string()) == Some(m.folded()), "lowercase-display", "{}", m.to_text());
    // clone / to_owned
    let cl = name.clone();
    ensure!(cl.wire_repr() == name.wire_repr() && cl.len() == name.len(), "clone", "{}", m.to_text());
    if m.labels.iter().any(|l| l.iter().any(|b| b.is_ascii_uppercase())) {
        st.class("has-uppercase");
    }
    if n > 60 || wire.len() > 200 {
        st.class("large");
        st.nontrivial(&wire, || json!({"name": m.to_text()}));
    } else if m.labels.iter().any(|l| l.iter().any(|b| !b.is_ascii_graphic())) {
        st.nontrivial(&wire, || json!({"name": m.to_text()}));
    }
    Ok(())
}

////////////////////////////////////////////////////////////////////////
// 5. builder                                                         //
////////////////////////////////////////////////////////////////////////

#[derive(Clone, Debug, Serialize, Deserialize)]
pub enum BOp {
    Push(u8),
    PushSlice(Vec<u8>),
    NextLabel,
}

#[derive(Clone, Debug, Serialize, Deserialize)]
pub struct BuilderCase {
    pub ops: Vec<BOp>,
    /// None = finish(), Some = finish_with_suffix
    pub suffix: Option<MName>,
}

fn builder_case() -> impl Strategy<Value = BuilderCase> {
    let op = prop_oneof![
        4 => label_octet().prop_map(BOp::Push),
        3 => prop::collection::vec(label_octet(), 0..8).prop_map(BOp::PushSlice),
        1 => prop::collection::vec(label_octet(), 55..70).prop_map(BOp::PushSlice),
        3 => Just(BOp::NextLabel),
    ];
    let ops = prop_oneof![
        6 => prop::collection::vec(op.clone(), 0..30),
        1 => prop::collection::vec(op, 100..400),
        // 3 x 63-octet labels then a tail near the limit
        1 => (50usize..70).prop_map(|tail| {
            let mut v = Vec::new();
            for _ in 0..3 {
                v.push(BOp::PushSlice(vec![b'k'; 63]));
                v.push(BOp::NextLabel);
            }
            v.push(BOp::PushSlice(vec![b't'; tail.min(63)]));
            for _ in 63..tail {
                v.push(BOp::Push(b'u'));
            }
            v.push(BOp::NextLabel);
            v
        }),
    ];
    (ops, prop::option::of(prop_oneof![pool_name(4), boundary_name(), arb_name()])).prop_map(|(ops, suffix)| BuilderCase { ops, suffix })
}

pub fn oracle_builder(case: &BuilderCase, st: &mut Stats) -> Verdict {
    st.eval();
    let mut b = NameBuilder::new();
    // model state
    let mut done: Vec<Vec<u8>> = Vec::new();
    let mut cur: Vec<u8> = Vec::new();
    let total = |done: &Vec<Vec<u8>>, cur: &Vec<u8>| -> usize { done.iter().map(|l| l.len() + 1).sum::<usize>() + 1 + cur.len() };
    let mut failed_ops = 0;
    for (i, op) in case.ops.iter().enumerate() {
        let t = total(&done, &cur);
        let (allowed, res) = match op {
            BOp::Push(o) => {
                let allowed = cur.len() < 63 && t < 255;
                let r = guarded!("try_push", b.try_push(*o));
                if allowed {
                    cur.push(*o);
                }
                (allowed, r.is_ok())
            }
            BOp::PushSlice(s) => {
                let allowed = cur.len() + s.len() <= 63 && t + s.len() <= 255;
                let r = guarded!("try_push_slice", b.try_push_slice(s));
                if allowed {
                    cur.extend_from_slice(s);
                }
                (allowed, r.is_ok())
            }
            BOp::NextLabel => {
                let allowed = !cur.is_empty() && t < 255;
                let r = guarded!("next_label", b.next_label());
                if allowed {
                    done.push(std::mem::take(&mut cur));
                }
                (allowed, r.is_ok())
            }
        };
        ensure!(
            allowed == res,
            "builder-op-acceptance",
            "op #{i} {op:?}: builder returned ok={res}, model allows={allowed} (labels so far {}, current label {} octets, {t} wire octets)",
            done.len(),
            cur.len()
        );
        if !allowed {
            failed_ops += 1;
        }
        ensure!(
            b.is_fully_qualified() == cur.is_empty(),
            "builder-is-fully-qualified",
            "after op #{i}: is_fully_qualified = {}",
            b.is_fully_qualified()
        );
    }
    if failed_ops > 0 {
        st.class("sequence-with-rejected-op");
    }
    match &case.suffix {
        None => {
            let r = guarded!("finish", b.finish());
            if cur.is_empty() {
                let expect = MName { labels: done.clone() };
                match r {
                    Ok(n) => {
                        ensure!(
                            n.wire_repr() == &expect.wire()[..] && n.len() == expect.n_labels_with_root(),
                            "builder-finish-wrong",
                            "finish() = {}, model {} (rejected ops were not ignored?)",
                            hex(n.wire_repr()),
                            hex(&expect.wire())
                        );
                        let labels: Vec<Vec<u8>> = n.labels().map(|l| l.octets().to_vec()).collect();
                        ensure!(labels[..labels.len() - 1] == done[..], "builder-finish-labels", "finish(): labels {labels:?}");
                        if failed_ops > 0 {
                            st.nontrivial(&expect, || json!({"ops": case.ops.len(), "rejected": failed_ops, "name": expect.to_text()}));
                        }
                    }
                    Err(e) => fail!("builder-finish-rejected", "finish() failed with {e:?} for a fully qualified name {}", expect.to_text()),
                }
            } else {
                ensure!(r.is_err(), "builder-finish-accepts-relative", "finish() accepted a name whose last label is not null");
            }
        }
        Some(suffix) => {
            let qs = qname(suffix);
            let t = total(&done, &cur);
            let r = guarded!("finish_with_suffix", b.finish_with_suffix(&qs));
            let allowed = !cur.is_empty() && t + suffix.wire_len() <= 255;
            match r {
                Ok(n) => {
                    ensure!(allowed, "builder-suffix-accepts-invalid", "finish_with_suffix accepted: current label {} octets, {t}+{} octets", cur.len(), suffix.wire_len());
                    let mut labels = done.clone();
                    labels.push(cur.clone());
                    labels.extend(suffix.labels.iter().cloned());
                    let expect = MName { labels };
                    ensure!(
                        n.wire_repr() == &expect.wire()[..] && n.len() == expect.n_labels_with_root(),
                        "builder-suffix-wrong",
                        "finish_with_suffix = {}, model {}",
                        hex(n.wire_repr()),
                        hex(&expect.wire())
                    );
                    let got: Vec<Vec<u8>> = n.labels().map(|l| l.octets().to_vec()).collect();
                    ensure!(got[..got.len() - 1] == expect.labels[..], "builder-suffix-labels", "labels {got:?}");
                    st.class("finish-with-suffix-ok");
                    st.nontrivial(&expect, || json!({"ops": case.ops.len(), "suffix": suffix.to_text(), "name": expect.to_text()}));
                }
                Err(e) => ensure!(!allowed, "builder-suffix-rejects-valid", "finish_with_suffix failed with {e:?}: current label {} octets, {t}+{} octets", cur.len(), suffix.wire_len()),
            }
        }
    }
    Ok(())
}

////////////////////////////////////////////////////////////////////////

fn any_name() -> impl Strategy<Value = MName> {
    prop_oneof![5 => arb_name(), 2 => pool_name(6), 2 => boundary_name()]
}

pub fn run(ctx: &Ctx, report: &mut Report) {
    report.rule = "generated names (arbitrary label octets incl. '.', '\\\\', space, NUL, non-ASCII, '*'; \
        boundary sizes 63-octet labels / 253-255-octet names / 127 labels), generated text strings with well- and \
        ill-formed escapes, related pairs (case variants, sub/superdomains, moved label boundaries, one-octet \
        differences, bit-5 flips of non-letters), triples, accessor sweeps and NameBuilder operation sequences, all \
        compared with vmodel::name. Non-trivial = name with an escaped octet or >= 200 octets, text containing a \
        backslash or rejected, pair differing only in case or only in label boundaries, builder sequence with a \
        rejected operation or a suffix."
        .into();
    report.assumptions.push("reference name model vmodel::name (unit-tested on the RFC 4034 §6.1 ordering example)".into());
    let t = ctx.tier;
    run_prop(ctx, report, PropSpec { name: "roundtrip", cases: t.pick(150_000, 3_000_000), max_shrink_iters: 4096 }, any_name, oracle_roundtrip);
    run_prop(ctx, report, PropSpec { name: "parse", cases: t.pick(300_000, 6_000_000), max_shrink_iters: 4096 }, text_strategy, oracle_parse);
    run_prop(ctx, report, PropSpec { name: "pair", cases: t.pick(200_000, 4_000_000), max_shrink_iters: 4096 }, related_pair, oracle_pair);
    run_prop(
        ctx,
        report,
        PropSpec { name: "triple", cases: t.pick(100_000, 2_000_000), max_shrink_iters: 4096 },
        || (related_pair(), related_pair(), any::<bool>()).prop_map(|(p, q, sw)| if sw { Triple { a: p.a, b: p.b, c: q.b } } else { Triple { a: p.a, b: q.a, c: p.b } }),
        oracle_triple,
    );
    run_prop(ctx, report, PropSpec { name: "accessors", cases: t.pick(60_000, 1_000_000), max_shrink_iters: 4096 }, any_name, oracle_accessors);
    run_prop(ctx, report, PropSpec { name: "label-iterator", cases: t.pick(80_000, 1_500_000), max_shrink_iters: 4096 }, iter_case, oracle_label_iterator);
    run_prop(ctx, report, PropSpec { name: "builder", cases: t.pick(100_000, 2_000_000), max_shrink_iters: 4096 }, builder_case, oracle_builder);
}

pub fn replay(check: &str, case: &serde_json::Value) -> Verdict {
    use crate::fw::replay_case;
    match check {
        "roundtrip" => replay_case::<MName, _>(case, oracle_roundtrip),
        "parse" => replay_case::<String, _>(case, oracle_parse),
        "pair" => replay_case::<Pair, _>(case, oracle_pair),
        "triple" => replay_case::<Triple, _>(case, oracle_triple),
        "accessors" => replay_case::<MName, _>(case, oracle_accessors),
        "label-iterator" => replay_case::<IterCase, _>(case, oracle_label_iterator),
        "builder" => replay_case::<BuilderCase, _>(case, oracle_builder),
        _ => {
            eprintln!("INFRA: unknown sub-check {check}");
            std::process::exit(2);
        }
    }
}
