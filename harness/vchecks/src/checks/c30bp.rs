//! C30, back-pressure sub-check: a client that pipelines hundreds of requests with
//! large responses and does not read for a while.  The provider's writes then meet
//! a full socket buffer; every response must still arrive complete, framed and in
//! order (a short write that is not continued corrupts the stream from there on).
//! Same oracle as the main C30 check: the twin server's response to each request.

use std::io::{Read, Write};
use std::net::{IpAddr, Ipv4Addr, SocketAddr, TcpListener, TcpStream, UdpSocket};
use std::sync::Arc;
use std::time::Duration;

use quandary::db::{HashMapTreeCatalog, HashMapTreeZone};
use quandary::io::{BlockingIoConfig, BlockingIoProvider, TokioIoProvider};
use quandary::server::{ReceivedInfo, Response, Server, Transport};
use quandary::thread::ThreadGroup;
use serde::{Deserialize, Serialize};
use serde_json::json;
use vmodel::name::MName;
use vmodel::rdata as mr;

use crate::fw::{Stats, Verdict};
use crate::srvgen::{build, BuiltCatalog, CatalogSpec, NameSpec, RdSpec, RecSpec, ZoneSpec};
use crate::srvrun::hex;
use crate::{ensure, fail};

type Cat = HashMapTreeCatalog<HashMapTreeZone, ()>;

#[derive(Clone, Debug, Serialize, Deserialize, PartialEq, Eq, Hash)]
pub struct BpCase {
    pub tokio: bool,
    /// pipelined requests
    pub requests: u16,
    /// TXT records of about 6 KiB each in the answer
    pub records: u8,
    /// how long the client waits before it starts reading (ms)
    pub stall_ms: u16,
}

fn catalog(records: u8) -> Arc<Cat> {
    let rel = |l: &[&[u8]]| NameSpec::Rel(l.iter().map(|x| x.to_vec()).collect(), 0);
    let mut recs = vec![
        RecSpec { owner: rel(&[]), ttl: 300, rd: RdSpec::Soa { minimum: 60, serial: 1 } },
        RecSpec { owner: rel(&[]), ttl: 300, rd: RdSpec::Single(mr::T_NS, rel(&[b"ns"])) },
        RecSpec { owner: rel(&[b"ns"]), ttl: 300, rd: RdSpec::A(1) },
        RecSpec { owner: rel(&[b"small"]), ttl: 300, rd: RdSpec::A(2) },
    ];
    for i in 0..records.max(1) {
        // 25 character-strings of 250 octets
        recs.push(RecSpec { owner: rel(&[b"big"]), ttl: 300, rd: RdSpec::Txt(25, 250, i) });
    }
    let spec = CatalogSpec {
        zones: vec![ZoneSpec { apex: MName { labels: vec![b"bp".to_vec(), b"test".to_vec()] }, class: 1, kind: 0, recs }],
        single: false,
    };
    match build(&spec).0 {
        BuiltCatalog::Tree(t) => t,
        BuiltCatalog::Single(_) => unreachable!(),
    }
}

fn free_port() -> Option<u16> {
    for _ in 0..200 {
        let Ok(l) = TcpListener::bind((Ipv4Addr::LOCALHOST, 0)) else { continue };
        let Ok(addr) = l.local_addr() else { continue };
        if UdpSocket::bind((Ipv4Addr::LOCALHOST, addr.port())).is_ok() {
            return Some(addr.port());
        }
    }
    None
}

fn infra(msg: &str) -> ! {
    eprintln!("INFRA: {msg}");
    std::process::exit(2);
}

pub fn oracle(c: &BpCase, st: &mut Stats) -> Verdict {
    let cat = catalog(c.records);
    let server = Arc::new(Server::new(cat.clone()));
    let twin = Server::new(cat);
    // start the provider
    let mut started: Option<(u16, Box<dyn FnOnce()>)> = None;
    for _ in 0..40 {
        let Some(port) = free_port() else { infra("no free loopback port") };
        let addr = SocketAddr::new(IpAddr::V4(Ipv4Addr::LOCALHOST), port);
        if c.tokio {
            let Ok(rt) = tokio::runtime::Builder::new_multi_thread().worker_threads(2).enable_all().build() else { infra("cannot build a Tokio runtime") };
            let Ok(provider) = rt.block_on(TokioIoProvider::bind([addr], [addr])) else { continue };
            let controller = {
                let _g = rt.enter();
                provider.start(&server)
            };
            started = Some((
                port,
                Box::new(move || {
                    rt.block_on(controller.shut_down());
                    rt.shutdown_timeout(Duration::from_secs(2));
                }),
            ));
            break;
        } else {
            let config = BlockingIoConfig { tcp_base_workers: 1, tcp_worker_linger: Duration::from_secs(1), udp_workers_per_socket: 1 };
            let Ok(provider) = BlockingIoProvider::bind(config, [addr], [addr]) else { continue };
            let group = ThreadGroup::new();
            if provider.start(&server, &group).is_err() {
                group.shut_down();
                group.await_shutdown();
                continue;
            }
            started = Some((
                port,
                Box::new(move || {
                    group.shut_down();
                    group.await_shutdown();
                }),
            ));
            break;
        }
    }
    let Some((port, stop)) = started else { infra("cannot start a provider on a loopback port") };
    let verdict = exchange(c, port, &twin, st);
    stop();
    verdict
}

fn exchange(c: &BpCase, port: u16, twin: &Server<Cat>, st: &mut Stats) -> Verdict {
    let big = MName { labels: vec![b"big".to_vec(), b"bp".to_vec(), b"test".to_vec()] };
    let small = MName { labels: vec![b"small".to_vec(), b"bp".to_vec(), b"test".to_vec()] };
    let mut requests: Vec<Vec<u8>> = Vec::new();
    for i in 0..c.requests.max(1) {
        let mut b = vmodel::wire::Builder::new(0x6000 + i, 0);
        if i % 7 == 3 {
            b.question(&small, mr::T_A, 1);
        } else {
            b.question(&big, mr::T_TXT, 1);
        }
        requests.push(b.buf);
    }
    let mut tbuf = vec![0u8; 65535];
    let mut expected: Vec<Vec<u8>> = Vec::new();
    for r in &requests {
        match twin.handle_message(r, ReceivedInfo::new(IpAddr::V4(Ipv4Addr::LOCALHOST), Transport::Tcp), &mut tbuf) {
            Response::Single(n) => expected.push(tbuf[..n].to_vec()),
            Response::None => fail!("twin-no-response", "the twin server gave no response to {}", hex(r)),
        }
    }
    let total: usize = expected.iter().map(|e| e.len() + 2).sum();
    let mut stream_out = Vec::new();
    for r in &requests {
        stream_out.extend_from_slice(&(r.len() as u16).to_be_bytes());
        stream_out.extend_from_slice(r);
    }
    let addr = SocketAddr::new(IpAddr::V4(Ipv4Addr::LOCALHOST), port);
    let mut s = match TcpStream::connect_timeout(&addr, Duration::from_secs(3)) {
        Ok(s) => s,
        Err(e) => infra(&format!("cannot connect to the provider: {e}")),
    };
    let _ = s.set_nodelay(true);
    // everything in one go, then no reading for a while: the server runs into a full send buffer
    if let Err(e) = s.write_all(&stream_out) {
        fail!("bp-write-failed", "writing {} pipelined requests failed: {e}", requests.len());
    }
    std::thread::sleep(Duration::from_millis(c.stall_ms as u64));
    let _ = s.set_read_timeout(Some(Duration::from_secs(4)));
    let what = format!(
        "{} provider, {} pipelined requests, {} octets of responses expected, client stalled {} ms",
        if c.tokio { "tokio" } else { "blocking" },
        requests.len(),
        total,
        c.stall_ms
    );
    let mut buf = vec![0u8; 70000];
    for (i, e) in expected.iter().enumerate() {
        st.eval();
        let mut len = [0u8; 2];
        if let Err(err) = s.read_exact(&mut len) {
            fail!("bp-response-missing", "{what}: response #{i} did not arrive: {err}");
        }
        let l = u16::from_be_bytes(len) as usize;
        if let Err(err) = s.read_exact(&mut buf[..l]) {
            fail!("bp-response-truncated", "{what}: response #{i} announces {l} octets but the stream ends early: {err}");
        }
        ensure!(
            &buf[..l] == &e[..],
            "bp-response-differs",
            "{what}: response #{i} ({l} octets) differs from the server's response to that request alone ({} octets); first octets {} vs {}",
            e.len(),
            hex(&buf[..l.min(24)]),
            hex(&e[..e.len().min(24)])
        );
    }
    // nothing else may follow; half-close and expect EOF
    let _ = s.shutdown(std::net::Shutdown::Write);
    let _ = s.set_read_timeout(Some(Duration::from_secs(3)));
    match s.read(&mut buf) {
        Ok(0) => {}
        Ok(n) => fail!("bp-extra-data", "{what}: {n} extra octets after the last response"),
        Err(_) => {}
    }
    st.class(if c.tokio { "backpressure-batches-tokio" } else { "backpressure-batches-blocking" });
    st.class_n("backpressure-response-octets", total as u64);
    if total > 6_000_000 {
        st.nontrivial(c, || json!({"case": c, "response_octets": total}));
    }
    Ok(())
}
