//! C23/C24, sub-check `parser-short-reads`: the parser reads its input through
//! `std::io::Read`, which may hand the octets over in pieces of any size and may
//! fail. Two relations over generated (text, read sizes, fault) triples:
//!
//! * **metamorphic** — without a fault, what the parser yields (records with
//!   their line numbers, and the first error) does not depend on how the stream
//!   cuts the octets into reads;
//! * **after the first error nothing more** — when a read fails (any
//!   `io::ErrorKind`, `Interrupted` included) the parser may either absorb the
//!   failure and go on as if nothing had happened, or report an error; once it
//!   has yielded an `Err`, every further poll yields `None`. The records yielded
//!   before that are a prefix of those of the undisturbed parse.

use std::io::{self, Read};

use super::*;

#[derive(Clone, Debug, Serialize, Deserialize, PartialEq, Eq, Hash)]
pub struct IoCase {
    pub text: Vec<u8>,
    /// sizes of the successive reads (cycled); a read never returns more than the buffer takes
    pub reads: Vec<u16>,
    /// fail the first read issued at or after this position (selector into 0..=len) with this kind
    pub fault: Option<(u32, u8)>,
}

const KINDS: [io::ErrorKind; 6] = [
    io::ErrorKind::Interrupted,
    io::ErrorKind::WouldBlock,
    io::ErrorKind::Other,
    io::ErrorKind::UnexpectedEof,
    io::ErrorKind::TimedOut,
    io::ErrorKind::InvalidData,
];

struct Pieces<'a> {
    data: &'a [u8],
    pos: usize,
    reads: &'a [u16],
    idx: usize,
    fault: Option<(usize, io::ErrorKind)>,
    faults_raised: u32,
}

impl Read for Pieces<'_> {
    fn read(&mut self, buf: &mut [u8]) -> io::Result<usize> {
        if let Some((at, kind)) = self.fault {
            if self.pos >= at {
                self.fault = None;
                self.faults_raised += 1;
                return Err(io::Error::new(kind, "injected read failure"));
            }
        }
        let want = if self.reads.is_empty() { usize::MAX } else { self.reads[self.idx % self.reads.len()].max(1) as usize };
        self.idx += 1;
        let mut n = want.min(buf.len()).min(self.data.len() - self.pos);
        if let Some((at, _)) = self.fault {
            // stop a read at the fault position so that the failing read is issued exactly there
            if self.pos < at {
                n = n.min(at - self.pos);
            }
        }
        buf[..n].copy_from_slice(&self.data[self.pos..self.pos + n]);
        self.pos += n;
        Ok(n)
    }
}

/// Records before the first error, the first error, items yielded after it (polled 6 more times).
fn parse_pieces(c: &IoCase, with_fault: bool) -> Result<(Vec<Parsed>, Option<String>, usize, u32), String> {
    catch(|| {
        let fault = if with_fault { c.fault.map(|(sel, k)| ((sel as u64 * (c.text.len() as u64 + 1) >> 32) as usize, KINDS[k as usize % KINDS.len()])) } else { None };
        let mut stream = Pieces { data: &c.text, pos: 0, reads: &c.reads, idx: 0, fault, faults_raised: 0 };
        let mut out = Vec::new();
        let mut err = None;
        let mut after = 0usize;
        {
            let mut parser = Parser::new(&mut stream);
            loop {
                match parser.next() {
                    None => break,
                    Some(Ok(line)) => {
                        if let LineContent::Record(r) = line.content {
                            out.push((line.number, r.owner.wire_repr().to_vec(), u32::from(r.ttl), u16::from(r.class), u16::from(r.rr_type), r.rdata.octets().to_vec()));
                        }
                    }
                    Some(Err(e)) => {
                        err = Some(format!("{e}"));
                        for _ in 0..6 {
                            if parser.next().is_some() {
                                after += 1;
                            }
                        }
                        break;
                    }
                }
            }
        }
        (out, err, after, stream.faults_raised)
    })
}

pub fn oracle_io(c: &IoCase, st: &mut Stats) -> Verdict {
    st.eval();
    let whole = match q_parse(&c.text) {
        Ok(v) => v,
        Err(p) => fail!(panic_signature(&p), "the parser panicked on {:?}: {p}", show_text(&c.text)),
    };
    // 1. the same octets in pieces
    let (got, err, after, _) = match parse_pieces(c, false) {
        Ok(v) => v,
        Err(p) => fail!(panic_signature(&p), "the parser panicked on {:?} delivered in reads of {:?}: {p}", show_text(&c.text), c.reads),
    };
    ensure!(after == 0, "output-after-error", "the parser yielded {after} more items after its first error ({err:?}); input {:?} in reads of {:?}", show_text(&c.text), c.reads);
    ensure!(
        got == whole.0 && err == whole.1,
        "result-depends-on-read-sizes",
        "delivered in reads of {:?} the parser yields {} records and {:?}; delivered at once {} records and {:?} (first difference at record #{}); input {:?}",
        c.reads,
        got.len(),
        err,
        whole.0.len(),
        whole.1,
        got.iter().zip(whole.0.iter()).position(|(a, b)| a != b).unwrap_or(got.len().min(whole.0.len())),
        show_text(&c.text)
    );
    if c.text.len() > 16384 {
        st.class("input-longer-than-the-16-KiB-read-buffer");
    }
    if c.reads.iter().any(|r| *r < 16) {
        st.class("reads-shorter-than-16-octets");
    }
    if !got.is_empty() && (c.reads.iter().any(|r| *r < 200) || c.text.len() > 16384) {
        st.nontrivial(&(&c.text, &c.reads, &c.fault), || json!({"octets": c.text.len(), "reads": c.reads, "records": got.len(), "error": err, "fault": c.fault}));
    }
    // 2. a failing read
    if c.fault.is_some() {
        let (got, err, after, raised) = match parse_pieces(c, true) {
            Ok(v) => v,
            Err(p) => fail!(panic_signature(&p), "the parser panicked on {:?} with read failure {:?}: {p}", show_text(&c.text), c.fault),
        };
        if raised == 0 {
            st.class("read-failure-not-reached");
            return Ok(());
        }
        st.class(&format!("read-failure-{:?}", KINDS[c.fault.unwrap().1 as usize % KINDS.len()]));
        ensure!(
            after == 0,
            "output-after-error",
            "after reporting {err:?} (a read failed with {:?}) the parser yielded {after} more items; input {:?} in reads of {:?}, fault {:?}",
            KINDS[c.fault.unwrap().1 as usize % KINDS.len()],
            show_text(&c.text),
            c.reads,
            c.fault
        );
        ensure!(
            got.len() <= whole.0.len() && got[..] == whole.0[..got.len()],
            "records-differ-after-read-failure",
            "with a read failure {:?} the parser yields {} records that are not a prefix of the {} records of the undisturbed parse; input {:?}",
            c.fault,
            got.len(),
            whole.0.len(),
            show_text(&c.text)
        );
        if err.is_some() && !got.is_empty() {
            st.class("records-then-read-failure-reported");
        }
    }
    Ok(())
}

fn reads() -> impl Strategy<Value = Vec<u16>> {
    prop_oneof![
        3 => prop::collection::vec(1u16..8, 1..6),
        3 => prop::collection::vec(prop_oneof![1u16..8, 8u16..200, 200u16..5000], 1..8),
        1 => Just(vec![16384u16]),
        1 => Just(vec![16383u16, 1]),
        1 => prop::collection::vec(1000u16..20000, 1..4),
    ]
}

/// Arbitrary parser input (C24).
pub fn raw_io_case() -> impl Strategy<Value = IoCase> {
    (raw_case(), reads(), prop::option::weighted(0.5, (any::<u32>(), 0u8..6))).prop_map(|(r, reads, fault)| IoCase { text: r.text, reads, fault })
}

/// Valid generated files (C23), also padded beyond 16 KiB.
pub fn valid_io_case() -> impl Strategy<Value = IoCase> {
    (case_strategy(), reads(), prop::option::weighted(0.3, (any::<u32>(), 0u8..6))).prop_map(|(c, reads, fault)| {
        let mut ctx = PCtx::default();
        let printed = print(&c.records, &c.tape, &mut ctx);
        let mut text = padding(c.pad).0;
        text.extend_from_slice(&printed.text);
        IoCase { text, reads, fault }
    })
}
