//! C23 — zone files parse to exactly the records they describe (oracle: the
//! independent pretty-printer vmodel::zonefile; the expected parse is the
//! generating record list), and
//! C24 — the zone-file parser is total and only yields valid records.

use std::io::Cursor;

use proptest::prelude::*;
use quandary::zone_file::{LineContent, Parser};
use serde::{Deserialize, Serialize};
use serde_json::json;
use vmodel::name::MName;
use vmodel::rdata as mr;
use vmodel::zonefile::{print, Ctx as PCtx, RData, ZRec};

use crate::fw::{catch, panic_signature, run_prop, Ctx, PropSpec, Report, Stats, Verdict};
use crate::gen::{arb_name, pool_name};
use crate::{ensure, fail};

#[path = "c24io.rs"]
pub mod io;

fn hex(b: &[u8]) -> String {
    b.iter().map(|x| format!("{x:02x}")).collect()
}

fn show_text(t: &[u8]) -> String {
    String::from_utf8_lossy(t).into_owned()
}

#[derive(Clone, Debug, Serialize, Deserialize, PartialEq, Eq, Hash)]
pub struct Case {
    pub records: Vec<ZRec>,
    pub tape: Vec<u16>,
    /// octets of comment lines put in front of the file, so that the records lie around the
    /// 16 KiB points at which the parser refills its buffer
    #[serde(default)]
    pub pad: u32,
}

/// `n` octets of comment / blank lines and the number of lines they make up.
fn padding(n: u32) -> (Vec<u8>, usize) {
    let mut out = Vec::new();
    let mut lines = 0;
    let mut left = n as usize;
    while left > 0 {
        let take = left.min(61);
        if take == 1 {
            out.push(b'\n');
        } else {
            out.push(b';');
            out.extend(std::iter::repeat(b'p').take(take - 2));
            out.push(b'\n');
        }
        lines += 1;
        left -= take;
    }
    (out, lines)
}

/// (line, owner wire, ttl, class, type, rdata)
type Parsed = (usize, Vec<u8>, u32, u16, u16, Vec<u8>);

/// Parses with quandary; returns the records before the first error and the error, if any.
pub fn q_parse(text: &[u8]) -> Result<(Vec<Parsed>, Option<String>, usize), String> {
    catch(|| {
        let mut out = Vec::new();
        let mut err = None;
        let mut after_error = 0usize;
        let parser = Parser::new(Cursor::new(text));
        for item in parser {
            if err.is_some() {
                after_error += 1;
                continue;
            }
            match item {
                Ok(line) => match line.content {
                    LineContent::Record(r) => out.push((
                        line.number,
                        r.owner.wire_repr().to_vec(),
                        u32::from(r.ttl),
                        u16::from(r.class),
                        u16::from(r.rr_type),
                        r.rdata.octets().to_vec(),
                    )),
                    // a reported $INCLUDE directive is a regular item of the plain parser (not an error)
                    LineContent::Include(_) => {}
                },
                Err(e) => err = Some(format!("{e}")),
            }
        }
        (out, err, after_error)
    })
}

pub fn oracle_c23(case: &Case, st: &mut Stats) -> Verdict {
    st.eval();
    let mut ctx = PCtx::default();
    let printed = print(&case.records, &case.tape, &mut ctx);
    for f in &printed.features {
        st.class(f);
    }
    if printed.features.len() >= 4 {
        st.nontrivial(&printed.text, || json!({"zone_file": show_text(&printed.text), "features": printed.features.iter().collect::<Vec<_>>()}));
    }
    let mut printed = printed;
    if case.pad > 0 {
        let (mut text, lines) = padding(case.pad);
        text.extend_from_slice(&printed.text);
        printed.text = text;
        for e in printed.expected.iter_mut() {
            e.0 += lines;
        }
        st.class("file-padded-beyond-16KiB");
    }
    let (got, err, _) = match q_parse(&printed.text) {
        Ok(v) => v,
        Err(p) => fail!(panic_signature(&p), "the parser panicked on:\n{}\n{p}", show_text(&printed.text)),
    };
    // compare record by record so that the diagnosis names the first difference
    let mut wks_deviation: Option<String> = None;
    for (i, (line, rec)) in printed.expected.iter().enumerate() {
        let want: Parsed = (*line, rec.owner.wire(), rec.ttl, rec.class, rec.data.rtype(), rec.data.wire());
        match got.get(i) {
            Some(g) if *g == want => {}
            Some(g) => {
                let what = if g.0 != want.0 {
                    "line-number"
                } else if g.1 != want.1 {
                    "owner"
                } else if g.2 != want.2 {
                    "ttl"
                } else if g.3 != want.3 {
                    "class"
                } else if g.4 != want.4 {
                    "type"
                } else {
                    "rdata"
                };
                // a WKS bit map in least-significant-bit-first order is a known deviation with its own signature
                if what == "rdata" && rec.data.wire_wks_lsb_first().as_deref() == Some(&g.5[..]) && (g.0, &g.1, g.2, g.3, g.4) == (want.0, &want.1, want.2, want.3, want.4) {
                    // keep checking the rest of the file; reported (under its own signature) at the end
                    wks_deviation = Some(format!("record #{i}: WKS RDATA parsed as {} but the text denotes {} (bit map bit order); file:\n{}", hex(&g.5), hex(&want.5), show_text(&printed.text)));
                    continue;
                }
                let sig = format!("record-mismatch-{what}");
                fail!(
                    sig,
                    "record #{i}: parsed (line {}, owner {}, ttl {}, class {}, type {}, rdata {}), the file denotes (line {}, owner {}, ttl {}, class {}, type {}, rdata {}); file:\n{}",
                    g.0,
                    hex(&g.1),
                    g.2,
                    g.3,
                    g.4,
                    hex(&g.5),
                    want.0,
                    hex(&want.1),
                    want.2,
                    want.3,
                    want.4,
                    hex(&want.5),
                    show_text(&printed.text)
                );
            }
            None => {
                let e = err.clone().unwrap_or_else(|| "no error, the parser just stopped".into());
                let sig = if e.contains("hexadecimal") && printed.features.contains("generic-rdata-several-words") {
                    "generic-rdata-several-words-rejected".to_string()
                } else {
                    "valid-file-rejected".to_string()
                };
                fail!(sig, "record #{i} ({:?}) was not produced: {e}; file:\n{}", rec, show_text(&printed.text));
            }
        }
    }
    ensure!(got.len() == printed.expected.len() && err.is_none(), "extra-output", "the parser produced {} records and error {err:?} for a file of {} records:\n{}", got.len(), printed.expected.len(), show_text(&printed.text));
    if let Some(d) = wks_deviation {
        fail!("wks-bitmap-bit-order", "{d}");
    }
    Ok(())
}

////////////////////////////////////////////////////////////////////////
// GENERATORS                                                         //
////////////////////////////////////////////////////////////////////////

fn zname() -> impl Strategy<Value = MName> {
    prop_oneof![6 => pool_name(4), 2 => arb_name(), 1 => crate::gen::boundary_name()]
}

fn cstring() -> impl Strategy<Value = Vec<u8>> {
    prop_oneof![
        6 => prop::collection::vec(crate::gen::label_octet(), 0..12),
        1 => prop::collection::vec(any::<u8>(), 0..40),
        1 => prop::collection::vec(crate::gen::label_octet(), 250..=255),
    ]
}

pub fn rdata_strategy() -> impl Strategy<Value = (u16, RData)> {
    let any_class = || prop_oneof![6 => Just(mr::C_IN), 2 => Just(mr::C_CH), 1 => Just(mr::C_HS), 1 => Just(300u16)];
    let single = prop_oneof![Just(mr::T_NS), Just(mr::T_MD), Just(mr::T_MF), Just(mr::T_CNAME), Just(mr::T_MB), Just(mr::T_MG), Just(mr::T_MR), Just(mr::T_PTR)];
    prop_oneof![
        4 => any::<[u8; 4]>().prop_map(|a| (mr::C_IN, RData::A(a))),
        3 => prop_oneof![any::<[u8; 16]>(), Just([0u8; 16]), any::<[u8; 4]>().prop_map(|a| {
            let mut v = [0u8; 16];
            v[10] = 0xff;
            v[11] = 0xff;
            v[12..].copy_from_slice(&a);
            v
        })].prop_map(|a| (mr::C_IN, RData::Aaaa(a))),
        5 => (any_class(), single, zname()).prop_map(|(c, t, n)| (c, RData::Name(t, n))),
        3 => (any_class(), zname(), zname(), any::<[u32; 5]>()).prop_map(|(c, mname, rname, v)| (c, RData::Soa { mname, rname, serial: v[0], refresh: v[1], retry: v[2], expire: v[3], minimum: v[4] })),
        3 => (any_class(), any::<u16>(), zname()).prop_map(|(c, p, n)| (c, RData::Mx(p, n))),
        1 => (any_class(), zname(), zname()).prop_map(|(c, a, b)| (c, RData::Minfo(a, b))),
        2 => (any_class(), cstring(), cstring()).prop_map(|(c, a, b)| (c, RData::Hinfo(a, b))),
        4 => (any_class(), prop::collection::vec(cstring(), 1..5)).prop_map(|(c, s)| (c, RData::Txt(s))),
        2 => (any::<[u16; 3]>(), zname()).prop_map(|(v, target)| (mr::C_IN, RData::Srv { priority: v[0], weight: v[1], port: v[2], target })),
        1 => (zname(), any::<u16>()).prop_map(|(n, a)| (mr::C_CH, RData::ChA(n, a))),
        2 => (any::<[u8; 4]>(), prop_oneof![Just(6u8), Just(17u8), any::<u8>()], prop::collection::vec(prop_oneof![4 => 0u16..100, 3 => any::<u16>(), 1 => Just(65535u16), 1 => Just(65534u16), 1 => 65527u16..=65535], 0..5)).prop_map(|(addr, proto, ports)| (mr::C_IN, RData::Wks { addr, proto, ports })),
        // unknown types, and known types in classes where they are not defined: generic form only
        3 => (prop_oneof![Just(mr::C_IN), Just(mr::C_CH), Just(300u16)], prop_oneof![Just(99u16), Just(257u16), Just(65280u16), Just(17u16), Just(mr::T_AAAA), Just(mr::T_SRV), Just(mr::T_WKS), Just(mr::T_A)], prop::collection::vec(any::<u8>(), 0..30)).prop_map(|(c, t, b)| {
            // keep the combination one the parser does not know
            let known = (c == mr::C_IN && matches!(t, mr::T_AAAA | mr::T_SRV | mr::T_WKS | mr::T_A)) || (c == mr::C_CH && t == mr::T_A);
            if known {
                (mr::C_HS, RData::Generic(t, b))
            } else {
                (c, RData::Generic(t, b))
            }
        }),
    ]
}

pub fn zrec() -> impl Strategy<Value = ZRec> {
    (zname(), prop_oneof![4 => Just(300u32), 2 => Just(3600u32), 1 => Just(0u32), 1 => Just(0x7fff_ffffu32), 2 => 0u32..0x8000_0000], rdata_strategy()).prop_map(|(owner, ttl, (class, data))| ZRec { owner, ttl, class, data })
}

/// Record lists in which consecutive records often share owner, TTL and class
/// (so that omission is possible).
pub fn records() -> impl Strategy<Value = Vec<ZRec>> {
    prop::collection::vec((zrec(), 0u8..8), 1..12).prop_map(|v| {
        let mut out: Vec<ZRec> = Vec::new();
        for (mut r, share) in v {
            if let Some(prev) = out.last() {
                if share & 1 != 0 {
                    r.owner = prev.owner.clone();
                }
                if share & 2 != 0 {
                    r.ttl = prev.ttl;
                }
                if share & 4 != 0 {
                    // keep the class only if the RDATA form stays valid for it
                    let class_free = matches!(r.data, RData::Name(..) | RData::Soa { .. } | RData::Mx(..) | RData::Minfo(..) | RData::Hinfo(..) | RData::Txt(..));
                    if class_free {
                        r.class = prev.class;
                    }
                }
            }
            out.push(r);
        }
        out
    })
}

pub fn case_strategy() -> impl Strategy<Value = Case> {
    (records(), prop_oneof![1 => Just(Vec::new()), 8 => prop::collection::vec(any::<u16>(), 0..400)], prop_oneof![30 => Just(0u32), 2 => 16100u32..16400, 1 => 32500u32..32800])
        .prop_map(|(records, tape, pad)| Case { records, tape, pad })
}

////////////////////////////////////////////////////////////////////////
// C24                                                                //
////////////////////////////////////////////////////////////////////////

#[derive(Clone, Debug, Serialize, Deserialize, PartialEq, Eq, Hash)]
pub struct RawCase {
    pub text: Vec<u8>,
}

pub fn oracle_c24(case: &RawCase, st: &mut Stats) -> Verdict {
    st.eval();
    let (got, err, after_error) = match q_parse(&case.text) {
        Ok(v) => v,
        Err(p) => fail!(panic_signature(&p), "the parser panicked on {:?}: {p}", show_text(&case.text)),
    };
    ensure!(after_error == 0, "output-after-error", "the parser yielded {after_error} more items after its first error on {:?}", show_text(&case.text));
    let n_lines = case.text.iter().filter(|b| **b == b'\n').count() + 1;
    ensure!(got.len() <= n_lines, "more-records-than-lines", "{} records from {n_lines} lines", got.len());
    let mut generic_known = false;
    for (i, (_line, owner, _ttl, class, rtype, rdata)) in got.iter().enumerate() {
        ensure!(MName::from_wire(owner).map_or(false, |(_, l)| l == owner.len()), "owner-not-absolute", "record #{i} owner {} is not a valid absolute name", hex(owner));
        ensure!(!matches!(*rtype, mr::T_NULL | mr::T_OPT | mr::T_TSIG), "forbidden-type", "record #{i} has type {rtype}, which may not appear in zone files; input {:?}", show_text(&case.text));
        ensure!(
            mr::validate(*class, *rtype, rdata),
            "invalid-rdata-yielded",
            "record #{i} (class {class}, type {rtype}) carries RDATA {} which is not valid for its type; input {:?}",
            hex(rdata),
            show_text(&case.text)
        );
        if mr::name_layout(*class, *rtype).is_some() || matches!(*rtype, mr::T_TXT | mr::T_HINFO | mr::T_A | mr::T_AAAA) {
            generic_known |= case.text.windows(2).any(|w| w == b"\\#");
        }
    }
    if !got.is_empty() && err.is_some() {
        st.class("records-then-error");
    }
    if generic_known {
        st.class("generic-form-of-known-type");
    }
    if err.is_none() {
        st.class("parsed-to-the-end");
    }
    if case.text.len() > 65_000 {
        st.class("record-with-RDATA-within-3-octets-of-65535");
        if got.iter().any(|r| r.5.len() > 65_000) {
            st.class("record-with-more-than-65000-octets-of-RDATA-yielded");
        }
    }
    if (!got.is_empty() && err.is_some()) || generic_known {
        st.nontrivial(&case.text, || json!({"input": show_text(&case.text), "records": got.len(), "error": err}));
    }
    Ok(())
}

fn token() -> impl Strategy<Value = Vec<u8>> {
    let words: Vec<&'static str> = vec![
        "IN", "CH", "in", "CLASS300", "A", "AAAA", "NS", "CNAME", "SOA", "MX", "TXT", "SRV", "WKS", "HINFO", "MINFO", "PTR", "NULL", "OPT", "TSIG", "TYPE99", "TYPE1", "TYPE41", "TYPE10", "\\#", "0", "1", "4", "16", "300", "3600",
        "4294967295", "4294967296", "0a000001", "00", "c0", "ff", "zz", "192.0.2.1", "256.1.1.1", "::1", "2001:db8::1", "example.", "www", "@", ".", "*", "a.b.c.", "ns1.example.", "$ORIGIN", "$TTL", "$INCLUDE", "$origin", "$BOGUS", "(", ")", ";", "; comment", "\"", "\"quoted string\"",
        "\"unterminated", "\\", "\\000", "\\256", "\\25", "\\.", "TCP", "UDP", "25", "65535", "65536", "\n", "\r\n",
        // valid UTF-8 that is not ASCII, with multi-octet characters at various octet offsets
        "é", "ééé", "CLASé", "CLASSé", "TYPé", "TYPEé1", "abcd€", "ab😀", "in\u{0301}", "1é", "\\#é", "\n ", "\n\t", " ", "\t", "  ",
    ];
    prop_oneof![
        20 => (0..words.len()).prop_map(move |i| words[i].as_bytes().to_vec()),
        1 => prop::collection::vec(any::<u8>(), 1..5),
        1 => (1usize..70).prop_map(|n| vec![b'x'; n]),
        1 => (250usize..300).prop_map(|n| {
            let mut v = vec![b'"'];
            v.extend(vec![b'y'; n]);
            v.push(b'"');
            v
        }),
    ]
}

pub fn raw_case() -> impl Strategy<Value = RawCase> {
    prop_oneof![
        // token soup
        5 => prop::collection::vec((token(), prop_oneof![4 => Just(b" ".to_vec()), 1 => Just(Vec::new()), 1 => Just(b"\n".to_vec())]), 0..40).prop_map(|v| RawCase { text: v.into_iter().flat_map(|(a, b)| [a, b].concat()).collect() }),
        // valid files under mutation
        5 => (case_strategy(), prop::collection::vec((any::<u16>(), 0u8..4, any::<u8>()), 0..4)).prop_map(|(c, muts)| {
            let mut ctx = PCtx::default();
            let mut text = print(&c.records, &c.tape, &mut ctx).text;
            for (sel, kind, b) in muts {
                if text.is_empty() {
                    break;
                }
                let i = crate::gen::pick(sel, text.len());
                match kind {
                    0 => text.truncate(i),
                    1 => text.insert(i, b),
                    2 => {
                        text.remove(i);
                    }
                    _ => text[i] = b,
                }
            }
            RawCase { text }
        }),
        // random bytes
        1 => prop::collection::vec(any::<u8>(), 0..200).prop_map(|text| RawCase { text }),
        // a TXT record whose RDATA ends within a few octets of the 65,535-octet limit, in presentation
        // form (strings of up to 255 octets) or in generic form
        1 => (-3i64..=3, 0usize..=255, any::<bool>(), 0u8..3, prop::bool::weighted(0.2)).prop_map(|(delta, first, quoted, tail, generic)| {
            let target = (65535 + delta) as usize;
            let mut text = b"big.example. 300 IN TXT".to_vec();
            if generic {
                text.extend_from_slice(format!(" \\# {target} ").as_bytes());
                let mut left = target;
                while left > 0 {
                    let n = left.min(256);
                    text.extend_from_slice(format!("{:02x}", n - 1).as_bytes());
                    text.extend(std::iter::repeat(b"61".iter().copied()).take(n - 1).flatten());
                    left -= n;
                }
            } else {
                let push = |text: &mut Vec<u8>, n: usize| {
                    text.push(b' ');
                    if quoted || n == 0 {
                        text.push(b'"');
                    }
                    text.extend(std::iter::repeat(b'y').take(n));
                    if quoted || n == 0 {
                        text.push(b'"');
                    }
                };
                let mut total = first + 1;
                push(&mut text, first);
                while target - total > 256 {
                    push(&mut text, 255);
                    total += 256;
                }
                if target > total {
                    push(&mut text, target - total - 1);
                }
            }
            match tail {
                0 => text.push(b'\n'),
                1 => {}
                _ => text.extend_from_slice(b"\nnext.example. 300 IN A 192.0.2.1\n"),
            }
            RawCase { text }
        }),
        // records whose RDATA is given in RFC 3597 generic form: the wire form of a valid
        // RDATA of a known type, exact or slightly damaged (octets appended / removed /
        // changed, stated length off by one); the parser must reject or yield valid RDATA
        4 => (prop::collection::vec((zrec(), 0u8..6, any::<u16>(), any::<u8>(), 0u8..3, any::<bool>()), 1..4)).prop_map(|recs| {
            let mut text = String::new();
            for (r, damage, sel, b, len_off, mnemonic) in recs {
                let mut wire = r.data.wire();
                match damage {
                    0 | 1 => {}
                    2 => wire.extend(std::iter::repeat(b).take(1 + (sel % 3) as usize)),
                    3 => {
                        let keep = crate::gen::pick(sel, wire.len() + 1);
                        wire.truncate(keep);
                    }
                    4 => {
                        if !wire.is_empty() {
                            let i = crate::gen::pick(sel, wire.len());
                            wire[i] = b;
                        }
                    }
                    _ => wire.insert(crate::gen::pick(sel, wire.len() + 1), b),
                }
                let stated = match len_off {
                    0 | 1 => wire.len(),
                    _ => wire.len() + 1,
                };
                let t = r.data.rtype();
                let ty = match (mnemonic, t) {
                    (true, 1) => "A".to_string(),
                    (true, 2) => "NS".to_string(),
                    (true, 5) => "CNAME".to_string(),
                    (true, 6) => "SOA".to_string(),
                    (true, 12) => "PTR".to_string(),
                    (true, 15) => "MX".to_string(),
                    (true, 16) => "TXT".to_string(),
                    (true, 33) => "SRV".to_string(),
                    _ => format!("TYPE{t}"),
                };
                let hex: String = wire.iter().map(|x| format!("{x:02x}")).collect();
                // the hexadecimal data may be split into several words
                let hex = if hex.len() > 6 && sel % 2 == 0 { format!("{} {}", &hex[..4], &hex[4..]) } else { hex };
                text.push_str(&format!("{} {} CLASS{} {} \\# {} {}\n", vmodel::zonefile::absolute_name_text(&r.owner), r.ttl, r.class, ty, stated, hex));
            }
            RawCase { text: text.into_bytes() }
        }),
    ]
}

pub fn run(ctx: &Ctx, report: &mut Report) {
    if ctx.id == "C24" {
        report.rule = "random byte strings, token soups over the zone-file vocabulary (mnemonics, generic forms, directives, parentheses, \
            quotes, escapes, numbers at the u16/u32 boundaries, addresses) and valid generated zone files under truncation / byte \
            insertion / deletion / replacement; the parser must not panic, must yield nothing after its first error, and every yielded \
            record must have an absolute owner, a type other than NULL/OPT/TSIG, and RDATA valid for its class/type (also for the \\# \
            form). Termination is guarded by the driver's watchdog. Non-trivial = input yielding >= 1 record and then an error, or a \\# \
            record of a known type."
            .into();
        report.assumptions.push("vmodel::rdata::validate as the validity reference".into());
        run_prop(ctx, report, PropSpec { name: "parser-total", cases: ctx.tier.pick(150_000, 3_000_000), max_shrink_iters: 4096 }, raw_case, oracle_c24);
        report.assumptions.push("sub-check parser-short-reads: the same inputs delivered through a Read stream that cuts them into generated read sizes and fails one read with a generated io::ErrorKind".into());
        run_prop(ctx, report, PropSpec { name: "parser-short-reads", cases: ctx.tier.pick(60_000, 1_000_000), max_shrink_iters: 2048 }, io::raw_io_case, io::oracle_io);
    } else {
        report.rule = "record lists (every supported type incl. WKS, Chaosnet A, SRV; unknown types and classes in RFC 3597 generic form; \
            names with arbitrary octets; strings up to 255 octets; TTLs < 2^31) rendered by the independent pretty-printer, which \
            chooses per field: absolute/relative/@/omitted owner, TTL and class present/omitted/swapped, $ORIGIN and $TTL directives, \
            mnemonic case and TYPEn/CLASSn forms, quoted/unquoted strings, \\X vs \\DDD escapes, generic \\# form in one or several \
            hex words, parentheses with line breaks and comments, blank/comment lines, tabs/spaces, LF/CRLF, missing final newline; \
            expected parse = the generating list with the line each record starts on. Non-trivial = file using >= 4 distinct \
            presentation features (features are counted in classes)."
            .into();
        report.assumptions.push("the printer (vmodel::zonefile) only emits text with one reading under RFC 1035 §5 / RFC 3597 §5".into());
        run_prop(ctx, report, PropSpec { name: "print-parse", cases: ctx.tier.pick(40_000, 1_000_000), max_shrink_iters: 8192 }, case_strategy, oracle_c23);
        run_prop(ctx, report, PropSpec { name: "parser-short-reads", cases: ctx.tier.pick(20_000, 400_000), max_shrink_iters: 2048 }, io::valid_io_case, io::oracle_io);
    }
}

pub fn replay(check: &str, case: &serde_json::Value) -> Verdict {
    use crate::fw::replay_case;
    if check == "parser-short-reads" {
        return replay_case::<io::IoCase, _>(case, io::oracle_io);
    }
    if check == "parser-total" {
        replay_case::<RawCase, _>(case, oracle_c24)
    } else {
        replay_case::<Case, _>(case, oracle_c23)
    }
}
