//! C26, sub-check `token-bucket-subsecond`: histories whose request times are
//! not whole seconds apart. The property's bucket is "refilled by rate per
//! whole elapsed second": the time that has passed beyond the last whole second
//! is not lost at a refill, it counts towards the next one (the reference keeps
//! the bucket's one-second grid anchored where the stream started).
//!
//! Time is advanced with the millisecond time-shift hook in multiples of
//! 250 ms. Real time also passes while a history runs; a history is judged only
//! if it ran in less than 200 ms of real time, in which case the real elapsed
//! times and the reference's differ by less than 250 ms in the same direction
//! and so have the same number of whole seconds at every step (the limiter
//! carries the remainder, so the offset does not accumulate). Slower runs are
//! repeated and finally discarded, whatever they showed.

use super::*;

#[derive(Clone, Debug, Serialize, Deserialize, PartialEq, Eq, Hash)]
pub struct FracCase {
    pub rrl: RrlSpec,
    pub req: Req,
    /// milliseconds to advance before each request (multiples of 250)
    pub gaps_ms: Vec<u32>,
}

const REAL_TIME_BUDGET_MS: u128 = 200;

struct Attempt {
    verdict: Verdict,
    steps: u64,
    cat_idx: u8,
    rate: u128,
    limited_seen: bool,
    recovered_after_fraction: bool,
    fractional_refills: u64,
}

fn attempt(case: &FracCase, cat: &crate::srvgen::BuiltCatalog) -> Option<Attempt> {
    let mut req = case.req.clone();
    req.tcp = false;
    req.opcode = 0;
    let limited_server = make_server(cat, &ServerCfg { payload: 1232, keys: vec![], rrl: Some(case.rrl.clone()) });
    let twin = make_server(cat, &ServerCfg { payload: 1232, keys: vec![], rrl: None });
    let bytes = render_req(&req, 77);
    let src = addr_of(&req);
    let mut buf = Vec::new();
    let twin_resp = match exchange(&twin, &bytes, false, src, &mut buf) {
        Ok(Some(r)) => r,
        _ => return None,
    };
    let cat_idx = category(decode_message(&twin_resp).map(|d| d.extended_rcode()).unwrap_or(2));
    let rate = [case.rrl.noerror, case.rrl.nxdomain, case.rrl.error][cat_idx as usize].max(1) as u128;
    let limit = rate * case.rrl.window.max(1) as u128;
    let mut a = Attempt { verdict: Ok(()), steps: 0, cat_idx, rate, limited_seen: false, recovered_after_fraction: false, fractional_refills: 0 };
    // reference bucket: responses counted against the limit, and the instant (ms) of the grid
    // point up to which refills have been credited; None = no entry yet
    let mut bucket: Option<(u128, u64)> = None;
    let mut t_ms: u64 = 0;
    let mut seen_fractional_refill = false;
    let mut run = || -> Verdict {
        for (i, gap) in case.gaps_ms.iter().enumerate() {
            limited_server.shift_rrl_time_millis(*gap as u64);
            t_ms += *gap as u64;
            let got = exchange(&limited_server, &bytes, false, src, &mut buf).map_err(|f| Fail::new(f.signature, format!("step #{i} at t = {t_ms} ms: {}", f.detail)))?;
            a.steps += 1;
            let expect_limited = match bucket {
                None => {
                    bucket = Some((1, t_ms));
                    false
                }
                Some((used, grid)) => {
                    let since = t_ms - grid;
                    let (used, grid) = if since >= 1000 {
                        if since % 1000 != 0 {
                            a.fractional_refills += 1;
                            seen_fractional_refill = true;
                        }
                        (used.saturating_sub(rate * (since / 1000) as u128), t_ms - since % 1000)
                    } else {
                        (used, grid)
                    };
                    if used >= limit {
                        bucket = Some((used, grid));
                        true
                    } else {
                        bucket = Some((used + 1, grid));
                        false
                    }
                }
            };
            let describe = || {
                format!(
                    "step #{i} at t = {t_ms} ms (request times so far, ms: {:?}; rate {rate}/s, window {} s, limit {limit}, slip {}; reference bucket (used, refilled up to ms) after this step {:?})",
                    case.gaps_ms[..=i].iter().scan(0u64, |acc, g| { *acc += *g as u64; Some(*acc) }).collect::<Vec<_>>(),
                    case.rrl.window,
                    case.rrl.slip,
                    bucket
                )
            };
            if expect_limited {
                a.limited_seen = true;
                match (&got, case.rrl.slip) {
                    (None, 0) => {}
                    (Some(r), 0) => fail!("limited-response-sent", "{}: the response must be dropped (slip 0) but {} was sent", describe(), hex(r)),
                    (Some(r), 1) => ensure!(is_slip(r), "slip-not-truncated", "{}: slip 1 requires a TC response without records, got {}", describe(), hex(r)),
                    (None, 1) => fail!("slip-dropped", "{}: slip 1 requires a truncated response, but nothing was sent", describe()),
                    (None, _) => {}
                    (Some(r), _) => ensure!(is_slip(r), "limited-response-sent", "{}: a limited response may only be dropped or slipped (TC, no records), got {}", describe(), hex(r)),
                }
            } else {
                if a.limited_seen && seen_fractional_refill {
                    a.recovered_after_fraction = true;
                }
                match &got {
                    Some(r) => ensure!(*r == twin_resp, "sent-response-differs", "{}: the response differs from the unlimited server's: {} vs {}", describe(), hex(r), hex(&twin_resp)),
                    None => fail!("unlimited-response-dropped", "{}: the response must be sent but was dropped", describe()),
                }
            }
        }
        Ok(())
    };
    let verdict = run();
    a.verdict = verdict;
    Some(a)
}

pub fn oracle_frac(case: &FracCase, st: &mut Stats) -> Verdict {
    let spec = fixed_catalog();
    let (cat, _model) = build(&spec);
    for _ in 0..4 {
        let started = Instant::now();
        let a = match attempt(case, &cat) {
            Some(a) => a,
            None => return Ok(()),
        };
        if started.elapsed().as_millis() >= REAL_TIME_BUDGET_MS {
            st.discard("history-took-200ms-or-more-of-real-time-retried");
            continue;
        }
        st.evals(a.steps);
        a.verdict?;
        st.class(["stream-noerror", "stream-nxdomain", "stream-error"][a.cat_idx as usize]);
        if a.limited_seen {
            st.class("history-with-limited-response");
        }
        st.class_n("refills-at-a-non-integral-elapsed-time", a.fractional_refills);
        if a.recovered_after_fraction {
            st.class("limited-then-refilled-at-a-fractional-time-and-sent");
            st.nontrivial(case, || json!({"rate": a.rate as u64, "window": case.rrl.window, "slip": case.rrl.slip, "gaps_ms": case.gaps_ms}));
        }
        return Ok(());
    }
    st.discard("history-never-ran-within-the-real-time-budget");
    Ok(())
}

pub fn frac_case() -> impl Strategy<Value = FracCase> {
    let rate = || prop_oneof![10 => 1u32..5, 3 => 5u32..20];
    (rate(), rate(), rate(), prop_oneof![2 => Just(1u32), 8 => 2u32..5, 1 => 5u32..12], prop_oneof![3 => Just(0usize), 3 => Just(1), 1 => Just(2)], prop_oneof![Just(1usize), Just(7), Just(65537)]).prop_flat_map(|(noerror, nxdomain, error, window, slip, size)| {
        let gap = prop_oneof![
            12 => Just(0u32),
            3 => Just(250u32),
            3 => Just(500u32),
            3 => Just(750u32),
            2 => Just(1000u32),
            2 => Just(1250u32),
            2 => Just(1500u32),
            2 => Just(1750u32),
            1 => Just(2000u32),
            1 => (9u32..40).prop_map(|k| k * 250),
            1 => (1u32..8).prop_map(move |k| window * 1000 + k * 250),
        ];
        let shape = prop_oneof![Just(Shape::Answer(0)), Just(Shape::NxDomain(0)), Just(Shape::Refused(0)), Just(Shape::Wild(0, 0)), Just(Shape::ServFail), Just(Shape::NoData), Just(Shape::Referral)];
        (Just(RrlSpec { noerror, nxdomain, error, window, slip, v4_prefix: 24, v6_prefix: 56, size }), shape, prop::collection::vec(gap, 1..120))
    })
    .prop_map(|(rrl, shape, gaps_ms)| FracCase { rrl, req: Req { shape, mask: 0, tcp: false, opcode: 0, family: 0, addr: 0x0a00_0001 }, gaps_ms })
}
