//! C30 — the blocking and Tokio I/O providers answer each request once with
//! correct framing.
//!
//! Domain: proptest batches of 1-12 requests (valid, malformed, response-less)
//! framed with 2-octet lengths, concatenated, cut into generated segments with
//! generated 0-3 ms pauses and pipelined over a loopback TCP connection to a
//! running provider; UDP datagrams from two client sockets.  Five provider
//! configurations (blocking: 0/1/4 base workers, linger 0/1 s, 1/2 UDP
//! workers; Tokio).
//! Oracle: differential against `handle_message` on an identically configured
//! twin server (same catalog, payload size, loopback source): TCP responses
//! arrive in request order, framed, octet-equal; the connection is closed right
//! after the first request that gets no response; every UDP request gets at
//! most one datagram — equal to the twin's, from the server's address, sent to
//! the socket that asked, no larger than the payload size.
//!
//! The OS scheduler is not owned here; segmentation, pipelining and pauses are.
//! Timing never decides a verdict on its own: an exchange that runs into a
//! client-side timeout is repeated on a fresh connection and only reported if
//! it fails three times in a row.

use std::collections::HashMap;
use std::io::{Read, Write};
use std::net::{IpAddr, Ipv4Addr, Shutdown, SocketAddr, TcpListener, TcpStream, UdpSocket};
use std::sync::mpsc;
use std::sync::Arc;
use std::time::{Duration, Instant};

use proptest::prelude::*;
use proptest::strategy::ValueTree;
use proptest::test_runner::{Config, RngSeed, TestRunner};
use quandary::db::{HashMapTreeCatalog, HashMapTreeZone};
use quandary::io::{BlockingIoConfig, BlockingIoProvider, TokioIoProvider};
use quandary::server::{ReceivedInfo, Response, Server, Transport};
use quandary::thread::ThreadGroup;
use serde::{Deserialize, Serialize};
use serde_json::json;
use vmodel::name::MName;

use crate::fw::{catch, panic_signature, replay_case, run_prop, Ctx, Fail, PropSpec, Report, Stats, Verdict};
use crate::reqgen::{render, req_spec, ReqSpec};
use crate::srvgen::{build, catalog_spec, BuiltCatalog};
use crate::srvrun::hex;
use crate::{ensure, fail};

use super::c05::query_names;
use super::srvchk::now_secs;

type Cat = HashMapTreeCatalog<HashMapTreeZone, ()>;

#[path = "c30s.rs"]
pub mod slow;

#[derive(Clone, Debug, Serialize, Deserialize, PartialEq, Eq, Hash)]
pub enum Item {
    Req(ReqSpec),
    Raw(Vec<u8>),
    /// a request that gets no response: 0 = QR set, 1 = shorter than a header, 2 = empty, 3 = QDCOUNT 2
    Closer(u8),
    /// a request padded with zero octets to exactly this many octets (TCP only; lengths around
    /// powers of two and 65,535, where receive buffers are sized and grown)
    Padded(ReqSpec, u16),
}

#[derive(Clone, Debug, Serialize, Deserialize, PartialEq, Eq, Hash)]
pub struct Case {
    /// provider configuration (index into CONFIGS)
    pub cfg: u8,
    pub tcp: Vec<Item>,
    /// cut positions as selectors into the concatenated stream
    pub cuts: Vec<u16>,
    /// pause in ms before each segment
    pub pauses: Vec<u8>,
    /// after the batch: an incomplete frame (claimed length selector, octets present), then half-close
    pub partial_tail: Option<(u16, u8)>,
    pub udp_a: Vec<Item>,
    pub udp_b: Vec<Item>,
}

#[derive(Clone, Copy, Debug)]
pub struct ProviderCfg {
    pub name: &'static str,
    pub tokio: bool,
    pub tcp_base_workers: usize,
    pub linger_ms: u64,
    pub udp_workers: usize,
    pub payload: u16,
}

pub const CONFIGS: [ProviderCfg; 5] = [
    ProviderCfg { name: "blocking-0-workers-no-linger", tokio: false, tcp_base_workers: 0, linger_ms: 0, udp_workers: 1, payload: 1232 },
    ProviderCfg { name: "blocking-1-worker-linger", tokio: false, tcp_base_workers: 1, linger_ms: 1000, udp_workers: 2, payload: 512 },
    ProviderCfg { name: "blocking-4-workers-linger", tokio: false, tcp_base_workers: 4, linger_ms: 1000, udp_workers: 1, payload: 4096 },
    ProviderCfg { name: "blocking-0-workers-linger", tokio: false, tcp_base_workers: 0, linger_ms: 1000, udp_workers: 2, payload: 1232 },
    ProviderCfg { name: "tokio", tokio: true, tcp_base_workers: 0, linger_ms: 0, udp_workers: 0, payload: 1232 },
];

////////////////////////////////////////////////////////////////////////
// ENVIRONMENT: catalog, twin, running providers                      //
////////////////////////////////////////////////////////////////////////

struct Env {
    tree: Arc<Cat>,
    pool: Vec<(MName, u16)>,
}

/// The catalog is fixed for the whole run (a provider outlives many cases); it
/// is drawn from the catalog generator with a fixed seed.
fn env() -> &'static Env {
    static ENV: std::sync::OnceLock<Env> = std::sync::OnceLock::new();
    ENV.get_or_init(|| {
        let mut runner = TestRunner::new(Config {
            rng_seed: RngSeed::Fixed(0xC30),
            failure_persistence: None,
            ..Config::default()
        });
        // draw until the catalog is a tree with at least one loaded zone and some records
        loop {
            let spec = catalog_spec(true, false, true).new_tree(&mut runner).expect("catalog").current();
            if spec.single || spec.zones.iter().all(|z| z.kind % 3 != 0 || z.recs.len() < 6) {
                continue;
            }
            let (built, model) = build(&spec);
            if let BuiltCatalog::Tree(tree) = built {
                let pool = query_names(&model, &[], 300);
                return Env { tree, pool };
            }
        }
    })
}

fn new_server(payload: u16) -> Server<Cat> {
    let mut s = Server::new(env().tree.clone());
    s.set_edns_udp_payload_size(payload).expect("payload");
    s
}

struct Running {
    port: u16,
    stop: Option<Box<dyn FnOnce() + Send>>,
}

impl Drop for Running {
    fn drop(&mut self) {
        if let Some(f) = self.stop.take() {
            f();
        }
    }
}

fn free_port() -> Option<u16> {
    // a port that is free for TCP and for UDP (the UDP port of the same number may be taken)
    for _ in 0..200 {
        let Ok(l) = TcpListener::bind((Ipv4Addr::LOCALHOST, 0)) else { continue };
        let Ok(addr) = l.local_addr() else { continue };
        if UdpSocket::bind((Ipv4Addr::LOCALHOST, addr.port())).is_ok() {
            return Some(addr.port());
        }
    }
    None
}

fn start(cfg: &ProviderCfg) -> Option<Running> {
    for _ in 0..40 {
        let port = free_port()?;
        let addr = SocketAddr::new(IpAddr::V4(Ipv4Addr::LOCALHOST), port);
        let server = Arc::new(new_server(cfg.payload));
        if cfg.tokio {
            let rt = match tokio::runtime::Builder::new_multi_thread().worker_threads(2).enable_all().build() {
                Ok(rt) => rt,
                Err(_) => return None,
            };
            let provider = match rt.block_on(TokioIoProvider::bind([addr], [addr])) {
                Ok(p) => p,
                Err(_) => continue,
            };
            let controller = {
                let _guard = rt.enter();
                provider.start(&server)
            };
            return Some(Running {
                port,
                stop: Some(Box::new(move || {
                    rt.block_on(controller.shut_down());
                    rt.shutdown_timeout(Duration::from_secs(2));
                })),
            });
        } else {
            let config = BlockingIoConfig {
                tcp_base_workers: cfg.tcp_base_workers,
                tcp_worker_linger: Duration::from_millis(cfg.linger_ms),
                udp_workers_per_socket: cfg.udp_workers,
            };
            let provider = match BlockingIoProvider::bind(config, [addr], [addr]) {
                Ok(p) => p,
                Err(_) => continue,
            };
            let group = ThreadGroup::new();
            if provider.start(&server, &group).is_err() {
                group.shut_down();
                group.await_shutdown();
                continue;
            }
            return Some(Running {
                port,
                stop: Some(Box::new(move || {
                    group.shut_down();
                    group.await_shutdown();
                })),
            });
        }
    }
    None
}

/// Running providers, one set per shard thread.  They are shut down explicitly
/// at the end of the run (not from thread-local destructors: Tokio cannot be
/// used there).
static PROVIDERS: std::sync::Mutex<Option<HashMap<(std::thread::ThreadId, u8), Running>>> = std::sync::Mutex::new(None);

fn port_for(cfg_index: u8) -> u16 {
    let key = (std::thread::current().id(), cfg_index);
    {
        let g = PROVIDERS.lock().unwrap();
        if let Some(r) = g.as_ref().and_then(|m| m.get(&key)) {
            return r.port;
        }
    }
    let cfg = &CONFIGS[cfg_index as usize % CONFIGS.len()];
    match start(cfg) {
        Some(r) => {
            let port = r.port;
            PROVIDERS.lock().unwrap().get_or_insert_with(HashMap::new).insert(key, r);
            port
        }
        None => {
            eprintln!("INFRA: cannot start provider {} on a loopback port", cfg.name);
            std::process::exit(2);
        }
    }
}

fn stop_all_providers() {
    let all: Vec<Running> = match PROVIDERS.lock().unwrap().take() {
        Some(m) => m.into_values().collect(),
        None => return,
    };
    std::thread::scope(|s| {
        for r in all {
            s.spawn(move || drop(r));
        }
    });
}

////////////////////////////////////////////////////////////////////////
// RENDERING                                                          //
////////////////////////////////////////////////////////////////////////

fn render_item(item: &Item, now: u64) -> Vec<u8> {
    match item {
        Item::Req(r) => render(r, &env().pool, &[], now).bytes,
        Item::Raw(b) => b.clone(),
        Item::Padded(r, len) => {
            let mut b = render(r, &env().pool, &[], now).bytes;
            if b.len() < *len as usize {
                b.resize(*len as usize, 0);
            }
            b
        }
        Item::Closer(k) => {
            let (name, _) = env().pool.first().cloned().unwrap_or((MName::root(), 1));
            let mut b = vmodel::wire::Builder::new(0x7777, 0);
            b.question(&name, 1, 1);
            match k % 4 {
                0 => {
                    b.buf[2] |= 0x80;
                    b.buf
                }
                1 => b.buf[..7].to_vec(),
                2 => Vec::new(),
                _ => {
                    b.question(&name, 1, 1);
                    b.buf
                }
            }
        }
    }
}

fn twin_response(twin: &Server<Cat>, req: &[u8], tcp: bool, buf: &mut Vec<u8>) -> Result<Option<Vec<u8>>, Fail> {
    let need = if tcp { 65535 } else { twin.edns_udp_payload_size() as usize };
    buf.resize(need, 0);
    let info = ReceivedInfo::new(IpAddr::V4(Ipv4Addr::LOCALHOST), if tcp { Transport::Tcp } else { Transport::Udp });
    match catch(|| twin.handle_message(req, info, &mut buf[..])) {
        Ok(Response::Single(n)) => Ok(Some(buf[..n].to_vec())),
        Ok(Response::None) => Ok(None),
        Err(p) => Err(Fail::new(panic_signature(&p), format!("handle_message panicked on {}: {p}", hex(req)))),
    }
}

/// Octet equality, except that the "time signed" field of a TSIG record in the
/// response (the server's clock at the moment it answered; present in the
/// unsigned BADKEY responses these key-less servers give) may differ by a few
/// seconds between the provider and the twin.
fn same_response(got: &[u8], expected: &[u8]) -> bool {
    if got == expected {
        return true;
    }
    if got.len() != expected.len() {
        return false;
    }
    let Ok(d) = vmodel::wire::decode_message_opts(expected, true) else { return false };
    let Some(t) = d.tsig() else { return false };
    let Some((_, alg_len)) = MName::from_wire(&t.rdata) else { return false };
    // the algorithm name of a response TSIG is never compressed, so offsets agree
    let at = t.rdata_start + alg_len;
    if at + 6 > expected.len() {
        return false;
    }
    let time = |b: &[u8]| b[at..at + 6].iter().fold(0u64, |a, x| (a << 8) | *x as u64);
    let (tg, te) = (time(got), time(expected));
    got[..at] == expected[..at] && got[at + 6..] == expected[at + 6..] && tg.abs_diff(te) <= 5
}

////////////////////////////////////////////////////////////////////////
// TCP                                                                //
////////////////////////////////////////////////////////////////////////

#[derive(Debug, PartialEq, Eq, Clone, Copy)]
enum End {
    Eof,
    Reset,
    /// the client gave up waiting
    Timeout,
}

struct TcpOutcome {
    frames: Vec<Vec<u8>>,
    /// octets after the last complete frame
    residue: Vec<u8>,
    end: End,
    /// whether the client had to half-close to make the server close
    half_closed: bool,
    /// ms between the moment the last expected response was in and the end of the stream
    close_wait_ms: u128,
}

enum Ev {
    Frame(Vec<u8>),
    End(End, Vec<u8>),
}

/// Set once an exchange has failed by timeout three times in a row: from then
/// on (shrinking, further shards) one attempt with a shorter wait is enough —
/// the failure is established, only the smallest case is still sought.
static TIMEOUT_FAILURE_CONFIRMED: std::sync::atomic::AtomicBool = std::sync::atomic::AtomicBool::new(false);

fn client_wait() -> Duration {
    if TIMEOUT_FAILURE_CONFIRMED.load(std::sync::atomic::Ordering::SeqCst) {
        Duration::from_millis(1500)
    } else {
        Duration::from_millis(3000)
    }
}

/// Sends `stream_bytes` in the given segments and reads frames concurrently.
/// `expected` = number of responses the twin predicts; `server_closes` =
/// whether the server is expected to close by itself after them.
fn tcp_exchange(port: u16, segments: &[(Vec<u8>, u8)], expected: usize, server_closes: bool) -> std::io::Result<TcpOutcome> {
    let addr = SocketAddr::new(IpAddr::V4(Ipv4Addr::LOCALHOST), port);
    let stream = TcpStream::connect_timeout(&addr, Duration::from_secs(3))?;
    stream.set_nodelay(true)?;
    let mut reader = stream.try_clone()?;
    reader.set_read_timeout(Some(Duration::from_millis(200)))?;
    let (tx, rx) = mpsc::channel::<Ev>();
    let stop = Arc::new(std::sync::atomic::AtomicBool::new(false));
    let stop2 = stop.clone();
    let handle = std::thread::spawn(move || {
        let mut acc: Vec<u8> = Vec::new();
        let mut buf = vec![0u8; 70000];
        loop {
            match reader.read(&mut buf) {
                Ok(0) => {
                    let _ = tx.send(Ev::End(End::Eof, acc));
                    return;
                }
                Ok(n) => {
                    acc.extend_from_slice(&buf[..n]);
                    while acc.len() >= 2 {
                        let l = u16::from_be_bytes([acc[0], acc[1]]) as usize;
                        if acc.len() < 2 + l {
                            break;
                        }
                        let frame: Vec<u8> = acc[2..2 + l].to_vec();
                        acc.drain(..2 + l);
                        if tx.send(Ev::Frame(frame)).is_err() {
                            return;
                        }
                    }
                }
                Err(e) if matches!(e.kind(), std::io::ErrorKind::WouldBlock | std::io::ErrorKind::TimedOut | std::io::ErrorKind::Interrupted) => {
                    if stop2.load(std::sync::atomic::Ordering::SeqCst) {
                        let _ = tx.send(Ev::End(End::Timeout, acc));
                        return;
                    }
                }
                Err(_) => {
                    let _ = tx.send(Ev::End(End::Reset, acc));
                    return;
                }
            }
        }
    });

    let mut writer = stream;
    let mut write_failed = false;
    for (seg, pause) in segments {
        if *pause > 0 {
            std::thread::sleep(Duration::from_millis(*pause as u64));
        }
        if writer.write_all(seg).is_err() {
            // the server closed (EPIPE / ECONNRESET): expected after a response-less request
            write_failed = true;
            break;
        }
    }
    let _ = write_failed;

    let mut frames = Vec::new();
    let mut end: Option<(End, Vec<u8>)> = None;
    let mut last_needed_at = Instant::now();
    // 1. the expected responses
    while frames.len() < expected && end.is_none() {
        match rx.recv_timeout(client_wait()) {
            Ok(Ev::Frame(f)) => {
                frames.push(f);
                last_needed_at = Instant::now();
            }
            Ok(Ev::End(e, residue)) => end = Some((e, residue)),
            Err(_) => break,
        }
    }
    let mut half_closed = false;
    if end.is_none() && frames.len() == expected {
        if !server_closes {
            // nothing more may arrive; give a stray extra response a moment to show up
            match rx.recv_timeout(Duration::from_millis(15)) {
                Ok(Ev::Frame(f)) => frames.push(f),
                Ok(Ev::End(e, residue)) => end = Some((e, residue)),
                Err(_) => {}
            }
            if end.is_none() {
                let _ = writer.shutdown(Shutdown::Write);
                half_closed = true;
            }
        }
        // 2. the end of the stream
        let deadline = Instant::now() + client_wait();
        while end.is_none() {
            let left = deadline.saturating_duration_since(Instant::now());
            if left.is_zero() {
                break;
            }
            match rx.recv_timeout(left) {
                Ok(Ev::Frame(f)) => frames.push(f),
                Ok(Ev::End(e, residue)) => end = Some((e, residue)),
                Err(_) => break,
            }
        }
    }
    let close_wait_ms = last_needed_at.elapsed().as_millis();
    stop.store(true, std::sync::atomic::Ordering::SeqCst);
    let (end, residue) = match end {
        Some(x) => x,
        None => {
            // make the reader thread finish
            let _ = writer.shutdown(Shutdown::Both);
            let mut got = (End::Timeout, Vec::new());
            while let Ok(ev) = rx.recv_timeout(Duration::from_millis(1000)) {
                if let Ev::End(_, residue) = ev {
                    got = (End::Timeout, residue);
                    break;
                }
            }
            got
        }
    };
    let _ = handle.join();
    Ok(TcpOutcome { frames, residue, end, half_closed, close_wait_ms })
}

fn cut_stream(stream: &[u8], cuts: &[u16], pauses: &[u8]) -> Vec<(Vec<u8>, u8)> {
    let mut points: Vec<usize> = cuts
        .iter()
        .map(|c| if stream.is_empty() { 0 } else { (*c as usize * stream.len()) >> 16 })
        .filter(|p| *p > 0 && *p < stream.len())
        .collect();
    points.sort_unstable();
    points.dedup();
    let mut out = Vec::new();
    let mut prev = 0;
    for (i, p) in points.iter().chain(std::iter::once(&stream.len())).enumerate() {
        if *p > prev || stream.is_empty() {
            out.push((stream[prev..*p].to_vec(), pauses.get(i).copied().unwrap_or(0) % 4));
            prev = *p;
        }
    }
    out
}

fn check_tcp(case: &Case, port: u16, twin: &Server<Cat>, st: &mut Stats) -> Verdict {
    if case.tcp.is_empty() && case.partial_tail.is_none() {
        return Ok(());
    }
    let now = now_secs();
    let requests: Vec<Vec<u8>> = case.tcp.iter().map(|i| render_item(i, now)).collect();
    let mut buf = Vec::new();
    let mut expected: Vec<Vec<u8>> = Vec::new();
    let mut closer_at: Option<usize> = None;
    for (i, r) in requests.iter().enumerate() {
        match twin_response(twin, r, true, &mut buf)? {
            Some(resp) => expected.push(resp),
            None => {
                closer_at = Some(i);
                break;
            }
        }
    }
    let mut stream: Vec<u8> = Vec::new();
    let mut frame_bounds: Vec<(usize, usize)> = Vec::new();
    for r in &requests {
        let s = stream.len();
        stream.extend_from_slice(&(r.len() as u16).to_be_bytes());
        stream.extend_from_slice(r);
        frame_bounds.push((s, stream.len()));
    }
    let mut has_partial = false;
    if let Some((claim, present)) = case.partial_tail {
        // an incomplete frame: claims more octets than follow
        let present = present as usize;
        let claim = (claim as usize).max(present + 1).min(65535);
        stream.extend_from_slice(&(claim as u16).to_be_bytes());
        stream.extend(std::iter::repeat(0xab).take(present));
        has_partial = true;
    }
    let segments = cut_stream(&stream, &case.cuts, &case.pauses);
    let server_closes = closer_at.is_some();
    let trailing_after_closer = closer_at.map(|c| c + 1 < requests.len() || has_partial).unwrap_or(false);

    // statistics
    let split_frames = frame_bounds
        .iter()
        .filter(|(s, e)| {
            let mut pos = 0;
            segments.iter().any(|(seg, _)| {
                pos += seg.len();
                pos > *s && pos < *e
            })
        })
        .count();
    let pipelined = requests.len() >= 2;
    st.class_n("tcp-requests", requests.len() as u64);
    st.class_n("tcp-frames-split-across-segments", split_frames as u64);
    if closer_at.is_some() {
        st.class("tcp-batch-with-a-response-less-request");
    }
    if stream.len() > 65_536 {
        st.class("tcp-batch-of-more-than-64-KiB");
        if frame_bounds.iter().any(|(_, e)| (65_535..=65_538).contains(e) || *e == 131_072) && frame_bounds.last().map_or(false, |(_, e)| *e > 65_538) {
            st.class("tcp-request-ending-at-stream-offset-65536-with-more-behind-it");
        }
    }
    for item in &case.tcp {
        if let Item::Padded(_, l) = item {
            st.class("tcp-request-padded-to-a-large-length");
            if (*l as u32 + 5).is_power_of_two() || (0..=9).any(|d| (*l as u32 + 5 - d).is_power_of_two()) || *l >= 65531 {
                st.class("tcp-request-length-within-4-of-a-power-of-two-or-65535");
            }
        }
    }
    if trailing_after_closer {
        st.class("tcp-data-pipelined-after-the-response-less-request");
    }
    if has_partial {
        st.class("tcp-batch-ending-in-an-incomplete-frame");
    }
    if split_frames >= 1 && pipelined {
        st.nontrivial(&(&stream, &segments.iter().map(|s| s.0.len()).collect::<Vec<_>>()), || {
            json!({"provider": CONFIGS[case.cfg as usize % CONFIGS.len()].name, "requests": requests.len(),
                   "segment_lengths": segments.iter().map(|s| s.0.len()).collect::<Vec<_>>(),
                   "frames_split": split_frames, "response_less_at": closer_at})
        });
    }

    let describe = |o: &TcpOutcome| {
        format!(
            "provider {}; {} requests (response-less at {:?}{}), segments {:?}; received {} frames, residue {} octets, stream end {:?}{}; expected {} responses",
            CONFIGS[case.cfg as usize % CONFIGS.len()].name,
            requests.len(),
            closer_at,
            if has_partial { ", then an incomplete frame" } else { "" },
            segments.iter().map(|s| s.0.len()).collect::<Vec<_>>(),
            o.frames.len(),
            o.residue.len(),
            o.end,
            if o.half_closed { " after the client half-closed" } else { "" },
            expected.len()
        )
    };

    let mut last_problem: Option<Fail> = None;
    let attempts = if TIMEOUT_FAILURE_CONFIRMED.load(std::sync::atomic::Ordering::SeqCst) { 1 } else { 3 };
    for attempt in 0..attempts {
        st.eval();
        let o = match tcp_exchange(port, &segments, expected.len(), server_closes) {
            Ok(o) => o,
            Err(e) => {
                st.discard("tcp-client-io-error");
                last_problem = Some(Fail::new("tcp-connect-failed", format!("cannot talk to the provider: {e}")));
                continue;
            }
        };
        // Content problems are deterministic: report at once.
        for (i, f) in o.frames.iter().enumerate() {
            match expected.get(i) {
                Some(e) => ensure!(
                    same_response(f, e),
                    "tcp-response-differs",
                    "{}: response #{i} differs from the server's response to that request alone\n got      {}\n expected {}\n request  {}",
                    describe(&o), hex(f), hex(e), hex(&requests[i])
                ),
                None => fail!(
                    "tcp-extra-response",
                    "{}: an extra frame {} arrived after the last expected response",
                    describe(&o), hex(f)
                ),
            }
        }
        ensure!(
            o.residue.is_empty() || o.end == End::Timeout,
            "tcp-broken-framing",
            "{}: the stream ended inside a frame ({} stray octets: {})",
            describe(&o), o.residue.len(), hex(&o.residue[..o.residue.len().min(40)])
        );
        if o.frames.len() == expected.len() && o.end != End::Timeout {
            if server_closes && o.half_closed {
                // cannot happen: half-close is only used when the server is not expected to close
            }
            if o.close_wait_ms > 1500 {
                st.class("tcp-slow-close");
            }
            if attempt > 0 {
                st.discard("tcp-exchange-succeeded-on-retry");
            }
            return Ok(());
        }
        // Fewer responses than expected, or the stream did not end.
        if trailing_after_closer && o.end != End::Timeout && o.frames.len() < expected.len() {
            // The server closed with unread pipelined data pending.  The kernel then
            // sends RST and throws away whatever is still in the server's send queue
            // (a response held back by Nagle's algorithm) or unread at the client.
            // The client may see this as ECONNRESET, or as EOF when its writer got
            // the error first.  Not judged (counted); batches whose response-less
            // request comes last do not have this problem and are judged strictly.
            st.discard("tcp-reset-with-pipelined-data-after-close");
            return Ok(());
        }
        let (sig, what) = if o.frames.len() < expected.len() {
            if o.end == End::Timeout {
                ("tcp-response-missing", "a response did not arrive within 3 s")
            } else {
                ("tcp-closed-before-all-responses", "the connection was closed before every request was answered")
            }
        } else if server_closes {
            ("tcp-connection-not-closed-after-unanswered-request", "the connection was still open 3 s after a request that gets no response")
        } else {
            ("tcp-connection-not-closed-after-client-eof", "the connection was still open 3 s after the client half-closed")
        };
        last_problem = Some(Fail::new(sig, format!("{}: {what}", describe(&o))));
        if o.end != End::Timeout {
            // not a timing matter
            break;
        }
        st.discard("tcp-timeout-retried");
        if attempt + 1 == attempts {
            TIMEOUT_FAILURE_CONFIRMED.store(true, std::sync::atomic::Ordering::SeqCst);
        }
    }
    match last_problem {
        Some(f) if f.signature == "tcp-connect-failed" => {
            eprintln!("INFRA: {}", f.detail);
            std::process::exit(2);
        }
        Some(f) => Err(f),
        None => Ok(()),
    }
}

////////////////////////////////////////////////////////////////////////
// UDP                                                                //
////////////////////////////////////////////////////////////////////////

fn check_udp(case: &Case, port: u16, twin: &Server<Cat>, payload: u16, st: &mut Stats) -> Verdict {
    if case.udp_a.is_empty() && case.udp_b.is_empty() {
        return Ok(());
    }
    let server_addr = SocketAddr::new(IpAddr::V4(Ipv4Addr::LOCALHOST), port);
    let now = now_secs();
    let mut buf = Vec::new();
    let socks = [
        UdpSocket::bind((Ipv4Addr::LOCALHOST, 0)),
        UdpSocket::bind((Ipv4Addr::LOCALHOST, 0)),
    ];
    let socks: Vec<UdpSocket> = match socks.into_iter().collect::<Result<Vec<_>, _>>() {
        Ok(s) => s,
        Err(e) => {
            eprintln!("INFRA: cannot bind client UDP sockets: {e}");
            std::process::exit(2);
        }
    };
    for s in &socks {
        let _ = s.set_read_timeout(Some(Duration::from_millis(20)));
    }
    // (socket, id, request, expected)
    struct Sent {
        sock: usize,
        id: Option<u16>,
        request: Vec<u8>,
        expected: Option<Vec<u8>>,
        got: Vec<Vec<u8>>,
    }
    let mut sent: Vec<Sent> = Vec::new();
    let mut next_id: u16 = 0x4000 | ((port as u16) & 0x0fff);
    let mut order: Vec<(usize, &Item)> = Vec::new();
    let (mut ia, mut ib) = (case.udp_a.iter(), case.udp_b.iter());
    loop {
        let a = ia.next();
        let b = ib.next();
        if a.is_none() && b.is_none() {
            break;
        }
        if let Some(a) = a {
            order.push((0, a));
        }
        if let Some(b) = b {
            order.push((1, b));
        }
    }
    for (sock, item) in order {
        let mut request = render_item(item, now);
        request.truncate(payload as usize);
        let id = if request.len() >= 2 {
            next_id = next_id.wrapping_add(1);
            request[0..2].copy_from_slice(&next_id.to_be_bytes());
            Some(next_id)
        } else {
            None
        };
        let expected = twin_response(twin, &request, false, &mut buf)?;
        sent.push(Sent { sock, id, request, expected, got: Vec::new() });
    }
    for s in &sent {
        if let Err(e) = socks[s.sock].send_to(&s.request, server_addr) {
            st.discard("udp-send-error");
            let _ = e;
        }
    }
    st.class_n("udp-requests", sent.len() as u64);
    let mut rbuf = vec![0u8; 70000];
    let mut collect = |sent: &mut Vec<Sent>, window: Duration, st: &mut Stats| -> Verdict {
        let deadline = Instant::now() + window;
        let mut quiet_since = Instant::now();
        loop {
            let mut any = false;
            for (si, sock) in socks.iter().enumerate() {
                match sock.recv_from(&mut rbuf) {
                    Ok((n, from)) => {
                        any = true;
                        let d = rbuf[..n].to_vec();
                        ensure!(
                            from == server_addr,
                            "udp-response-from-another-address",
                            "a datagram arrived from {from} instead of {server_addr}: {}",
                            hex(&d)
                        );
                        ensure!(
                            n <= payload as usize,
                            "udp-response-larger-than-payload-size",
                            "a {n}-octet datagram exceeds the configured payload size {payload}: {}",
                            hex(&d)
                        );
                        let id = if n >= 2 { Some(u16::from_be_bytes([d[0], d[1]])) } else { None };
                        let pos = sent.iter().position(|s| s.id.is_some() && s.id == id);
                        match pos {
                            Some(p) if sent[p].sock == si => sent[p].got.push(d),
                            Some(p) => fail!(
                                "udp-response-sent-to-another-client",
                                "the response to request {} (sent from client socket {}) arrived at client socket {si}",
                                hex(&sent[p].request),
                                sent[p].sock
                            ),
                            None => fail!("udp-unsolicited-datagram", "a datagram that answers no request arrived: {}", hex(&d)),
                        }
                    }
                    Err(_) => {}
                }
            }
            if any {
                quiet_since = Instant::now();
            }
            let all_in = sent.iter().all(|s| s.expected.is_none() || !s.got.is_empty());
            // keep listening a little after everything is in, to see duplicates
            if all_in && quiet_since.elapsed() > Duration::from_millis(40) {
                break;
            }
            if Instant::now() > deadline {
                break;
            }
        }
        let _ = st;
        Ok(())
    };
    collect(&mut sent, Duration::from_millis(1500), st)?;
    // requests whose response is missing are repeated (each repetition is a new request)
    for round in 0..3 {
        let missing: Vec<usize> = sent.iter().enumerate().filter(|(_, s)| s.expected.is_some() && s.got.is_empty()).map(|(i, _)| i).collect();
        if missing.is_empty() {
            break;
        }
        st.discard("udp-request-repeated");
        for i in &missing {
            let _ = socks[sent[*i].sock].send_to(&sent[*i].request, server_addr);
        }
        collect(&mut sent, Duration::from_millis(1000 + 1000 * round), st)?;
    }
    for s in &sent {
        st.eval();
        match &s.expected {
            None => ensure!(
                s.got.is_empty(),
                "udp-response-to-a-request-that-gets-none",
                "request {} must not be answered but got {}",
                hex(&s.request),
                hex(&s.got[0])
            ),
            Some(e) => {
                ensure!(
                    !s.got.is_empty(),
                    "udp-request-never-answered",
                    "request {} was sent four times and never answered (expected {})",
                    hex(&s.request),
                    hex(e)
                );
                ensure!(
                    s.got.len() == 1,
                    "udp-duplicate-response",
                    "request {} got {} response datagrams",
                    hex(&s.request),
                    s.got.len()
                );
                ensure!(
                    same_response(&s.got[0], e),
                    "udp-response-differs",
                    "request {}\n got      {}\n expected {}",
                    hex(&s.request),
                    hex(&s.got[0]),
                    hex(e)
                );
            }
        }
    }
    if sent.iter().any(|s| s.sock == 0) && sent.iter().any(|s| s.sock == 1) {
        st.class("udp-batch-from-two-client-sockets");
    }
    Ok(())
}

////////////////////////////////////////////////////////////////////////
// ORACLE                                                             //
////////////////////////////////////////////////////////////////////////

pub fn oracle(case: &Case, st: &mut Stats) -> Verdict {
    let cfg = CONFIGS[case.cfg as usize % CONFIGS.len()];
    let port = port_for(case.cfg % CONFIGS.len() as u8);
    let twin = new_server(cfg.payload);
    st.class(cfg.name);
    check_tcp(case, port, &twin, st)?;
    check_udp(case, port, &twin, cfg.payload, st)?;
    Ok(())
}

fn item() -> impl Strategy<Value = Item> {
    prop_oneof![
        12 => req_spec(20, 0.1).prop_map(Item::Req),
        2 => prop::collection::vec(any::<u8>(), 12..60).prop_map(|mut v| { v[2] &= 0x7f; Item::Raw(v) }),
        1 => (0u8..4).prop_map(Item::Closer),
    ]
}

fn tcp_item() -> impl Strategy<Value = Item> {
    let near = |c: u32| (c.saturating_sub(4)..=(c + 4).min(65535)).prop_map(|v| v as u16);
    prop_oneof![
        14 => item(),
        1 => (req_spec(20, 0.02), prop_oneof![near(512), near(1024), near(2048), near(4096), near(8192), near(16384), near(32768), near(65535), 600u16..=65535])
            .prop_map(|(r, l)| Item::Padded(r, l)),
    ]
}

fn case_strategy() -> impl Strategy<Value = Case> {
    (
        0u8..CONFIGS.len() as u8,
        prop::collection::vec(tcp_item(), 1..=12),
        prop::collection::vec(any::<u16>(), 0..10),
        prop::collection::vec(0u8..4, 0..12),
        prop::option::weighted(0.1, (any::<u16>(), 0u8..40)),
        prop::collection::vec(item(), 0..5),
        prop::collection::vec(item(), 0..4),
        // a response-less request is put last in most batches that have one (a close with
        // unread data behind it makes the kernel send RST, which hides what follows)
        any::<bool>(),
    )
        .prop_map(|(cfg, mut tcp, cuts, pauses, partial_tail, udp_a, udp_b, closer_last)| {
            if closer_last {
                if let Some(p) = tcp.iter().position(|i| matches!(i, Item::Closer(_))) {
                    let c = tcp.remove(p);
                    tcp.push(c);
                }
            }
            Case { cfg, tcp, cuts, pauses, partial_tail, udp_a, udp_b }
        })
}

/// TCP batches of 1-3 requests padded to lengths around powers of two and 65,535, half of them
/// against the Tokio provider, written in at most three segments without pauses.
fn large_request_case() -> BoxedStrategy<Case> {
    let near = |c: u32| (c.saturating_sub(4)..=(c + 4).min(65535)).prop_map(|v| v as u16);
    let padded = (req_spec(20, 0.02), prop_oneof![near(512), near(1024), near(2048), near(4096), near(8192), near(16384), near(32768), near(65535)]).prop_map(|(r, l)| Item::Padded(r, l));
    let plain = (
        prop_oneof![4 => Just(4u8), 1 => Just(0u8), 1 => Just(1u8), 1 => Just(2u8), 1 => Just(3u8)],
        prop::collection::vec(prop_oneof![4 => padded.boxed(), 1 => req_spec(20, 0.02).prop_map(Item::Req).boxed()], 1..=3),
        prop::collection::vec(any::<u16>(), 0..3),
    )
        .prop_map(|(cfg, tcp, cuts)| Case { cfg, tcp, cuts, pauses: vec![], partial_tail: None, udp_a: vec![], udp_b: vec![] });
    // more than 64 KiB of pipelined requests in which a request ends exactly at (or one octet around) stream
    // offset 65,536 or 65,537 - the size of a receive buffer that holds one maximal frame - followed by more
    // requests; written in two or three segments
    let around_64k = (
        0u8..5,
        req_spec(20, 0.0001),
        req_spec(20, 0.0001),
        20_000u32..45_000,
        prop_oneof![Just(65_535u32), Just(65_536u32), Just(65_537u32), Just(65_538u32), Just(131_072u32)],
        prop::collection::vec(req_spec(20, 0.02).prop_map(Item::Req), 1..=3),
        prop::collection::vec(any::<u16>(), 1..3),
    )
        .prop_map(|(cfg, a, b, first_len, boundary, mut rest, cuts)| {
            // frames: (2 + first_len) + (2 + second_len) = boundary (for 131,072: a third filler in between)
            let mut tcp = vec![Item::Padded(a.clone(), first_len as u16)];
            let mut used = 2 + first_len;
            if boundary > 100_000 {
                tcp.push(Item::Padded(b.clone(), 60_000));
                used += 2 + 60_000;
            }
            let second = boundary - used - 2;
            tcp.push(Item::Padded(b, second.min(65_535) as u16));
            tcp.append(&mut rest);
            Case { cfg, tcp, cuts, pauses: vec![], partial_tail: None, udp_a: vec![], udp_b: vec![] }
        });
    prop_oneof![5 => plain.boxed(), 1 => around_64k.boxed()].boxed()
}

pub fn run(ctx: &Ctx, report: &mut Report) {
    report.rule = "TCP batches with at least two pipelined requests of which at least one frame is split across write segments; distinct by (octet stream, segment lengths)".to_string();
    report.assumptions = vec![
        "one fixed generated catalog per run (a provider outlives many cases); RRL off and no TSIG keys so that responses are a pure function of the request".to_string(),
        "the OS scheduler is not owned: segmentation, pipelining and pauses are generated, thread timing is not".to_string(),
        "a client-side timeout (3 s; the server's own read timeout is 5 s) is repeated on a fresh connection and reported only if it happens three times in a row; \
         a close with unread pipelined data behind it (kernel RST) is not judged"
            .to_string(),
        "evaluations = TCP exchanges + UDP requests".to_string(),
    ];
    let cases = ctx.tier.pick(1500, 40_000);
    // each shard starts its own providers (thread-local) and shuts them down when it ends
    run_prop(ctx, report, PropSpec { name: "io-providers", cases, max_shrink_iters: 120 }, case_strategy, oracle);
    // requests of 508 ... 65,535 octets at the lengths where receive buffers are sized or grown
    run_prop(ctx, report, PropSpec { name: "io-large-requests", cases: ctx.tier.pick(2500, 60_000), max_shrink_iters: 120 }, large_request_case, oracle);
    stop_all_providers();
    // slow clients: requests that take seconds to arrive, each within the read timeout (mostly sleeping: 32 at a time)
    let slow_ctx = Ctx { id: ctx.id.clone(), tier: ctx.tier, seed: ctx.seed, shards: 32 };
    run_prop(&slow_ctx, report, PropSpec { name: "io-slow-clients", cases: ctx.tier.pick(64, 960), max_shrink_iters: 8 }, slow::slow_case, slow::oracle_slow);
    slow::stop_shared_providers();
    // back-pressure: hundreds of pipelined requests with large responses, client not reading
    // for a while (see c30bp.rs); a handful of fixed-size cases per provider
    let sub = Ctx { id: ctx.id.clone(), tier: ctx.tier, seed: ctx.seed, shards: 2 };
    run_prop(
        &sub,
        report,
        PropSpec { name: "io-backpressure", cases: ctx.tier.pick(6, 60), max_shrink_iters: 6 },
        || (any::<bool>(), prop_oneof![Just(120u16), Just(250), Just(400)], 6u8..=9, prop_oneof![Just(100u16), Just(400), Just(900)]).prop_map(|(tokio, requests, records, stall_ms)| super::c30bp::BpCase { tokio, requests, records, stall_ms }),
        super::c30bp::oracle,
    );
}

pub fn replay(check: &str, case: &serde_json::Value) -> Verdict {
    if check == "io-slow-clients" {
        let v = replay_case::<slow::SlowCase, _>(case, slow::oracle_slow);
        slow::stop_shared_providers();
        return v;
    }
    if check == "io-backpressure" {
        return replay_case::<super::c30bp::BpCase, _>(case, super::c30bp::oracle);
    }
    replay_case::<Case, _>(case, oracle)
}
