//! C25 — `$INCLUDE` behaves like textual inclusion with origin scoping.
//! Oracles: (1) the generating record list with (path, line) per record;
//! (2) metamorphic: the in-memory parser over the textual flattening.

use std::collections::BTreeMap;
use std::path::{Path, PathBuf};
use std::sync::atomic::{AtomicU64, Ordering};

use proptest::prelude::*;
use quandary::zone_file::fs::Parser as FsParser;
use serde::{Deserialize, Serialize};
use serde_json::json;
use vmodel::name::MName;
use vmodel::zonefile::{print, Ctx as PCtx, ZRec};

use crate::fw::{catch, panic_signature, run_prop, Ctx, PropSpec, Report, Stats, Verdict};
use crate::{ensure, fail};

use super::c23::{q_parse, records};

#[derive(Clone, Debug, Serialize, Deserialize, PartialEq, Eq, Hash)]
pub struct FileSpec {
    /// parent file index (ignored for file 0) and the position among the parent's record runs
    pub parent: u16,
    pub position: u16,
    /// directory components relative to the includer's directory
    pub dir: Vec<u8>,
    /// origin argument of the $INCLUDE directive
    pub origin: Option<MName>,
    /// 0 plain path, 1 quoted, 2 with escapes, 3 absolute path
    pub path_style: u8,
    pub missing: bool,
    /// record runs of this file (includes are placed between runs)
    pub runs: Vec<Vec<ZRec>>,
    pub tape: Vec<u16>,
}

#[derive(Clone, Debug, Serialize, Deserialize, PartialEq, Eq, Hash)]
pub struct Case {
    pub files: Vec<FileSpec>,
    pub max_depth: u8,
    /// set $ORIGIN at the top of the root file
    pub root_origin: Option<MName>,
    /// additional $INCLUDE directives for files that are already part of the tree
    /// (file selector, includer selector, position): the same file included more than once
    #[serde(default)]
    pub repeats: Vec<(u16, u16, u16)>,
    /// the root file is opened through a path that goes through a symbolic link to its directory;
    /// every path (reported and resolved) is then relative to the path as given, not to the link's target
    #[serde(default)]
    pub via_link: bool,
}

/// Files that are included from more than one place.  They are leaves (no includes of
/// their own) and are rendered in the plainest form (absolute names, explicit TTL and
/// class), so that their single text means the same records in every including context.
fn shared_files(case: &Case) -> Vec<bool> {
    let n = case.files.len();
    let mut shared = vec![false; n];
    for (f, _, _) in &case.repeats {
        let j = *f as usize % n;
        if j == 0 || case.files[j].missing {
            continue;
        }
        let has_children = (1..n).any(|k| (case.files[k].parent as usize % k) == j);
        if !has_children {
            shared[j] = true;
        }
    }
    shared
}

static COUNTER: AtomicU64 = AtomicU64::new(0);

struct Rendered {
    /// path -> contents
    files: BTreeMap<PathBuf, Vec<u8>>,
    /// expected (path, line, record), in order; stops at the first expected error
    expected: Vec<(PathBuf, usize, ZRec)>,
    /// expected to end with an error (too deep / missing file)
    error: Option<&'static str>,
    /// flattened text for the metamorphic check (None when an includer's origin is unset at an include)
    flat: Option<Vec<u8>>,
    max_nesting: usize,
    context_dependent_after_include: bool,
    repeated_includes: usize,
    /// base name of every file: usually f<j>.zone; several files in *different* directories
    /// may share the name "shared.zone" (the same relative spelling then denotes different files)
    names: Vec<String>,
    shared_name_reused: bool,
}

/// Lexical normalisation (the case's directories contain no symlinks).
fn normalize(p: &Path) -> PathBuf {
    let mut out = PathBuf::new();
    for c in p.components() {
        match c {
            std::path::Component::ParentDir => {
                out.pop();
            }
            std::path::Component::CurDir => {}
            other => out.push(other.as_os_str()),
        }
    }
    out
}

/// Assigns base names: a file whose position selector is a multiple of 3 is called
/// "shared.zone" unless another file already occupies that path.
fn assign_names(case: &Case, root: &Path) -> (Vec<String>, bool) {
    let n = case.files.len();
    let mut names: Vec<String> = (0..n).map(|j| format!("f{j}.zone")).collect();
    let mut paths: Vec<PathBuf> = vec![root.to_path_buf(); n];
    let mut used: std::collections::BTreeSet<PathBuf> = std::collections::BTreeSet::new();
    used.insert(normalize(root));
    let mut shared_count = 0;
    let repeated = shared_files(case);
    for j in 1..n {
        let parent = case.files[j].parent as usize % j;
        let dir = String::from_utf8_lossy(&case.files[j].dir).to_string();
        let base = paths[parent].parent().unwrap().to_path_buf();
        let with = |name: &str| if dir.is_empty() { base.join(name) } else { base.join(&dir).join(name) };
        // (files that are included repeatedly, possibly from other directories, keep their unique names)
        if case.files[j].position % 3 == 0 && !repeated[j] {
            let cand = with("shared.zone");
            if used.insert(normalize(&cand)) {
                names[j] = "shared.zone".to_string();
                paths[j] = cand;
                shared_count += 1;
                continue;
            }
        }
        let p = with(&names[j]);
        used.insert(normalize(&p));
        paths[j] = p;
    }
    (names, shared_count >= 2)
}

fn origin_text(o: &MName) -> String {
    vmodel::zonefile::absolute_name_text(o)
}

fn escape_path(p: &str, style: u8) -> String {
    match style % 4 {
        1 => format!("\"{}\"", p.replace('\\', "\\\\").replace('"', "\\\"")),
        // unquoted with a decimal and a character escape ('z' = \122, 'o' = \o)
        2 => p.replace('z', "\\122").replace('o', "\\o"),
        _ => p.to_string(),
    }
}

/// Renders file `idx` (whose path is `path`) starting from context `ctx`; returns false if an expected error ended everything.
#[allow(clippy::too_many_arguments)]
fn render_file(case: &Case, idx: usize, path: &Path, level: usize, ctx: &mut PCtx, out: &mut Rendered, flat: &mut Vec<u8>, flat_ok: &mut bool) -> bool {
    let spec = &case.files[idx];
    out.max_nesting = out.max_nesting.max(level);
    // children of this file in order of position
    let shared = shared_files(case);
    // (file, slot): the primary include of every child plus the repeated includes of shared files
    let mut children: Vec<(usize, usize)> = (1..case.files.len())
        .filter(|&j| (case.files[j].parent as usize % j) == idx)
        .map(|j| (j, case.files[j].position as usize % (spec.runs.len() + 1)))
        .collect();
    if !shared[idx] {
        for (f, p, pos) in &case.repeats {
            let j = *f as usize % case.files.len();
            let parent = *p as usize % case.files.len();
            if shared[j] && parent == idx && parent != j && !shared[parent] {
                children.push((j, *pos as usize % (spec.runs.len() + 1)));
                out.repeated_includes += 1;
            }
        }
    }
    children.sort_by_key(|&(j, slot)| (slot, j));
    let mut text: Vec<u8> = Vec::new();
    let mut line = 1usize;
    let mut child_iter = children.into_iter().peekable();
    let mut tape_pos = 0usize;
    for slot in 0..=spec.runs.len() {
        // includes placed before run `slot`
        while let Some(&(j, child_slot)) = child_iter.peek() {
            if child_slot != slot {
                break;
            }
            child_iter.next();
            let child = &case.files[j];
            let dir = String::from_utf8_lossy(&child.dir).to_string();
            let rel = if dir.is_empty() { out.names[j].clone() } else { format!("{dir}/{}", out.names[j]) };
            let child_path = path.parent().unwrap().join(&rel);
            let written = if child.path_style % 4 == 3 { child_path.to_string_lossy().to_string() } else { rel.clone() };
            let mut directive = format!("$INCLUDE {}", escape_path(&written, child.path_style));
            let includer_origin = ctx.origin.clone();
            if let Some(o) = &child.origin {
                directive.push(' ');
                directive.push_str(&origin_text(o));
            }
            directive.push('\n');
            text.extend_from_slice(directive.as_bytes());
            let include_line = line;
            line += 1;
            let _ = include_line;
            // expected errors
            if level >= case.max_depth as usize {
                out.error = Some("includes nested too deeply");
                out.files.insert(path.to_path_buf(), text);
                return false;
            }
            if child.missing {
                out.error = Some("included file missing");
                out.files.insert(path.to_path_buf(), text);
                return false;
            }
            // the included file starts with the includer's context, the origin possibly replaced
            let mut child_ctx = ctx.clone();
            if let Some(o) = &child.origin {
                child_ctx.origin = Some(o.clone());
            }
            // flattening: $ORIGIN <effective origin> ... contents ... $ORIGIN <includer's origin>
            match (&child_ctx.origin, &includer_origin) {
                (Some(eff), Some(_)) => flat.extend_from_slice(format!("$ORIGIN {}\n", origin_text(eff)).as_bytes()),
                (None, None) => {}
                _ => *flat_ok = false,
            }
            if shared[j] {
                // plain rendering, independent of the including context
                out.max_nesting = out.max_nesting.max(level + 1);
                let mut pctx = PCtx::default();
                let mut text_j: Vec<u8> = Vec::new();
                let mut line_j = 1usize;
                for run in &child.runs {
                    if run.is_empty() {
                        continue;
                    }
                    let mut p = print(run, &[], &mut pctx);
                    if !p.text.ends_with(b"\n") {
                        p.text.extend_from_slice(b"\n");
                    }
                    let n_lines = p.text.iter().filter(|b| **b == b'\n').count();
                    for (l, r) in p.expected {
                        out.expected.push((child_path.clone(), line_j + l - 1, r));
                    }
                    line_j += n_lines;
                    flat.extend_from_slice(&p.text);
                    text_j.extend_from_slice(&p.text);
                }
                out.files.insert(child_path.clone(), text_j);
                if pctx.prev_owner.is_some() {
                    child_ctx.prev_owner = pctx.prev_owner;
                    child_ctx.prev_ttl = pctx.prev_ttl;
                    child_ctx.prev_class = pctx.prev_class;
                }
            } else if !render_file(case, j, &child_path, level + 1, &mut child_ctx, out, flat, flat_ok) {
                out.files.insert(path.to_path_buf(), text);
                return false;
            }
            if let Some(o) = &includer_origin {
                flat.extend_from_slice(format!("$ORIGIN {}\n", origin_text(o)).as_bytes());
            }
            // afterwards: the included file's context, with the includer's origin restored
            let child_origin_must_not_leak = includer_origin.is_none() && child_ctx.origin.is_some();
            *ctx = PCtx {
                origin: includer_origin,
                ..child_ctx
            };
            // The includer had no origin and the included file ended with one: in one such case in
            // three the next line of the includer has a relative owner, which is an error here
            // (no origin is in effect again); everything before it must still be produced.
            if child_origin_must_not_leak && child.position % 3 == 1 {
                text.extend_from_slice(b"origin-leak-probe 300 IN TXT \"x\"\n");
                *flat_ok = false;
                out.error = Some("relative name where no origin is in effect");
                out.files.insert(path.to_path_buf(), text);
                return false;
            }
        }
        if slot < spec.runs.len() {
            let run = &spec.runs[slot];
            if run.is_empty() {
                continue;
            }
            let before = (ctx.prev_owner.clone(), ctx.prev_ttl, ctx.prev_class, ctx.default_ttl);
            let tape = &spec.tape[tape_pos.min(spec.tape.len())..];
            tape_pos += 60;
            let mut p = print(run, tape, ctx);
            if !p.text.ends_with(b"\n") {
                p.text.extend_from_slice(b"\n");
            }
            // did the first record after an include lean on inherited context?
            if slot > 0 && (p.features.contains("omitted-owner") || p.features.contains("omitted-ttl") || p.features.contains("omitted-class") || p.features.contains("relative-name")) && before.0.is_some() {
                out.context_dependent_after_include = true;
            }
            let n_lines = p.text.iter().filter(|b| **b == b'\n').count();
            for (l, r) in p.expected {
                out.expected.push((path.to_path_buf(), line + l - 1, r));
            }
            line += n_lines;
            flat.extend_from_slice(&p.text);
            text.extend_from_slice(&p.text);
        }
    }
    out.files.insert(path.to_path_buf(), text);
    true
}

pub fn oracle(case: &Case, st: &mut Stats) -> Verdict {
    if case.files.is_empty() {
        return Ok(());
    }
    st.eval();
    let n = COUNTER.fetch_add(1, Ordering::Relaxed);
    let base = PathBuf::from(format!("/verif/.work/c25/{}-{n}", std::process::id()));
    let _ = std::fs::remove_dir_all(&base);
    std::fs::create_dir_all(&base).map_err(|e| crate::fw::Fail::new("infra", format!("cannot create {base:?}: {e}")))?;
    // the root file sits three levels down so that ".." components stay inside the case's own directory
    let real_dir = base.join("l1/l2/l3/l4/l5/l6");
    let root = if case.via_link {
        // base/k1/k2/k3/k4/k5/lnk -> the real directory (same depth, so ".." components behave alike)
        let link_parent = base.join("l1/l2/l3/l4/l5");
        std::fs::create_dir_all(&real_dir).map_err(|e| crate::fw::Fail::new("infra", format!("cannot create {real_dir:?}: {e}")))?;
        let link = link_parent.join("lnk");
        let _ = std::fs::remove_file(&link);
        std::os::unix::fs::symlink("l6", &link).map_err(|e| crate::fw::Fail::new("infra", format!("cannot create the symbolic link {link:?}: {e}")))?;
        st.class("root-file-opened-through-a-symbolic-link-to-its-directory");
        link.join("root.zone")
    } else {
        real_dir.join("root.zone")
    };
    let mut out = Rendered {
        files: BTreeMap::new(),
        expected: Vec::new(),
        error: None,
        flat: None,
        max_nesting: 0,
        context_dependent_after_include: false,
        repeated_includes: 0,
        names: Vec::new(),
        shared_name_reused: false,
    };
    // (lexical path normalisation, which the naming uses, is not valid across a symbolic link)
    let (names, reused) = if case.via_link { ((0..case.files.len()).map(|j| format!("f{j}.zone")).collect(), false) } else { assign_names(case, &root) };
    out.names = names;
    out.shared_name_reused = reused;
    let mut ctx = PCtx::default();
    let mut flat: Vec<u8> = Vec::new();
    let mut flat_ok = true;
    let mut prefix: Vec<u8> = Vec::new();
    if let Some(o) = &case.root_origin {
        prefix = format!("$ORIGIN {}\n", origin_text(o)).into_bytes();
        ctx.origin = Some(o.clone());
        flat.extend_from_slice(&prefix);
    }
    let complete = render_file(case, 0, &root, 0, &mut ctx, &mut out, &mut flat, &mut flat_ok);
    // the root file got its text without the $ORIGIN prefix: prepend it and shift the root's line numbers
    if !prefix.is_empty() {
        if let Some(t) = out.files.get_mut(&root) {
            let mut v = prefix.clone();
            v.extend_from_slice(t);
            *t = v;
        }
        for e in out.expected.iter_mut() {
            if e.0 == root {
                e.1 += 1;
            }
        }
    }
    if complete && flat_ok {
        out.flat = Some(flat);
    }
    for (p, content) in &out.files {
        if let Some(dir) = p.parent() {
            let _ = std::fs::create_dir_all(dir);
        }
        std::fs::write(p, content).map_err(|e| crate::fw::Fail::new("infra", format!("cannot write {p:?}: {e}")))?;
    }
    let describe = || {
        let mut s = String::new();
        for (p, c) in &out.files {
            s.push_str(&format!("--- {} ---\n{}", p.strip_prefix(&base).unwrap_or(p).display(), String::from_utf8_lossy(c)));
        }
        s
    };
    // run the file-system parser
    let res = catch(|| {
        let parser = FsParser::open(&root, case.max_depth as usize).map_err(|e| format!("open: {e}"))?;
        let mut got: Vec<(PathBuf, usize, Vec<u8>, u32, u16, u16, Vec<u8>)> = Vec::new();
        let mut err: Option<String> = None;
        let mut after = 0usize;
        for item in parser {
            if err.is_some() {
                after += 1;
                continue;
            }
            match item {
                Ok(l) => got.push((
                    l.path.to_path_buf(),
                    l.number,
                    l.record.owner.wire_repr().to_vec(),
                    u32::from(l.record.ttl),
                    u16::from(l.record.class),
                    u16::from(l.record.rr_type),
                    l.record.rdata.octets().to_vec(),
                )),
                Err(e) => err = Some(format!("{e}")),
            }
        }
        Ok::<_, String>((got, err, after))
    });
    let _ = std::fs::remove_dir_all(&base);
    let (got, err, after) = match res {
        Err(p) => fail!(panic_signature(&p), "the file-system parser panicked: {p}\n{}", describe()),
        Ok(Err(e)) => fail!("infra", "{e}"),
        Ok(Ok(v)) => v,
    };
    ensure!(after == 0, "output-after-error", "{after} items after the first error\n{}", describe());
    // WKS bit order is a known deviation (C23): compare WKS RDATA leniently here
    for (i, (path, line, rec)) in out.expected.iter().enumerate() {
        let want = (path.clone(), *line, rec.owner.wire(), rec.ttl, rec.class, rec.data.rtype(), rec.data.wire());
        match got.get(i) {
            Some(g) => {
                let same = *g == want || (rec.data.wire_wks_lsb_first().as_deref() == Some(&g.6[..]) && (&g.0, g.1, &g.2, g.3, g.4, g.5) == (&want.0, want.1, &want.2, want.3, want.4, want.5));
                if !same {
                    let what = if g.0 != want.0 {
                        "path"
                    } else if g.1 != want.1 {
                        "line"
                    } else if g.2 != want.2 {
                        "owner"
                    } else if g.3 != want.3 {
                        "ttl"
                    } else if g.4 != want.4 {
                        "class"
                    } else {
                        "type-or-rdata"
                    };
                    fail!(
                        format!("include-record-mismatch-{what}"),
                        "record #{i}: got {:?} line {} owner {} ttl {} class {} type {}; expected {:?} line {} owner {} ttl {} class {} type {}\n{}",
                        g.0.strip_prefix(&base).unwrap_or(&g.0),
                        g.1,
                        MName::from_wire(&g.2).map(|n| n.0.to_text()).unwrap_or_default(),
                        g.3,
                        g.4,
                        g.5,
                        want.0.strip_prefix(&base).unwrap_or(&want.0),
                        want.1,
                        rec.owner.to_text(),
                        want.3,
                        want.4,
                        want.5,
                        describe()
                    );
                }
            }
            None => fail!("include-record-missing", "record #{i} ({}) was not produced; error: {err:?}\n{}", rec.owner.to_text(), describe()),
        }
    }
    ensure!(got.len() == out.expected.len(), "include-extra-records", "{} records produced, {} expected\n{}", got.len(), out.expected.len(), describe());
    match (out.error, &err) {
        (Some(e), None) => fail!(format!("include-error-missing: {e}"), "expected an error ({e}) but parsing succeeded\n{}", describe()),
        (None, Some(e)) => fail!("include-unexpected-error", "unexpected error: {e}\n{}", describe()),
        _ => {}
    }
    // metamorphic relation: the flattened text parses (in memory) to the same records
    if let Some(flat) = &out.flat {
        let (frecs, ferr, _) = match q_parse(flat) {
            Ok(v) => v,
            Err(p) => fail!(panic_signature(&p), "the in-memory parser panicked on the flattened text: {p}"),
        };
        ensure!(ferr.is_none(), "flattened-text-rejected", "the flattened text does not parse: {ferr:?}\n{}", String::from_utf8_lossy(flat));
        let a: Vec<_> = frecs.iter().map(|r| (&r.1, r.2, r.3, r.4, &r.5)).collect();
        let b: Vec<_> = got.iter().map(|r| (&r.2, r.3, r.4, r.5, &r.6)).collect();
        ensure!(a == b, "include-differs-from-textual-inclusion", "the file-system parse differs from the parse of the textual flattening\n{}\n--- flattened ---\n{}", describe(), String::from_utf8_lossy(flat));
        st.class("metamorphic-compared");
    } else if complete {
        st.discard("flattening-needs-an-origin-reset-to-unset");
    }
    st.class(&format!("nesting-depth-{}", out.max_nesting));
    if out.error.is_some() {
        st.class(out.error.unwrap());
    }
    if out.context_dependent_after_include {
        st.class("context-dependent-record-after-include");
    }
    if out.shared_name_reused && complete {
        st.class("same-relative-spelling-for-different-files");
    }
    if out.repeated_includes > 0 && complete {
        st.class("a-file-included-more-than-once");
    }
    if out.max_nesting >= 2 && out.context_dependent_after_include {
        st.nontrivial(case, || json!({"files": out.files.len(), "nesting": out.max_nesting, "layout": describe()}));
    }
    Ok(())
}

fn file_spec() -> impl Strategy<Value = FileSpec> {
    (
        any::<u16>(),
        any::<u16>(),
        prop_oneof![3 => Just(b"".to_vec()), 2 => Just(b"sub".to_vec()), 1 => Just(b"sub/deeper".to_vec()), 1 => Just(b"..".to_vec())],
        prop::option::weighted(0.4, prop_oneof![crate::gen::pool_name(3), crate::gen::arb_name()]),
        0u8..4,
        prop::bool::weighted(0.04),
        prop::collection::vec(prop_oneof![1 => Just(Vec::new()), 4 => records()], 1..4),
        prop::collection::vec(any::<u16>(), 0..200),
    )
        .prop_map(|(parent, position, dir, origin, path_style, missing, runs, tape)| FileSpec { parent, position, dir, origin, path_style, missing, runs, tape })
}

fn case_strategy() -> impl Strategy<Value = Case> {
    (
        prop::collection::vec(file_spec(), 1..7),
        0u8..5,
        prop::option::weighted(0.7, crate::gen::pool_name(3)),
        prop_oneof![1 => Just(Vec::new()).boxed(), 1 => prop::collection::vec((any::<u16>(), any::<u16>(), any::<u16>()), 1..4).boxed()],
        prop::bool::weighted(0.15),
    )
        .prop_map(|(files, max_depth, root_origin, repeats, via_link)| Case { files, max_depth, root_origin, repeats, via_link })
}

pub fn run(ctx: &Ctx, report: &mut Report) {
    let _ = std::fs::remove_dir_all("/verif/.work/c25");
    report.rule = "trees of 1-6 zone files written to a scratch directory (relative paths into sub-directories and '..', quoted / escaped / \
        absolute paths, optional origin argument, 1-3 record runs per file rendered by the independent printer so that records after an \
        include lean on inherited owner/TTL/class/origin, $ORIGIN/$TTL inside includes), depth limits 0-4, occasionally a missing file. \
        Oracle 1: the file-system parser yields exactly the generating records with (path, line), then an error iff nesting exceeds the \
        limit or a file is missing, and nothing after the error. Oracle 2 (metamorphic): the in-memory parser over the textual flattening \
        ($ORIGIN <effective origin> + contents + $ORIGIN <includer's origin>) yields the same records. Non-trivial = tree with nesting >= 2 \
        and a context-dependent record right after an include."
        .into();
    report.assumptions.push("scratch files under /verif/.work/c25 (removed after every case)".into());
    run_prop(ctx, report, PropSpec { name: "include-trees", cases: ctx.tier.pick(6_000, 120_000), max_shrink_iters: 2000 }, case_strategy, oracle);
    let _ = std::fs::remove_dir_all("/verif/.work/c25");
}

pub fn replay(_check: &str, case: &serde_json::Value) -> Verdict {
    crate::fw::replay_case::<Case, _>(case, oracle)
}
