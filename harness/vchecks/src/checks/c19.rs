//! C19 — RDATA equality is an equivalence and RRsets de-duplicate by it
//! (oracle: vmodel::rdata::equal).

use proptest::prelude::*;
use quandary::class::Class;
use quandary::rr::{Rdata, RdataSetOwned, Type};
use serde::{Deserialize, Serialize};
use serde_json::json;
use vmodel::rdata as mr;

use crate::fw::{catch, panic_signature, run_prop, Ctx, PropSpec, Report, Stats, Verdict};
use crate::gen::{flip_case, pick};
use crate::msggen::{gen_name, valid_rdata, FieldSpec};
use crate::{ensure, fail};

fn hex(b: &[u8]) -> String {
    b.iter().map(|x| format!("{x:02x}")).collect()
}

/// A variation applied to a base RDATA.
#[derive(Clone, Debug, Serialize, Deserialize, PartialEq, Eq, Hash)]
pub enum Var {
    Exact,
    FlipCase(u64),
    Junk(Vec<u8>),
    DropLast(u8),
    FlipCaseJunk(u64, Vec<u8>),
    /// change one octet of the flattened RDATA (selector, xor value)
    Xor(u16, u8),
    /// insert junk after the first embedded name
    JunkAfterFirstName(Vec<u8>),
    /// flip case of the names and change one fixed-field octet
    FlipCaseXorFixed(u64, u16, u8),
    /// flip case of the first name and write every later name as a compression pointer into the
    /// first one (offset selector): malformed as stored RDATA, so equality must be octet-wise
    PointerForLaterNames(u64, u8),
}

#[derive(Clone, Debug, Serialize, Deserialize, PartialEq, Eq, Hash)]
pub struct Family {
    pub class: u16,
    pub rtype: u16,
    pub base: Vec<FieldSpec>,
    pub vars: Vec<Var>,
}

fn render(base: &[FieldSpec], var: &Var) -> Vec<u8> {
    let flat = |fields: &[FieldSpec], mask: Option<u64>, junk_after_first: Option<&[u8]>, xor_fixed: Option<(u16, u8)>| -> Vec<u8> {
        let mut out = Vec::new();
        let mut first_name_done = false;
        let fixed_total: usize = fields.iter().map(|f| if let FieldSpec::Bytes(b) = f { b.len() } else { 0 }).sum();
        let mut fixed_seen = 0usize;
        for f in fields {
            match f {
                FieldSpec::Bytes(b) => {
                    let mut b = b.clone();
                    if let Some((sel, x)) = xor_fixed {
                        if fixed_total > 0 {
                            let target = pick(sel, fixed_total);
                            if target >= fixed_seen && target < fixed_seen + b.len() {
                                b[target - fixed_seen] ^= if x == 0 { 0x20 } else { x };
                            }
                        }
                    }
                    fixed_seen += b.len();
                    out.extend_from_slice(&b);
                }
                FieldSpec::Name(n, _) => {
                    let n = match mask {
                        Some(m) => flip_case(n, m),
                        None => n.clone(),
                    };
                    out.extend_from_slice(&n.wire());
                    if !first_name_done {
                        first_name_done = true;
                        if let Some(j) = junk_after_first {
                            out.extend_from_slice(j);
                        }
                    }
                }
            }
        }
        out
    };
    if let Var::PointerForLaterNames(mask, off_sel) = var {
        let mut out = Vec::new();
        let mut first: Option<(usize, Vec<usize>)> = None; // (start, label offsets)
        for f in base {
            match f {
                FieldSpec::Bytes(b) => out.extend_from_slice(b),
                FieldSpec::Name(n, _) => match &first {
                    None => {
                        let n = flip_case(n, *mask);
                        let start = out.len();
                        let mut offs = Vec::new();
                        let mut o = start;
                        for l in &n.labels {
                            offs.push(o);
                            o += 1 + l.len();
                        }
                        offs.push(o); // the root label
                        out.extend_from_slice(&n.wire());
                        first = Some((start, offs));
                    }
                    Some((_, offs)) => {
                        let t = offs[*off_sel as usize % offs.len()];
                        out.push(0xc0 | (t >> 8) as u8);
                        out.push(t as u8);
                    }
                },
            }
        }
        return out;
    }
    match var {
        Var::Exact => flat(base, None, None, None),
        Var::FlipCase(m) => flat(base, Some(*m), None, None),
        Var::Junk(j) => {
            let mut v = flat(base, None, None, None);
            v.extend_from_slice(j);
            v
        }
        Var::DropLast(n) => {
            let mut v = flat(base, None, None, None);
            let keep = v.len().saturating_sub(*n as usize);
            v.truncate(keep);
            v
        }
        Var::FlipCaseJunk(m, j) => {
            let mut v = flat(base, Some(*m), None, None);
            v.extend_from_slice(j);
            v
        }
        Var::Xor(sel, x) => {
            let mut v = flat(base, None, None, None);
            if !v.is_empty() {
                let i = pick(*sel, v.len());
                v[i] ^= if *x == 0 { 0x20 } else { *x };
            }
            v
        }
        Var::JunkAfterFirstName(j) => flat(base, None, Some(j), None),
        Var::FlipCaseXorFixed(m, sel, x) => flat(base, Some(*m), None, Some((*sel, *x))),
        Var::PointerForLaterNames(..) => unreachable!(),
    }
}

fn var_strategy() -> impl Strategy<Value = Var> {
    let junk = || prop::collection::vec(prop_oneof![Just(0u8), Just(b'a'), Just(b'A'), any::<u8>()], 1..3);
    prop_oneof![
        3 => Just(Var::Exact),
        5 => any::<u64>().prop_map(Var::FlipCase),
        2 => junk().prop_map(Var::Junk),
        1 => (1u8..3).prop_map(Var::DropLast),
        3 => (any::<u64>(), junk()).prop_map(|(m, j)| Var::FlipCaseJunk(m, j)),
        2 => (any::<u16>(), prop_oneof![2 => Just(0x20u8), 1 => Just(1u8), 2 => any::<u8>()]).prop_map(|(s, x)| Var::Xor(s, x)),
        1 => junk().prop_map(Var::JunkAfterFirstName),
        2 => (prop_oneof![Just(0u64), any::<u64>()], 0u8..4).prop_map(|(m, o)| Var::PointerForLaterNames(m, o)),
        3 => (prop_oneof![1 => Just(0u64), 2 => any::<u64>()], any::<u16>(), prop_oneof![2 => Just(0x20u8), 1 => Just(1u8), 2 => any::<u8>()]).prop_map(|(m, s, x)| Var::FlipCaseXorFixed(m, s, x)),
    ]
}

/// Bases biased to name-bearing types, in several classes.
fn base_strategy() -> impl Strategy<Value = (u16, u16, Vec<FieldSpec>)> {
    let name = || gen_name().prop_map(|n| FieldSpec::Name(n, 0));
    let b = |n: usize| prop::collection::vec(prop_oneof![2 => any::<u8>(), 1 => b'A'..=b'Z', 1 => b'a'..=b'z'], n..=n).prop_map(FieldSpec::Bytes);
    let class = || prop_oneof![4 => Just(mr::C_IN), 2 => Just(mr::C_CH), 1 => Just(mr::C_HS), 1 => Just(300u16)];
    prop_oneof![
        3 => (prop_oneof![Just(mr::T_NS), Just(mr::T_CNAME), Just(mr::T_PTR), Just(mr::T_MB), Just(mr::T_MD), Just(mr::T_MF), Just(mr::T_MG), Just(mr::T_MR)], class(), name()).prop_map(|(t, c, n)| (t, c, vec![n])),
        2 => (class(), name(), name(), b(20)).prop_map(|(c, m, r, f)| (mr::T_SOA, c, vec![m, r, f])),
        // the longest RDATA of the two-name types: both names at or near 255 octets (SOA: up to 530 octets)
        1 => (class(), crate::gen::boundary_name(), crate::gen::boundary_name(), b(20), any::<bool>()).prop_map(|(c, m, r, f, soa)| if soa { (mr::T_SOA, c, vec![FieldSpec::Name(m, 0), FieldSpec::Name(r, 0), f]) } else { (mr::T_MINFO, c, vec![FieldSpec::Name(m, 0), FieldSpec::Name(r, 0)]) }),
        2 => (class(), name(), name()).prop_map(|(c, x, y)| (mr::T_MINFO, c, vec![x, y])),
        2 => (class(), b(2), name()).prop_map(|(c, p, n)| (mr::T_MX, c, vec![p, n])),
        // SRV: caseless in IN, octet-wise elsewhere
        2 => (class(), b(6), name()).prop_map(|(c, f, n)| (mr::T_SRV, c, vec![f, n])),
        // A: name + address in CH, 4 octets in IN
        2 => (class(), name(), b(2)).prop_map(|(c, n, a)| (mr::T_A, c, vec![n, a])),
        // types whose RDATA happens to look like a name but must compare octet-wise
        1 => (prop_oneof![Just(mr::T_TXT), Just(mr::T_NULL), Just(99u16), Just(mr::T_AAAA), Just(mr::T_HINFO)], class(), name()).prop_map(|(t, c, n)| (t, c, vec![n])),
        2 => valid_rdata().prop_map(|(t, c, f)| (t, c, f)),
        // large RDATA of unknown types at the sizes where length encodings change width
        1 => (prop_oneof![Just(99u16), Just(mr::T_NULL), Just(mr::T_TXT)], class(), prop_oneof![Just(127usize), Just(128), Just(255), Just(256), Just(16383), Just(16384), Just(32767), Just(32768), Just(40000), Just(65533)], any::<u8>())
            .prop_map(|(t, c, n, fill)| (t, c, vec![FieldSpec::Bytes(vec![fill; n])])),
    ]
}

fn family() -> impl Strategy<Value = Family> {
    (base_strategy(), prop::collection::vec(var_strategy(), 2..10)).prop_map(|((rtype, class, base), vars)| Family { class, rtype, base, vars })
}

fn q_equals(class: u16, rtype: u16, a: &[u8], b: &[u8]) -> Result<bool, String> {
    let ra: &Rdata = a.try_into().unwrap();
    let rb: &Rdata = b.try_into().unwrap();
    catch(|| ra.equals(rb, Class::from(class), Type::from(rtype)))
}

pub fn oracle(f: &Family, st: &mut Stats) -> Verdict {
    let members: Vec<Vec<u8>> = f.vars.iter().map(|v| render(&f.base, v)).collect();
    let (class, rtype) = (f.class, f.rtype);
    let caseless = mr::has_caseless_names(class, rtype);
    // pairwise: agreement with the reference, reflexivity, symmetry
    for (i, a) in members.iter().enumerate() {
        for (j, b) in members.iter().enumerate() {
            st.eval();
            let expect = mr::equal(class, rtype, a, b);
            let got = match q_equals(class, rtype, a, b) {
                Ok(g) => g,
                Err(p) => fail!(panic_signature(&p), "equals({}, {}) class {class} type {rtype} panicked: {p}", hex(a), hex(b)),
            };
            let va = mr::validate(class, rtype, a);
            let vb = mr::validate(class, rtype, b);
            if a != b && !expect && a.len() == b.len() && a.eq_ignore_ascii_case(b) && caseless && va && vb {
                st.class("well-formed, equal up to ASCII case, differ in a fixed field");
            }
            if a != b && expect {
                st.class("differ-octetwise-but-equal");
                st.nontrivial(&(class, rtype, a, b), || json!({"class": class, "type": rtype, "a": hex(a), "b": hex(b), "equal": true}));
            } else if caseless && va != vb {
                st.class("exactly-one-malformed");
                st.nontrivial(&(class, rtype, a, b), || json!({"class": class, "type": rtype, "a": hex(a), "b": hex(b), "one_malformed": true}));
            } else if caseless && !va && !vb && a != b && a.eq_ignore_ascii_case(b) {
                st.class("both-malformed-case-variant");
                st.nontrivial(&(class, rtype, a, b), || json!({"class": class, "type": rtype, "a": hex(a), "b": hex(b), "both_malformed": true}));
            }
            if i == j {
                ensure!(got, "equals-not-reflexive", "equals({0}, {0}) is false (class {class}, type {rtype})", hex(a));
            }
            ensure!(
                got == expect,
                if got { "equals-too-lax" } else { "equals-too-strict" },
                "equals({}, {}) = {got} for class {class} type {rtype}; reference (field-wise with case-insensitive names when both are well formed [{va}, {vb}], octet-wise otherwise) = {expect}",
                hex(a),
                hex(b)
            );
            let rev = match q_equals(class, rtype, b, a) {
                Ok(g) => g,
                Err(p) => fail!(panic_signature(&p), "equals({}, {}) panicked: {p}", hex(b), hex(a)),
            };
            ensure!(
                rev == got,
                "equals-asymmetric",
                "equals({}, {}) = {got} but equals({}, {}) = {rev} (class {class}, type {rtype})",
                hex(a),
                hex(b),
                hex(b),
                hex(a)
            );
        }
    }
    // transitivity on all triples
    let n = members.len();
    let eq = |i: usize, j: usize| q_equals(class, rtype, &members[i], &members[j]).unwrap_or(false);
    for i in 0..n {
        for j in 0..n {
            if !eq(i, j) {
                continue;
            }
            for k in 0..n {
                if eq(j, k) {
                    ensure!(
                        eq(i, k),
                        "equals-not-transitive",
                        "{} = {} = {} but the first does not equal the last (class {class}, type {rtype})",
                        hex(&members[i]),
                        hex(&members[j]),
                        hex(&members[k])
                    );
                }
            }
        }
    }
    // RdataSetOwned: keeps the first member of each class in insertion order
    let mut model: Vec<&Vec<u8>> = Vec::new();
    let mut set: Option<RdataSetOwned> = None;
    for (i, m) in members.iter().enumerate() {
        let rd: &Rdata = m.as_slice().try_into().unwrap();
        let is_new = !model.iter().any(|e| mr::equal(class, rtype, m, e));
        let inserted = match &mut set {
            None => {
                set = Some(RdataSetOwned::from(rd));
                true
            }
            Some(s) => match catch(|| s.insert(Class::from(class), Type::from(rtype), rd)) {
                Ok(b) => b,
                Err(p) => fail!(panic_signature(&p), "RdataSetOwned::insert panicked: {p}"),
            },
        };
        ensure!(
            inserted == is_new,
            "set-insert-result",
            "insert #{i} of {} returned {inserted}, reference says new = {is_new} (class {class}, type {rtype}; members so far {:?})",
            hex(m),
            model.iter().map(|e| hex(e)).collect::<Vec<_>>()
        );
        if is_new {
            model.push(m);
        }
        let got: Vec<Vec<u8>> = set.as_ref().unwrap().iter().map(|r| r.octets().to_vec()).collect();
        let want: Vec<Vec<u8>> = model.iter().map(|e| (*e).clone()).collect();
        ensure!(
            got == want,
            "set-contents",
            "after insert #{i} the set holds {:?}, reference {:?}",
            got.iter().map(|e| hex(e)).collect::<Vec<_>>(),
            want.iter().map(|e| hex(e)).collect::<Vec<_>>()
        );
    }
    if model.len() < members.len() {
        st.class("set-with-duplicate-dropped");
    }
    // from_iter agrees
    let refs: Vec<&Rdata> = members.iter().map(|m| <&Rdata>::try_from(m.as_slice()).unwrap()).collect();
    let from_iter = catch(|| RdataSetOwned::from_iter(Class::from(class), Type::from(rtype), refs.iter().copied()));
    match from_iter {
        Err(p) => fail!(panic_signature(&p), "RdataSetOwned::from_iter panicked: {p}"),
        Ok(None) => fail!("set-from-iter", "from_iter returned None for {} members", members.len()),
        Ok(Some(s)) => {
            let got: Vec<Vec<u8>> = s.iter().map(|r| r.octets().to_vec()).collect();
            let want: Vec<Vec<u8>> = model.iter().map(|e| (*e).clone()).collect();
            ensure!(got == want, "set-from-iter", "from_iter holds {} members, reference {}", got.len(), want.len());
            // clone / to_owned round trip
            let cl = s.clone();
            ensure!(cl.iter().count() == want.len(), "set-clone", "clone holds {} members", cl.iter().count());
        }
    }
    Ok(())
}

pub fn run(ctx: &Ctx, report: &mut Report) {
    report.rule = "families of 2-9 RDATA derived from one base (all name-bearing types NS/MD/MF/CNAME/MB/MG/MR/PTR/SOA/MINFO/MX, \
        SRV and A in classes IN/CH/HS/CLASS300, and look-alike nameless types) by case flips, trailing junk, truncation, \
        junk after the first name, single-octet changes; every ordered pair is compared with the reference equality, every \
        triple checked for transitivity, and the family is inserted into an RdataSetOwned step by step. evaluations = \
        ordered pairs. Non-trivial = pair that differs octet-wise but is equal, or where exactly one side is malformed, \
        or two malformed case variants."
        .into();
    report.assumptions.push("vmodel::rdata::equal (field-wise, names case-folded, when both operands are well formed; octet-wise otherwise)".into());
    run_prop(ctx, report, PropSpec { name: "family", cases: ctx.tier.pick(500_000, 5_000_000), max_shrink_iters: 8192 }, family, oracle);
}

pub fn replay(_check: &str, case: &serde_json::Value) -> Verdict {
    crate::fw::replay_case::<Family, _>(case, oracle)
}
