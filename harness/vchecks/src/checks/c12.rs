//! C12 — the message writer serialises exactly what it was given, and
//! C13 — name compression only emits valid, permitted pointers.
//!
//! One interpreter drives quandary's `Writer` and a model message in lockstep
//! over a generated operation sequence.  Every *prefix* of the sequence is
//! executed on a fresh writer and finished, and the finished octets are
//! decoded with the independent decoder (vmodel::wire) and compared with the
//! model; this also yields the exact write position after each operation,
//! which the size-limit obligations need.

use proptest::prelude::*;
use quandary::class::Class;
use quandary::message::tsig::{Algorithm, PreparedTsigRr};
use quandary::message::writer::{
    CompressionMode, Error as WErr, Hint, HintPointer, HintPointerVec, HintedName, TsigMode,
};
use quandary::message::{ExtendedRcode, Opcode, Qclass, Qtype, Question, Rcode, Writer};
use quandary::name::{LowercaseName, Name};
use quandary::rr::rdata::TimeSigned;
use quandary::rr::{Rdata, RdataSetOwned, Ttl, Type};
use serde::{Deserialize, Serialize};
use serde_json::json;
use vmodel::name::MName;
use vmodel::rdata as mr;
use vmodel::tsig as mt;
use vmodel::wire::{decode_message_opts, MessageDecode, NameDecode, RrDecode};

use crate::fw::{catch, panic_signature, run_prop, Ctx, Fail, PropSpec, Report, Stats, Verdict};
use crate::gen::{flip_case, pick, pool_name};
use crate::{ensure, fail};

fn hex(b: &[u8]) -> String {
    b.iter().map(|x| format!("{x:02x}")).collect()
}

////////////////////////////////////////////////////////////////////////
// CASE                                                               //
////////////////////////////////////////////////////////////////////////

#[derive(Clone, Copy, Debug, Serialize, Deserialize, PartialEq, Eq, Hash)]
pub enum Mode {
    Standard,
    CasePreserving,
    Disabled,
}

#[derive(Clone, Debug, Serialize, Deserialize, PartialEq, Eq, Hash)]
pub enum WField {
    Bytes(Vec<u8>),
    /// name selected from the case's name list, with a case-flip mask
    Name(u16, u64),
}

#[derive(Clone, Debug, Serialize, Deserialize, PartialEq, Eq, Hash)]
pub struct WRdata {
    pub fields: Vec<WField>,
}

/// How the owner of a record is chosen (so that hints are often legal).
#[derive(Clone, Debug, Serialize, Deserialize, PartialEq, Eq, Hash)]
pub enum OwnerSel {
    Name(u16),
    Qname,
    RecentOwner,
    RecentRdataName,
    Explicit(u16),
}

#[derive(Clone, Copy, Debug, Serialize, Deserialize, PartialEq, Eq, Hash)]
pub enum HintSel {
    None,
    /// use the hint that matches the way the owner was chosen (if legal)
    Matching,
}

#[derive(Clone, Debug, Serialize, Deserialize, PartialEq, Eq, Hash)]
pub enum TsigSel {
    Request,
    Response(Vec<u8>),
    Subsequent(Vec<u8>),
    Unsigned(u16),
}

#[derive(Clone, Debug, Serialize, Deserialize, PartialEq, Eq, Hash)]
pub enum WOp {
    SetId(u16),
    SetFlag(u8, bool),
    SetOpcode(u8),
    SetRcode(u8),
    SetExtRcode(u16),
    AddQuestion {
        name: u16,
        mask: u64,
        qtype: u16,
        qclass: u16,
    },
    AddRr {
        section: u8,
        owner: OwnerSel,
        mask: u64,
        hint: HintSel,
        rtype: u16,
        class: u16,
        ttl: u32,
        rdatas: Vec<WRdata>,
        /// true = use the add_*_rrset API (always when rdatas.len() != 1)
        as_set: bool,
        want_hints: bool,
    },
    SetLimit(u16),
    SetCompression(Mode),
    SetEdns(u16),
    SetTsig {
        sel: TsigSel,
        sha256: bool,
        key_name: u16,
        key: Vec<u8>,
        time: u64,
        fudge: u16,
        original_id: u16,
        error: u16,
        server_time: u64,
    },
    UpdateTime(u64),
    ClearRrs,
    Template {
        new_size: u16,
        subsequent: Option<Vec<u8>>,
    },
}

#[derive(Clone, Debug, Serialize, Deserialize, PartialEq, Eq, Hash)]
pub struct Case {
    pub names: Vec<MName>,
    pub buf_size: u16,
    pub limit: u16,
    pub ops: Vec<WOp>,
}

////////////////////////////////////////////////////////////////////////
// MODEL                                                              //
////////////////////////////////////////////////////////////////////////

#[derive(Clone, Debug)]
struct MQuestion {
    name: MName,
    qtype: u16,
    qclass: u16,
    mode: Mode,
}

#[derive(Clone, Debug)]
struct MRr {
    owner: MName,
    rtype: u16,
    class: u16,
    ttl: u32,
    rdata: Vec<u8>,
    mode: Mode,
}

#[derive(Clone, Debug)]
struct MTsig {
    sel: TsigSel,
    alg: mt::Alg,
    alg_name: MName,
    key_name: MName,
    key: Vec<u8>,
    time: u64,
    fudge: u16,
    original_id: u16,
    error: u16,
    server_time: u64,
    reserved: usize,
}

#[derive(Clone, Debug)]
struct Model {
    id: u16,
    flags: [bool; 5], // qr aa tc rd ra
    opcode: u8,
    rcode: u8,
    ext_upper: u8,
    questions: Vec<MQuestion>,
    sections: [Vec<MRr>; 3],
    /// 0 = question, 1 = answer, 2 = authority, 3 = additional
    section: u8,
    edns: Option<u16>,
    tsig: Option<MTsig>,
    mode: Mode,
    buf_len: usize,
    limit: usize,
    recent_owner: Option<MName>,
    recent_rdata_name: Option<MName>,
}

impl Model {
    fn reserved(&self) -> usize {
        self.edns.map_or(0, |_| 11) + self.tsig.as_ref().map_or(0, |t| t.reserved)
    }
}

fn clamp_ttl(raw: u32) -> u32 {
    if raw > i32::MAX as u32 {
        0
    } else {
        raw
    }
}

fn qn(m: &MName) -> Box<Name> {
    Name::try_from_uncompressed_all(&m.wire()).expect("model name")
}

fn render_rdata(rd: &WRdata, names: &[MName]) -> Vec<u8> {
    let mut out = Vec::new();
    for f in &rd.fields {
        match f {
            WField::Bytes(b) => out.extend_from_slice(b),
            WField::Name(sel, mask) => out.extend_from_slice(&flip_case(&names[pick(*sel, names.len())], *mask).wire()),
        }
    }
    out
}

////////////////////////////////////////////////////////////////////////
// INTERPRETER                                                        //
////////////////////////////////////////////////////////////////////////

/// Result of executing a prefix of the operation sequence.
struct Exec {
    model: Model,
    bytes: Vec<u8>,
    mac: Option<Vec<u8>>,
    /// Ok / error kind of every executed op
    outcomes: Vec<Result<(), String>>,
}

struct StepInfo {
    /// write position after each prefix length (index k = after k ops)
    cursors: Vec<usize>,
}

fn name_eq_for_hint(a: &MName, b: &MName) -> bool {
    a.eq_fold(b)
}

/// Executes `ops` on a fresh writer and the model.  `info.cursors[k]` must be
/// known for every k < ops.len() (write position before op k).
fn execute(case: &Case, ops: &[WOp], info: &StepInfo, st: &mut Stats, record: bool) -> Result<Exec, Fail> {
    let names = &case.names;
    let buf_size = (case.buf_size as usize).max(12);
    // buffers: initial + two per template op (requested size, fallback)
    let n_templates = ops.iter().filter(|o| matches!(o, WOp::Template { .. })).count();
    let mut sizes = vec![buf_size];
    {
        // the fallback buffer for a template op has the size of the buffer in use at
        // that time, which is only known while interpreting; allocate generously
        // (65535) and slice to size when used.
        for _ in 0..n_templates {
            sizes.push(65535);
            sizes.push(65535);
        }
    }
    let mut bufs: Vec<Vec<u8>> = sizes.iter().map(|s| vec![0xaau8; *s]).collect();
    let mut cur_buf_idx = 0usize;
    let limit0 = (case.limit as usize).min(buf_size);
    let mut outcomes: Vec<Result<(), String>> = Vec::new();
    let mut model;
    let final_len;
    let final_mac;
    {
        let mut it = bufs.iter_mut();
        let first = it.next().unwrap();
        let mut w = match catch(|| Writer::new(&mut first[..], case.limit as usize)) {
            Err(p) => return Err(Fail::new(panic_signature(&p), format!("Writer::new panicked: {p}"))),
            Ok(Err(e)) => {
                if limit0 >= 12 {
                    return Err(Fail::new("new-rejects", format!("Writer::new(buf {buf_size}, limit {}) failed: {e:?}", case.limit)));
                }
                // nothing more to do: no writer
                return Ok(Exec {
                    model: Model {
                        id: 0,
                        flags: [false; 5],
                        opcode: 0,
                        rcode: 0,
                        ext_upper: 0,
                        questions: vec![],
                        sections: [vec![], vec![], vec![]],
                        section: 0,
                        edns: None,
                        tsig: None,
                        mode: Mode::Standard,
                        buf_len: buf_size,
                        limit: limit0,
                        recent_owner: None,
                        recent_rdata_name: None,
                    },
                    bytes: Vec::new(),
                    mac: None,
                    outcomes,
                });
            }
            Ok(Ok(w)) => {
                if limit0 < 12 {
                    return Err(Fail::new("new-accepts-short", format!("Writer::new(buf {buf_size}, limit {}) succeeded", case.limit)));
                }
                w
            }
        };
        model = Model {
            id: 0,
            flags: [false; 5],
            opcode: 0,
            rcode: 0,
            ext_upper: 0,
            questions: vec![],
            sections: [vec![], vec![], vec![]],
            section: 0,
            edns: None,
            tsig: None,
            mode: Mode::Standard,
            buf_len: buf_size,
            limit: limit0,
            recent_owner: None,
            recent_rdata_name: None,
        };
        // explicit hint pointers delivered by successful ops since the last clear
        let mut explicit: Vec<(HintPointer, MName)> = Vec::new();

        for (k, op) in ops.iter().enumerate() {
            let cursor = info.cursors[k];
            let reserved = model.reserved();
            let room = model.limit.saturating_sub(reserved).saturating_sub(cursor);
            macro_rules! g {
                ($what:expr, $body:expr) => {
                    match catch(|| $body) {
                        Ok(v) => v,
                        Err(p) => return Err(Fail::new(panic_signature(&p), format!("op #{k} {} panicked: {p}", $what))),
                    }
                };
            }
            match op {
                WOp::SetId(v) => {
                    g!("set_id", w.set_id(*v));
                    model.id = *v;
                    outcomes.push(Ok(()));
                    if w.id() != *v {
                        return Err(Fail::new("getter-id", format!("op #{k}: id() = {} after set_id({v})", w.id())));
                    }
                }
                WOp::SetFlag(which, v) => {
                    let i = (*which % 5) as usize;
                    g!("set flag", match i {
                        0 => w.set_qr(*v),
                        1 => w.set_aa(*v),
                        2 => w.set_tc(*v),
                        3 => w.set_rd(*v),
                        _ => w.set_ra(*v),
                    });
                    model.flags[i] = *v;
                    outcomes.push(Ok(()));
                    let got = [w.qr(), w.aa(), w.tc(), w.rd(), w.ra()];
                    if got != model.flags {
                        return Err(Fail::new("getter-flags", format!("op #{k}: flag getters {got:?}, model {:?}", model.flags)));
                    }
                }
                WOp::SetOpcode(v) => {
                    let v = *v % 16;
                    g!("set_opcode", w.set_opcode(Opcode::try_from(v).unwrap()));
                    model.opcode = v;
                    outcomes.push(Ok(()));
                    if u8::from(w.opcode()) != v {
                        return Err(Fail::new("getter-opcode", format!("op #{k}: opcode() = {:?}", w.opcode())));
                    }
                }
                WOp::SetRcode(v) => {
                    let v = *v % 16;
                    g!("set_rcode", w.set_rcode(Rcode::try_from(v).unwrap()));
                    model.rcode = v;
                    model.ext_upper = 0;
                    outcomes.push(Ok(()));
                    if u8::from(w.rcode()) != v || u16::from(w.extended_rcode()) != v as u16 {
                        return Err(Fail::new("getter-rcode", format!("op #{k}: rcode() = {:?}, extended_rcode() = {:?}", w.rcode(), w.extended_rcode())));
                    }
                }
                WOp::SetExtRcode(v) => {
                    let r = g!("set_extended_rcode", w.set_extended_rcode(ExtendedRcode::from(*v)));
                    let expect_ok = model.edns.is_some() && *v <= 4095;
                    match (&r, expect_ok) {
                        (Ok(()), true) => {
                            model.rcode = (*v & 0xf) as u8;
                            model.ext_upper = (*v >> 4) as u8;
                            if u16::from(w.extended_rcode()) != *v {
                                return Err(Fail::new("getter-ext-rcode", format!("op #{k}: extended_rcode() = {:?} after set_extended_rcode({v})", w.extended_rcode())));
                            }
                        }
                        (Err(e), false) => {
                            let want = if model.edns.is_none() { WErr::NotEdns } else { WErr::ExtendedRcodeOverflow };
                            if *e != want {
                                return Err(Fail::new("ext-rcode-error-kind", format!("op #{k}: set_extended_rcode({v}) failed with {e:?}, expected {want:?}")));
                            }
                        }
                        _ => {
                            return Err(Fail::new(
                                "ext-rcode-acceptance",
                                format!("op #{k}: set_extended_rcode({v}) = {r:?} with edns = {:?}", model.edns),
                            ))
                        }
                    }
                    outcomes.push(r.map_err(|e| format!("{e:?}")));
                }
                WOp::AddQuestion { name, mask, qtype, qclass } => {
                    let n = flip_case(&names[pick(*name, names.len())], *mask);
                    let q = Question {
                        qname: qn(&n),
                        qtype: Qtype::from(*qtype),
                        qclass: Qclass::from(*qclass),
                    };
                    let r = g!("add_question", w.add_question(&q));
                    let out_of_order = model.section != 0;
                    let need = n.wire_len() + 4;
                    match &r {
                        Ok(()) => {
                            if out_of_order {
                                return Err(Fail::new("question-out-of-order-accepted", format!("op #{k}: add_question accepted after records were added")));
                            }
                            model.questions.push(MQuestion {
                                name: n,
                                qtype: *qtype,
                                qclass: *qclass,
                                mode: model.mode,
                            });
                        }
                        Err(e) => {
                            if out_of_order {
                                if *e != WErr::OutOfOrder {
                                    return Err(Fail::new("question-error-kind", format!("op #{k}: add_question failed with {e:?}, expected OutOfOrder")));
                                }
                            } else if *e == WErr::Truncation {
                                if need <= room {
                                    return Err(Fail::new(
                                        "spurious-truncation",
                                        format!("op #{k}: add_question needs {need} octets uncompressed, {room} are free (limit {}, position {cursor}, reserved {reserved}) but it failed with Truncation", model.limit),
                                    ));
                                }
                            } else {
                                return Err(Fail::new("question-error-kind", format!("op #{k}: add_question failed with {e:?}")));
                            }
                        }
                    }
                    outcomes.push(r.map_err(|e| format!("{e:?}")));
                }
                WOp::AddRr {
                    section,
                    owner,
                    mask,
                    hint,
                    rtype,
                    class,
                    ttl,
                    rdatas,
                    as_set,
                    want_hints,
                } => {
                    let sec = 1 + (*section % 3); // 1..=3
                    // resolve the owner and the hint
                    let (base, legal_hint): (MName, Hint) = match owner {
                        OwnerSel::Name(s) => (names[pick(*s, names.len())].clone(), Hint::None),
                        OwnerSel::Qname => match model.questions.first() {
                            Some(q) => (q.name.clone(), Hint::Qname),
                            None => (names[0].clone(), Hint::None),
                        },
                        OwnerSel::RecentOwner => match &model.recent_owner {
                            Some(n) => (n.clone(), Hint::MostRecentOwner),
                            None => (names[0].clone(), Hint::None),
                        },
                        OwnerSel::RecentRdataName => match &model.recent_rdata_name {
                            Some(n) => (n.clone(), Hint::MostRecentNameInRdata),
                            None => (names[0].clone(), Hint::None),
                        },
                        OwnerSel::Explicit(s) => {
                            if explicit.is_empty() {
                                (names[0].clone(), Hint::None)
                            } else {
                                let (p, n) = &explicit[pick(*s, explicit.len())];
                                (n.clone(), Hint::Explicit(*p))
                            }
                        }
                    };
                    let owner_name = flip_case(&base, *mask);
                    debug_assert!(name_eq_for_hint(&owner_name, &base));
                    let hint_used = match hint {
                        HintSel::None => Hint::None,
                        HintSel::Matching => legal_hint,
                    };
                    if hint_used != Hint::None && record {
                        st.class("op-with-legal-hint");
                    }
                    let rendered: Vec<Vec<u8>> = rdatas.iter().map(|r| render_rdata(r, names)).collect();
                    let use_set = *as_set || rendered.len() != 1;
                    if rendered.is_empty() {
                        outcomes.push(Ok(()));
                        continue;
                    }
                    // de-duplicate as an RRset does (reference equality)
                    let mut members: Vec<Vec<u8>> = Vec::new();
                    if use_set {
                        for r in &rendered {
                            if !members.iter().any(|m| mr::equal(*class, *rtype, r, m)) {
                                members.push(r.clone());
                            }
                        }
                    } else {
                        members.push(rendered[0].clone());
                    }
                    let q_owner = qn(&owner_name);
                    let hinted = HintedName::new(hint_used, &q_owner);
                    let mut hpv = HintPointerVec::new();
                    let hv = if *want_hints { Some(&mut hpv) } else { None };
                    let (ty, cl, tt) = (Type::from(*rtype), Class::from(*class), Ttl::from(*ttl));
                    let r = if use_set {
                        let mut set: Option<RdataSetOwned> = None;
                        for m in &rendered {
                            let rd: &Rdata = m.as_slice().try_into().unwrap();
                            match &mut set {
                                None => set = Some(RdataSetOwned::from(rd)),
                                Some(s) => {
                                    s.insert(cl, ty, rd);
                                }
                            }
                        }
                        let set = set.unwrap();
                        g!("add_*_rrset", match sec {
                            1 => w.add_answer_rrset(hinted, ty, cl, tt, &set, hv),
                            2 => w.add_authority_rrset(hinted, ty, cl, tt, &set, hv),
                            _ => w.add_additional_rrset(hinted, ty, cl, tt, &set, hv),
                        })
                    } else {
                        let rd: &Rdata = members[0].as_slice().try_into().unwrap();
                        g!("add_*_rr", match sec {
                            1 => w.add_answer_rr(hinted, ty, cl, tt, rd, hv),
                            2 => w.add_authority_rr(hinted, ty, cl, tt, rd, hv),
                            _ => w.add_additional_rr(hinted, ty, cl, tt, rd, hv),
                        })
                    };
                    let out_of_order = sec < model.section;
                    let leading: Vec<Option<Vec<(MName, bool)>>> = members.iter().map(|m| mr::leading_names(*class, *rtype, m)).collect();
                    let components_ok = leading.iter().all(|l| l.is_some());
                    let need: usize = members.iter().map(|m| owner_name.wire_len() + 10 + m.len()).sum();
                    match &r {
                        Ok(()) => {
                            if out_of_order {
                                return Err(Fail::new("rr-out-of-order-accepted", format!("op #{k}: record for section {sec} accepted while in section {}", model.section)));
                            }
                            if !components_ok {
                                return Err(Fail::new("rr-invalid-rdata-accepted", format!("op #{k}: RDATA whose embedded names cannot be parsed was accepted (type {rtype}, class {class})")));
                            }
                            for m in &members {
                                model.sections[(sec - 1) as usize].push(MRr {
                                    owner: owner_name.clone(),
                                    rtype: *rtype,
                                    class: *class,
                                    ttl: clamp_ttl(*ttl),
                                    rdata: m.clone(),
                                    mode: model.mode,
                                });
                            }
                            model.section = sec;
                            model.recent_owner = Some(owner_name.clone());
                            let mut idx = 0usize;
                            for l in &leading {
                                for (n, _) in l.as_ref().unwrap() {
                                    model.recent_rdata_name = Some(n.clone());
                                    if *want_hints && idx < 16 {
                                        if let Some(p) = hpv.get(idx) {
                                            explicit.push((p, n.clone()));
                                        }
                                    }
                                    idx += 1;
                                }
                            }
                        }
                        Err(e) => {
                            if out_of_order {
                                if *e != WErr::OutOfOrder {
                                    return Err(Fail::new("rr-error-kind", format!("op #{k}: failed with {e:?}, expected OutOfOrder")));
                                }
                            } else {
                                match e {
                                    WErr::Truncation => {
                                        if components_ok && need <= room {
                                            return Err(Fail::new(
                                                "spurious-truncation",
                                                format!("op #{k}: record(s) need {need} octets uncompressed, {room} are free (limit {}, position {cursor}, reserved {reserved}) but the operation failed with Truncation", model.limit),
                                            ));
                                        }
                                    }
                                    WErr::InvalidRdata => {
                                        if components_ok {
                                            return Err(Fail::new("rr-valid-rdata-rejected", format!("op #{k}: InvalidRdata for RDATA whose names parse (type {rtype}, class {class}, {})", hex(&members[0]))));
                                        }
                                    }
                                    other => return Err(Fail::new("rr-error-kind", format!("op #{k}: failed with {other:?}"))),
                                }
                            }
                        }
                    }
                    outcomes.push(r.map_err(|e| format!("{e:?}")));
                }
                WOp::SetLimit(v) => {
                    let v = *v as usize;
                    g!("set_limit", w.set_limit(v));
                    if v >= model.limit {
                        model.limit = v.min(model.buf_len);
                    } else {
                        model.limit = v.max(cursor + reserved);
                    }
                    outcomes.push(Ok(()));
                }
                WOp::SetCompression(m) => {
                    g!("set_compression_mode", w.set_compression_mode(match m {
                        Mode::Standard => CompressionMode::Standard,
                        Mode::CasePreserving => CompressionMode::CasePreserving,
                        Mode::Disabled => CompressionMode::Disabled,
                    }));
                    model.mode = *m;
                    outcomes.push(Ok(()));
                }
                WOp::SetEdns(size) => {
                    let r = g!("set_edns", w.set_edns(*size));
                    let expect: Result<(), WErr> = if model.edns.is_some() {
                        Err(WErr::AlreadyEdns)
                    } else if 11 > room {
                        Err(WErr::Truncation)
                    } else {
                        Ok(())
                    };
                    if r != expect {
                        return Err(Fail::new(
                            "set-edns-outcome",
                            format!("op #{k}: set_edns = {r:?}, expected {expect:?} ({room} octets free, limit {}, position {cursor}, reserved {reserved})", model.limit),
                        ));
                    }
                    if r.is_ok() {
                        model.edns = Some(*size);
                        model.ext_upper = 0;
                    }
                    outcomes.push(r.map_err(|e| format!("{e:?}")));
                }
                WOp::SetTsig {
                    sel,
                    sha256,
                    key_name,
                    key,
                    time,
                    fudge,
                    original_id,
                    error,
                    server_time,
                } => {
                    let alg = if *sha256 { mt::Alg::Sha256 } else { mt::Alg::Sha1 };
                    let qalg = if *sha256 { Algorithm::HmacSha256 } else { Algorithm::HmacSha1 };
                    let kn = names[pick(*key_name, names.len())].folded();
                    let time = *time & 0xffff_ffff_ffff;
                    let server_time = *server_time & 0xffff_ffff_ffff;
                    let (mode, alg_name) = match sel {
                        TsigSel::Request => (TsigMode::Request { algorithm: qalg, key: key.clone().into() }, alg.name()),
                        TsigSel::Response(m) => (
                            TsigMode::Response {
                                algorithm: qalg,
                                request_mac: m.clone().into(),
                                key: key.clone().into(),
                            },
                            alg.name(),
                        ),
                        TsigSel::Subsequent(m) => (
                            TsigMode::Subsequent {
                                algorithm: qalg,
                                prior_mac: m.clone().into(),
                                key: key.clone().into(),
                            },
                            alg.name(),
                        ),
                        TsigSel::Unsigned(a) => {
                            let an = names[pick(*a, names.len())].folded();
                            let ln: Box<LowercaseName> = qn(&an).into();
                            (TsigMode::Unsigned { algorithm: ln }, an)
                        }
                    };
                    let signed = !matches!(sel, TsigSel::Unsigned(_));
                    let lkn: Box<LowercaseName> = qn(&kn).into();
                    let prepared = PreparedTsigRr {
                        key_name: lkn,
                        time_signed: TimeSigned::try_from_unix_time(time).unwrap(),
                        fudge: *fudge,
                        original_id: *original_id,
                        error: ExtendedRcode::from(*error),
                        server_time: TimeSigned::try_from_unix_time(server_time).unwrap(),
                    };
                    let need = kn.wire_len() + alg_name.wire_len() + 26 + if *error == 18 { 6 } else { 0 } + if signed { alg.output_len() } else { 0 };
                    let r = g!("set_tsig", w.set_tsig(mode, prepared));
                    let expect: Result<(), WErr> = if model.tsig.is_some() {
                        Err(WErr::AlreadyTsig)
                    } else if need > room {
                        Err(WErr::Truncation)
                    } else {
                        Ok(())
                    };
                    if r != expect {
                        return Err(Fail::new(
                            "set-tsig-outcome",
                            format!("op #{k}: set_tsig = {r:?}, expected {expect:?} (needs {need}, {room} free)"),
                        ));
                    }
                    if r.is_ok() {
                        model.tsig = Some(MTsig {
                            sel: sel.clone(),
                            alg,
                            alg_name,
                            key_name: kn,
                            key: key.clone(),
                            time,
                            fudge: *fudge,
                            original_id: *original_id,
                            error: *error,
                            server_time,
                            reserved: need,
                        });
                    }
                    outcomes.push(r.map_err(|e| format!("{e:?}")));
                }
                WOp::UpdateTime(t) => {
                    let t = *t & 0xffff_ffff_ffff;
                    let r = g!("update_time_signed", w.update_time_signed(TimeSigned::try_from_unix_time(t).unwrap()));
                    match (&r, &mut model.tsig) {
                        (Ok(()), Some(ts)) => ts.time = t,
                        (Err(WErr::NotTsig), None) => {}
                        _ => return Err(Fail::new("update-time-outcome", format!("op #{k}: update_time_signed = {r:?} with tsig set = {}", model.tsig.is_some()))),
                    }
                    outcomes.push(r.map_err(|e| format!("{e:?}")));
                }
                WOp::ClearRrs => {
                    g!("clear_rrs", w.clear_rrs());
                    model.sections = [vec![], vec![], vec![]];
                    model.section = 0;
                    model.recent_owner = None;
                    model.recent_rdata_name = None;
                    explicit.clear();
                    outcomes.push(Ok(()));
                }
                WOp::Template { new_size, subsequent } => {
                    let new_size = (*new_size as usize).max(1);
                    let nb = it.next().unwrap();
                    let fb = it.next().unwrap();
                    let tmpl = g!("into_template", w.into_template());
                    let expect: Result<(), WErr> = match subsequent {
                        Some(_) if model.tsig.is_none() => Err(WErr::NotTsig),
                        Some(_) if matches!(model.tsig.as_ref().unwrap().sel, TsigSel::Unsigned(_)) => Err(WErr::NotSignedTsig),
                        _ if new_size < cursor + reserved => Err(WErr::Truncation),
                        _ => Ok(()),
                    };
                    let attempt = g!("try_from_template", match subsequent {
                        None => Writer::try_from_template(&mut nb[..new_size], &tmpl),
                        Some(m) => Writer::try_from_template_as_tsig_subsequent(&mut nb[..new_size], &tmpl, m.clone().into()),
                    });
                    match attempt {
                        Ok(nw) => {
                            if expect.is_err() {
                                return Err(Fail::new("template-accepts", format!("op #{k}: template restore into {new_size} octets succeeded, expected {expect:?} (position {cursor}, reserved {reserved})")));
                            }
                            w = nw;
                            cur_buf_idx = 1 + 2 * outcomes_templates(&outcomes_kinds(ops, k));
                            model.buf_len = new_size;
                            model.limit = model.limit.min(new_size);
                            if let (Some(m), Some(ts)) = (subsequent, model.tsig.as_mut()) {
                                ts.sel = TsigSel::Subsequent(m.clone());
                            }
                            outcomes.push(Ok(()));
                        }
                        Err(e) => {
                            if expect != Err(e) {
                                return Err(Fail::new("template-rejects", format!("op #{k}: template restore into {new_size} octets failed with {e:?}, expected {expect:?} (position {cursor}, reserved {reserved})")));
                            }
                            // continue on a buffer of the size in use before
                            let size = model.buf_len;
                            w = match g!("try_from_template (fallback)", Writer::try_from_template(&mut fb[..size], &tmpl)) {
                                Ok(nw) => nw,
                                Err(e) => return Err(Fail::new("template-fallback", format!("op #{k}: restoring a template into a buffer of the original size {size} failed: {e:?}"))),
                            };
                            cur_buf_idx = 2 + 2 * outcomes_templates(&outcomes_kinds(ops, k));
                            outcomes.push(Err(format!("{e:?}")));
                        }
                    }
                }
            }
            // count getters agree with the model after every op
            let counts = (w.qdcount(), w.ancount(), w.nscount(), w.arcount());
            let want = (
                model.questions.len() as u16,
                model.sections[0].len() as u16,
                model.sections[1].len() as u16,
                (model.sections[2].len() + model.edns.map_or(0, |_| 1) + model.tsig.as_ref().map_or(0, |_| 1)) as u16,
            );
            if counts != want {
                return Err(Fail::new("count-getters", format!("after op #{k} {op:?}: counts {counts:?}, model {want:?}")));
            }
        }
        let (len, mac) = match catch(|| w.finish_with_mac()) {
            Ok(v) => v,
            Err(p) => return Err(Fail::new(panic_signature(&p), format!("finish panicked after {} ops: {p}", ops.len()))),
        };
        final_len = len;
        final_mac = mac.map(|m| m.to_vec());
    }
    let bytes = bufs[cur_buf_idx][..final_len.min(bufs[cur_buf_idx].len())].to_vec();
    if bytes.len() != final_len {
        return Err(Fail::new("finish-len-beyond-buffer", format!("finish returned {final_len} for a buffer of {}", bufs[cur_buf_idx].len())));
    }
    Ok(Exec {
        model,
        bytes,
        mac: final_mac,
        outcomes,
    })
}

/// Kinds helper: which of ops[..k] are template ops (for buffer bookkeeping).
fn outcomes_kinds(ops: &[WOp], k: usize) -> Vec<bool> {
    ops[..k].iter().map(|o| matches!(o, WOp::Template { .. })).collect()
}
fn outcomes_templates(kinds: &[bool]) -> usize {
    kinds.iter().filter(|b| **b).count()
}

////////////////////////////////////////////////////////////////////////
// COMPARING A FINISHED MESSAGE WITH THE MODEL                        //
////////////////////////////////////////////////////////////////////////

fn name_matches(got: &MName, want: &MName, mode: Mode) -> bool {
    match mode {
        Mode::Standard => got.eq_fold(want),
        _ => got == want,
    }
}

fn rdata_matches(class: u16, rtype: u16, got: &[u8], want: &[u8], mode: Mode) -> bool {
    match mode {
        Mode::Standard => {
            // names of compressible fields may come back in a different case
            match (mr::leading_names(class, rtype, got), mr::leading_names(class, rtype, want)) {
                (Some(a), Some(b)) if !a.is_empty() => {
                    a.len() == b.len() && got.len() == want.len() && got.eq_ignore_ascii_case(want) && {
                        // only the name fields may differ in case: compare with names folded
                        fold_leading(class, rtype, got) == fold_leading(class, rtype, want)
                    }
                }
                _ => got == want,
            }
        }
        _ => got == want,
    }
}

fn fold_leading(class: u16, rtype: u16, rdata: &[u8]) -> Vec<u8> {
    // fold only the octets that belong to embedded names
    let layout = match mr::name_layout(class, rtype) {
        Some(l) => l,
        None => return rdata.to_vec(),
    };
    let mut out = rdata.to_vec();
    let mut pos = 0;
    for f in layout {
        match f {
            mr::Field::Fixed(n) => pos += n,
            _ => match MName::from_wire(&rdata[pos.min(rdata.len())..]) {
                Some((_, len)) => {
                    out[pos..pos + len].make_ascii_lowercase();
                    pos += len;
                }
                None => return out,
            },
        }
        if pos > rdata.len() {
            return out;
        }
    }
    out
}

fn check_message(ex: &Exec, what: &str) -> Result<MessageDecode, Fail> {
    let m = &ex.model;
    let bytes = &ex.bytes;
    let dec = match decode_message_opts(bytes, true) {
        Ok(d) => d,
        Err(e) => {
            return Err(Fail::new(
                "finished-message-undecodable",
                format!("{what}: the finished message {} does not decode: {e:?}", hex(bytes)),
            ))
        }
    };
    let fail = |sig: &str, msg: String| Err(Fail::new(sig, format!("{what}: {msg}; message {}", hex(bytes))));
    if bytes.len() > m.limit {
        return fail("limit-exceeded", format!("finished length {} exceeds the limit {} in effect", bytes.len(), m.limit));
    }
    let h = &dec.header;
    if h.id != m.id {
        return fail("header-id", format!("ID {} expected {}", h.id, m.id));
    }
    let flags = [h.qr, h.aa, h.tc, h.rd, h.ra];
    if flags != m.flags || h.z || h.ad || h.cd {
        return fail("header-flags", format!("flags qr/aa/tc/rd/ra {flags:?} z/ad/cd {}/{}/{}, expected {:?}", h.z, h.ad, h.cd, m.flags));
    }
    if h.opcode != m.opcode {
        return fail("header-opcode", format!("opcode {} expected {}", h.opcode, m.opcode));
    }
    if h.rcode != m.rcode {
        return fail("header-rcode", format!("RCODE {} expected {}", h.rcode, m.rcode));
    }
    if dec.questions.len() != m.questions.len() {
        return fail("question-count", format!("{} questions, expected {}", dec.questions.len(), m.questions.len()));
    }
    for (i, (g, w)) in dec.questions.iter().zip(m.questions.iter()).enumerate() {
        if !name_matches(&g.qname.name, &w.name, w.mode) || g.qtype != w.qtype || g.qclass != w.qclass {
            return fail("question-mismatch", format!("question #{i} is {} {} {}, expected {} {} {} (mode {:?})", g.qname.name, g.qtype, g.qclass, w.name, w.qtype, w.qclass, w.mode));
        }
    }
    // records: the additional section ends with OPT then TSIG
    let mut additional: Vec<&RrDecode> = dec.additional.iter().collect();
    let tsig_rr = if m.tsig.is_some() { additional.pop() } else { None };
    let opt_rr = if m.edns.is_some() { additional.pop() } else { None };
    let got_sections: [Vec<&RrDecode>; 3] = [dec.answers.iter().collect(), dec.authority.iter().collect(), additional];
    for s in 0..3 {
        if got_sections[s].len() != m.sections[s].len() {
            return fail("record-count", format!("section {} has {} records, expected {}", s + 1, got_sections[s].len(), m.sections[s].len()));
        }
        for (i, (g, w)) in got_sections[s].iter().zip(m.sections[s].iter()).enumerate() {
            if !name_matches(&g.owner.name, &w.owner, w.mode) {
                return fail("record-owner", format!("section {} record #{i} owner {} expected {} (mode {:?})", s + 1, g.owner.name, w.owner, w.mode));
            }
            if g.rtype != w.rtype || g.class != w.class || g.ttl_raw != w.ttl {
                return fail(
                    "record-fixed-fields",
                    format!("section {} record #{i} type/class/ttl {}/{}/{} expected {}/{}/{}", s + 1, g.rtype, g.class, g.ttl_raw, w.rtype, w.class, w.ttl),
                );
            }
            if !rdata_matches(w.class, w.rtype, &g.rdata, &w.rdata, w.mode) {
                return fail(
                    "record-rdata",
                    format!("section {} record #{i} (type {}, class {}) RDATA {} expected {} (mode {:?})", s + 1, w.rtype, w.class, hex(&g.rdata), hex(&w.rdata), w.mode),
                );
            }
        }
    }
    if let Some(size) = m.edns {
        let o = match opt_rr {
            Some(o) => o,
            None => return fail("opt-missing", "EDNS was set but there is no OPT record".into()),
        };
        let want_ttl = (m.ext_upper as u32) << 24;
        if o.rtype != 41 || !o.owner.name.labels.is_empty() || o.class != size || !o.rdata.is_empty() {
            return fail("opt-record", format!("OPT record is owner {} type {} class {} rdlen {}, expected root/41/{size}/0", o.owner.name, o.rtype, o.class, o.rdata.len()));
        }
        if o.ttl_raw != want_ttl {
            return fail(
                "opt-ttl-extended-rcode",
                format!("OPT TTL field is {:#010x}, expected {want_ttl:#010x} (extended RCODE upper bits {}, version 0, flags 0)", o.ttl_raw, m.ext_upper),
            );
        }
    }
    if let Some(ts) = &m.tsig {
        let t = match tsig_rr {
            Some(t) => t,
            None => return fail("tsig-missing", "TSIG was set but there is no TSIG record".into()),
        };
        if t.rtype != 250 || t.class != 255 || t.ttl_raw != 0 || !t.owner.name.eq_fold(&ts.key_name) {
            return fail("tsig-record", format!("TSIG record is owner {} type {} class {} ttl {}, expected {}/250/255/0", t.owner.name, t.rtype, t.class, t.ttl_raw, ts.key_name));
        }
        let rd = match mr::parse_tsig(&t.rdata) {
            Some(r) => r,
            None => return fail("tsig-rdata", format!("TSIG RDATA {} does not parse", hex(&t.rdata))),
        };
        let other: Vec<u8> = if ts.error == 18 { ts.server_time.to_be_bytes()[2..8].to_vec() } else { vec![] };
        if !rd.algorithm.eq_fold(&ts.alg_name) || rd.time_signed != ts.time || rd.fudge != ts.fudge || rd.original_id != ts.original_id || rd.error != ts.error || rd.other != other {
            return fail(
                "tsig-fields",
                format!(
                    "TSIG fields alg {} time {} fudge {} oid {} err {} other {}; expected alg {} time {} fudge {} oid {} err {} other {}",
                    rd.algorithm, rd.time_signed, rd.fudge, rd.original_id, rd.error, hex(&rd.other), ts.alg_name, ts.time, ts.fudge, ts.original_id, ts.error, hex(&other)
                ),
            );
        }
        let vars = mt::Vars {
            key_name: ts.key_name.clone(),
            alg_name: ts.alg_name.clone(),
            time_signed: ts.time,
            fudge: ts.fudge,
            error: ts.error,
            other,
        };
        let before = &bytes[..t.start];
        let expect_mac: Vec<u8> = match &ts.sel {
            TsigSel::Request => mt::hmac(ts.alg, &ts.key, &mt::request_digest_input(before, ts.original_id, &vars)),
            TsigSel::Response(rm) => mt::hmac(ts.alg, &ts.key, &mt::response_digest_input(rm, before, ts.original_id, &vars)),
            TsigSel::Subsequent(pm) => mt::hmac(ts.alg, &ts.key, &mt::subsequent_digest_input(pm, before, ts.original_id, &vars)),
            TsigSel::Unsigned(_) => vec![],
        };
        if rd.mac != expect_mac {
            return fail("tsig-mac", format!("TSIG MAC {} differs from the RFC 8945 computation {} (mode {:?})", hex(&rd.mac), hex(&expect_mac), ts.sel));
        }
        let want_returned = if matches!(ts.sel, TsigSel::Unsigned(_)) { None } else { Some(expect_mac) };
        if ex.mac != want_returned {
            return fail("tsig-mac-returned", format!("finish_with_mac returned {:?}", ex.mac.as_ref().map(|m| hex(m))));
        }
    } else if ex.mac.is_some() {
        return fail("tsig-mac-returned", "finish_with_mac returned a MAC without TSIG".into());
    }
    Ok(dec)
}

/// C13: pointer validity over a decoded message.
fn check_pointers(ex: &Exec, dec: &MessageDecode, st: &mut Stats, record: bool) -> Verdict {
    let bytes = &ex.bytes;
    let m = &ex.model;
    // all names in message order with (decode, may_be_compressed, mode_when_written, description)
    struct Item<'a> {
        d: &'a NameDecode,
        at: usize,
        permitted: bool,
        mode: Option<Mode>,
        what: String,
    }
    let mut items: Vec<Item> = Vec::new();
    for (i, q) in dec.questions.iter().enumerate() {
        items.push(Item {
            d: &q.qname,
            at: q.start,
            permitted: true,
            mode: m.questions.get(i).map(|q| q.mode),
            what: format!("QNAME #{i}"),
        });
    }
    let n_an = dec.answers.len();
    let n_ns = dec.authority.len();
    let normal_ar = m.sections[2].len();
    for (idx, rr) in dec.all_rrs().enumerate() {
        let mode = if idx < n_an {
            m.sections[0].get(idx).map(|r| r.mode)
        } else if idx < n_an + n_ns {
            m.sections[1].get(idx - n_an).map(|r| r.mode)
        } else if idx - n_an - n_ns < normal_ar {
            m.sections[2].get(idx - n_an - n_ns).map(|r| r.mode)
        } else {
            None // OPT / TSIG written at finish under the final mode
        }
        .or(Some(m.mode));
        items.push(Item {
            d: &rr.owner,
            at: rr.start,
            permitted: true,
            mode,
            what: format!("owner of record #{idx} (type {})", rr.rtype),
        });
        for (at, d, comp_ok) in &rr.rdata_names {
            items.push(Item {
                d,
                at: *at,
                permitted: *comp_ok,
                mode,
                what: format!("name in RDATA of record #{idx} (type {}, class {})", rr.rtype, rr.class),
            });
        }
    }
    let mut known_label_starts: std::collections::BTreeSet<usize> = std::collections::BTreeSet::new();
    let mut n_pointers = 0u64;
    let mut deep = false;
    for it in &items {
        if !it.d.pointers.is_empty() {
            n_pointers += 1;
            if it.d.pointers.len() >= 2 {
                deep = true;
            }
        }
        if !it.permitted {
            ensure!(
                it.d.pointers.is_empty(),
                "ptr-in-uncompressible-field",
                "{} at offset {} contains a compression pointer, which RFC 3597 §4 forbids for this type; message {}",
                it.what,
                it.at,
                hex(bytes)
            );
        }
        if it.mode == Some(Mode::Disabled) {
            ensure!(
                it.d.pointers.is_empty(),
                "ptr-while-disabled",
                "{} at offset {} was written while compression was disabled but contains a pointer; message {}",
                it.what,
                it.at,
                hex(bytes)
            );
        }
        // only the first pointer of this name was emitted for this name; later
        // pointers belong to the earlier name it points into
        if let Some(p) = it.d.pointers.first() {
            ensure!(
                p.target < p.pos,
                "ptr-not-backwards",
                "{}: pointer at {} targets {}; message {}",
                it.what,
                p.pos,
                p.target,
                hex(bytes)
            );
            ensure!(
                bytes[p.target] & 0xc0 != 0xc0,
                "ptr-to-pointer",
                "{}: pointer at {} targets offset {}, which holds a pointer, not a label; message {}",
                it.what,
                p.pos,
                p.target,
                hex(bytes)
            );
            ensure!(
                known_label_starts.contains(&p.target),
                "ptr-target-not-a-label-of-earlier-name",
                "{}: pointer at {} targets offset {}, which is not the first octet of a label of a name written earlier; message {}",
                it.what,
                p.pos,
                p.target,
                hex(bytes)
            );
        }
        for s in &it.d.label_starts {
            known_label_starts.insert(*s);
        }
    }
    // no pointers may hide in RDATA of types the writer does not know: those
    // RDATA compare octet-exact against the input in check_message (C12).
    if record {
        st.class_n("names-with-pointer", n_pointers);
        if n_pointers >= 2 {
            st.class("message-with>=2-pointers");
        }
        if deep {
            st.class("pointer-chain-depth>=2");
        }
    }
    Ok(())
}

////////////////////////////////////////////////////////////////////////
// ORACLE                                                             //
////////////////////////////////////////////////////////////////////////

fn trailer_start(ex: &Exec, dec: &MessageDecode) -> usize {
    let n_trailer = ex.model.edns.map_or(0, |_| 1) + ex.model.tsig.as_ref().map_or(0, |_| 1);
    if n_trailer == 0 || dec.additional.len() < n_trailer {
        ex.bytes.len()
    } else {
        dec.additional[dec.additional.len() - n_trailer].start
    }
}

pub fn oracle_impl(case: &Case, st: &mut Stats, pointers: bool) -> Verdict {
    if case.names.is_empty() {
        return Ok(());
    }
    // cursors[k] = write position after k operations (= before operation k)
    let mut info = StepInfo { cursors: Vec::new() };
    let n = case.ops.len();
    let mut last: Option<(Exec, MessageDecode)> = None;
    for k in 0..=n {
        st.eval();
        let record = k == n;
        let ex = execute(case, &case.ops[..k], &info, st, record)?;
        if ex.bytes.is_empty() {
            // Writer::new legitimately failed
            return Ok(());
        }
        let dec = check_message(&ex, &format!("after {k} of {n} operations"));
        let dec = match dec {
            Ok(d) => d,
            Err(f) => {
                if pointers {
                    // C13 only judges pointers; content mismatches are C12's business,
                    // but an undecodable message means a pointer went wrong or worse.
                    if f.signature == "finished-message-undecodable" {
                        return Err(Fail::new("ptr-message-undecodable", f.detail));
                    }
                    return Ok(());
                }
                return Err(f);
            }
        };
        if pointers {
            check_pointers(&ex, &dec, st, record)?;
        }
        // a failed operation leaves the message unchanged: compare with the previous prefix
        if k > 0 && !pointers {
            if let (Some(Err(_)), Some((prev, _))) = (ex.outcomes.last(), &last) {
                if !matches!(case.ops[k - 1], WOp::Template { .. }) {
                    ensure!(
                        prev.bytes == ex.bytes,
                        "failed-op-changed-message",
                        "operation #{} {:?} failed ({:?}) but the finished message changed from {} to {}",
                        k - 1,
                        case.ops[k - 1],
                        ex.outcomes.last().unwrap(),
                        hex(&prev.bytes),
                        hex(&ex.bytes)
                    );
                }
            }
        }
        info.cursors.push(trailer_start(&ex, &dec));
        last = Some((ex, dec));
    }
    // classification of the whole sequence
    if let Some((ex, dec)) = &last {
        let failed_then_continued = ex.outcomes.iter().enumerate().any(|(i, o)| o.is_err() && ex.outcomes[i + 1..].iter().any(|o| o.is_ok()));
        let has_clear = case.ops.iter().any(|o| matches!(o, WOp::ClearRrs));
        let has_template = case.ops.iter().any(|o| matches!(o, WOp::Template { .. }));
        let n_names: usize = dec.questions.len() + dec.all_rrs().map(|r| 1 + r.rdata_names.len()).sum::<usize>();
        let n_ptr = dec.questions.iter().filter(|q| !q.qname.pointers.is_empty()).count()
            + dec.all_rrs().map(|r| (!r.owner.pointers.is_empty()) as usize + r.rdata_names.iter().filter(|(_, d, _)| !d.pointers.is_empty()).count()).sum::<usize>();
        if failed_then_continued {
            st.class("failed-then-continued");
        }
        if has_clear {
            st.class("with-clear_rrs");
        }
        if has_template {
            st.class("with-template-roundtrip");
        }
        if ex.model.tsig.is_some() {
            st.class("with-tsig");
        }
        if ex.model.edns.is_some() {
            st.class("with-edns");
        }
        let nontrivial = if pointers { n_ptr >= 2 } else { failed_then_continued || has_clear || has_template || n_names >= 3 };
        if nontrivial {
            st.nontrivial(&ex.bytes, || {
                json!({"ops": case.ops.len(), "message_hex": hex(&ex.bytes), "names_with_pointer": n_ptr, "outcomes": ex.outcomes.iter().map(|o| o.is_ok()).collect::<Vec<_>>()})
            });
        }
    }
    Ok(())
}

pub fn oracle_c12(case: &Case, st: &mut Stats) -> Verdict {
    oracle_impl(case, st, false)
}

pub fn oracle_c13(case: &Case, st: &mut Stats) -> Verdict {
    oracle_impl(case, st, true)
}

////////////////////////////////////////////////////////////////////////
// GENERATORS                                                         //
////////////////////////////////////////////////////////////////////////

fn names_strategy() -> impl Strategy<Value = Vec<MName>> {
    // a few base names plus relatives (subdomains, parents) so suffixes are shared
    (prop::collection::vec(prop_oneof![6 => pool_name(4), 1 => crate::gen::arb_name(), 1 => crate::gen::boundary_name()], 1..4), prop::collection::vec((any::<u16>(), any::<u16>(), 0u8..6), 2..8)).prop_map(|(bases, rel)| {
        let mut names = bases.clone();
        for (sel, lab, how) in rel {
            let b = names[pick(sel, names.len())].clone();
            let label = crate::gen::POOL_LABELS[pick(lab, crate::gen::POOL_LABELS.len())];
            let n = match how {
                // a child under a label with non-letter octets, and the same with bit 0x20 of one of those
                // octets flipped ('[' / '{', '@' / '`', '-' / CR, digits / control octets): different names
                // that a sloppy "ignore the case bit" comparison takes for equal
                4 | 5 => {
                    let specials: [&[u8]; 6] = [b"x[y", b"a@b", b"mail-1", b"host10", b"_sip", b"caf\xc9"];
                    let sp = specials[pick(lab, specials.len())];
                    let mut other = sp.to_vec();
                    if let Some(i) = other.iter().position(|o| !o.is_ascii_alphabetic()) {
                        other[i] ^= 0x20;
                    }
                    let first = b.child(sp);
                    if first.is_valid() && !names.contains(&first) {
                        names.push(first);
                    }
                    b.child(&other)
                }
                0 | 1 => b.child(label),
                2 => b.parent().unwrap_or(b.clone()),
                _ => b.child(label).child(crate::gen::POOL_LABELS[pick(lab ^ 0x5555, crate::gen::POOL_LABELS.len())]),
            };
            if n.is_valid() {
                names.push(n);
            }
        }
        names
    })
}

fn wname() -> impl Strategy<Value = WField> {
    (any::<u16>(), prop_oneof![3 => Just(0u64), 1 => any::<u64>()]).prop_map(|(s, m)| WField::Name(s, m))
}

fn wbytes(n: usize) -> impl Strategy<Value = WField> {
    prop::collection::vec(any::<u8>(), n..=n).prop_map(WField::Bytes)
}

/// (type, class, rdata) with every component shape.
fn wrdata() -> BoxedStrategy<(u16, u16, WRdata)> {
    let class = || prop_oneof![6 => Just(mr::C_IN), 2 => Just(mr::C_CH), 1 => Just(300u16)];
    let single = prop_oneof![Just(mr::T_NS), Just(mr::T_CNAME), Just(mr::T_PTR), Just(mr::T_MB), Just(mr::T_MD), Just(mr::T_MF), Just(mr::T_MG), Just(mr::T_MR)];
    prop_oneof![
        5 => (single, class(), wname()).prop_map(|(t, c, n)| (t, c, vec![n])),
        2 => (class(), wname(), wname(), wbytes(20)).prop_map(|(c, a, b, f)| (mr::T_SOA, c, vec![a, b, f])),
        1 => (class(), wname(), wname()).prop_map(|(c, a, b)| (mr::T_MINFO, c, vec![a, b])),
        3 => (class(), wbytes(2), wname()).prop_map(|(c, p, n)| (mr::T_MX, c, vec![p, n])),
        3 => (wbytes(6), wname()).prop_map(|(f, n)| (mr::T_SRV, mr::C_IN, vec![f, n])),
        1 => (wbytes(6), wname()).prop_map(|(f, n)| (mr::T_SRV, mr::C_CH, vec![f, n])),
        2 => (wname(), wbytes(2)).prop_map(|(n, a)| (mr::T_A, mr::C_CH, vec![n, a])),
        2 => wbytes(4).prop_map(|b| (mr::T_A, mr::C_IN, vec![b])),
        1 => wbytes(16).prop_map(|b| (mr::T_AAAA, mr::C_IN, vec![b])),
        1 => prop::collection::vec(any::<u8>(), 0..40).prop_map(|b| (mr::T_TXT, mr::C_IN, vec![WField::Bytes(b)])),
        // unknown type whose RDATA is a name (must pass through untouched)
        2 => (prop_oneof![Just(99u16), Just(65280u16), Just(mr::T_NULL)], class(), wname()).prop_map(|(t, c, n)| (t, c, vec![n])),
        1 => (prop_oneof![Just(99u16), Just(257u16)], class(), prop::collection::vec(any::<u8>(), 0..300)).prop_map(|(t, c, b)| (t, c, vec![WField::Bytes(b)])),
        // later types whose RDATA has the layout of an RFC 1035 type (AFSDB, RT, KX: like MX; RP: two names; DNAME,
        // NSAP-PTR: one name): RFC 3597 §4 - their names are never compressed, the RDATA passes through untouched
        2 => (prop_oneof![Just(18u16), Just(21u16), Just(36u16)], class(), wbytes(2), wname()).prop_map(|(t, c, p, n)| (t, c, vec![p, n])),
        1 => (class(), wname(), wname()).prop_map(|(c, a, b)| (17u16, c, vec![a, b])),
        1 => (prop_oneof![Just(39u16), Just(23u16)], class(), wname()).prop_map(|(t, c, n)| (t, c, vec![n])),
        // malformed name-bearing RDATA
        1 => (prop_oneof![Just(mr::T_NS), Just(mr::T_MX), Just(mr::T_SOA), Just(mr::T_SRV)], prop::collection::vec(any::<u8>(), 0..6)).prop_map(|(t, b)| (t, mr::C_IN, vec![WField::Bytes(b)])),
        // name + junk
        1 => (wname(), prop::collection::vec(any::<u8>(), 1..4)).prop_map(|(n, j)| (mr::T_NS, mr::C_IN, vec![n, WField::Bytes(j)])),
    ]
    .prop_map(|(t, c, fields)| (t, c, WRdata { fields }))
    .boxed()
}

fn add_rr_op() -> impl Strategy<Value = WOp> {
    (
        0u8..3,
        prop_oneof![
            4 => any::<u16>().prop_map(OwnerSel::Name),
            2 => Just(OwnerSel::Qname),
            2 => Just(OwnerSel::RecentOwner),
            1 => Just(OwnerSel::RecentRdataName),
            2 => any::<u16>().prop_map(OwnerSel::Explicit),
        ],
        prop_oneof![3 => Just(0u64), 1 => any::<u64>()],
        prop_oneof![1 => Just(HintSel::None), 3 => Just(HintSel::Matching)],
        wrdata(),
        prop::collection::vec(wrdata(), 0..3),
        prop_oneof![0u32..86400, Just(0x7fff_ffffu32), Just(0x8000_0000u32), any::<u32>()],
        any::<bool>(),
        any::<bool>(),
    )
        .prop_map(|(section, owner, mask, hint, (rtype, class, first), more, ttl, as_set, want_hints)| {
            // extra members of an RRset share type/class: reuse their field lists when the type matches
            let mut rdatas = vec![first];
            for (t, c, r) in more {
                if t == rtype && c == class {
                    rdatas.push(r);
                }
            }
            WOp::AddRr {
                section,
                owner,
                mask,
                hint,
                rtype,
                class,
                ttl,
                rdatas,
                as_set,
                want_hints,
            }
        })
}

/// An RRset of several name-bearing records of one type (MX/NS lists).
fn add_rrset_op() -> impl Strategy<Value = WOp> {
    (0u8..3, any::<u16>(), prop_oneof![Just(mr::T_NS), Just(mr::T_MX), Just(mr::T_SRV), Just(mr::T_PTR)], prop::collection::vec((any::<u16>(), any::<u16>(), prop_oneof![3 => Just(0u64), 1 => any::<u64>()]), 1..6), any::<bool>()).prop_map(
        |(section, owner, rtype, members, want_hints)| {
            let rdatas = members
                .into_iter()
                .map(|(pref, n, mask)| WRdata {
                    fields: match rtype {
                        mr::T_MX => vec![WField::Bytes(pref.to_be_bytes().to_vec()), WField::Name(n, mask)],
                        mr::T_SRV => vec![WField::Bytes(vec![0, 1, 0, 2, (pref >> 8) as u8, pref as u8]), WField::Name(n, mask)],
                        _ => vec![WField::Name(n, mask)],
                    },
                })
                .collect();
            WOp::AddRr {
                section,
                owner: OwnerSel::Name(owner),
                mask: 0,
                hint: HintSel::None,
                rtype,
                class: mr::C_IN,
                ttl: 300,
                rdatas,
                as_set: true,
                want_hints,
            }
        },
    )
}

fn op_strategy() -> impl Strategy<Value = WOp> {
    prop_oneof![
        1 => any::<u16>().prop_map(WOp::SetId),
        2 => (0u8..5, any::<bool>()).prop_map(|(w, v)| WOp::SetFlag(w, v)),
        1 => (0u8..16).prop_map(WOp::SetOpcode),
        1 => (0u8..16).prop_map(WOp::SetRcode),
        2 => prop_oneof![0u16..24, 2040u16..2060, 4090u16..4100, any::<u16>()].prop_map(WOp::SetExtRcode),
        3 => (any::<u16>(), prop_oneof![3 => Just(0u64), 1 => any::<u64>()], any::<u16>(), any::<u16>()).prop_map(|(name, mask, qtype, qclass)| WOp::AddQuestion { name, mask, qtype, qclass }),
        14 => add_rr_op(),
        4 => add_rrset_op(),
        2 => prop_oneof![0u16..600, any::<u16>()].prop_map(WOp::SetLimit),
        2 => prop_oneof![Just(Mode::Standard), Just(Mode::CasePreserving), Just(Mode::Disabled)].prop_map(WOp::SetCompression),
        2 => any::<u16>().prop_map(WOp::SetEdns),
        2 => (
            prop_oneof![
                Just(TsigSel::Request),
                prop::collection::vec(any::<u8>(), 0..40).prop_map(TsigSel::Response),
                prop::collection::vec(any::<u8>(), 0..40).prop_map(TsigSel::Subsequent),
                any::<u16>().prop_map(TsigSel::Unsigned)
            ],
            any::<bool>(),
            any::<u16>(),
            prop::collection::vec(any::<u8>(), 1..70),
            any::<u64>(),
            any::<u16>(),
            any::<u16>(),
            prop_oneof![Just(0u16), Just(16), Just(17), Just(18), any::<u16>()],
            any::<u64>()
        )
            .prop_map(|(sel, sha256, key_name, key, time, fudge, original_id, error, server_time)| WOp::SetTsig {
                sel,
                sha256,
                key_name,
                key,
                time,
                fudge,
                original_id,
                error,
                server_time
            }),
        1 => any::<u64>().prop_map(WOp::UpdateTime),
        1 => Just(WOp::ClearRrs),
        1 => (prop_oneof![12u16..700, any::<u16>()], prop::option::weighted(0.3, prop::collection::vec(any::<u8>(), 0..40))).prop_map(|(new_size, subsequent)| WOp::Template { new_size, subsequent }),
    ]
}

fn case_strategy() -> impl Strategy<Value = Case> {
    (
        names_strategy(),
        prop_oneof![1 => 0u16..40, 6 => 40u16..700, 3 => 700u16..4096, 1 => Just(65535u16)],
        prop_oneof![1 => 0u16..40, 3 => 40u16..700, 3 => Just(65535u16)],
        prop::collection::vec(op_strategy(), 0..24),
    )
        .prop_map(|(names, buf_size, limit, ops)| Case { names, buf_size, limit, ops })
}

/// One RRset of 58-69 TXT records of 256 octets each: pushes the write position to
/// just below or beyond offset 16383, the largest offset a compression pointer can name.
fn filler_op() -> impl Strategy<Value = WOp> {
    (any::<u16>(), 58usize..70, any::<u8>()).prop_map(|(owner, n, fill)| WOp::AddRr {
        section: 0,
        owner: OwnerSel::Name(owner),
        mask: 0,
        hint: HintSel::None,
        rtype: mr::T_TXT,
        class: mr::C_IN,
        ttl: 300,
        rdatas: (0..n)
            .map(|i| {
                let mut v = vec![255u8];
                v.extend(std::iter::repeat(fill.wrapping_add(i as u8)).take(255));
                WRdata { fields: vec![WField::Bytes(v)] }
            })
            .collect(),
        as_set: true,
        want_hints: false,
    })
}

/// Messages larger than 16 KiB: names written beyond the reach of compression pointers.
fn big_case_strategy() -> impl Strategy<Value = Case> {
    (
        names_strategy(),
        prop::collection::vec(op_strategy(), 0..3),
        prop::collection::vec(filler_op(), 1..3),
        prop::collection::vec(prop_oneof![3 => add_rr_op(), 3 => add_rrset_op(), 1 => op_strategy()], 1..12),
    )
        .prop_map(|(names, mut ops, filler, rest)| {
            ops.extend(filler);
            ops.extend(rest);
            Case { names, buf_size: 65535, limit: 65535, ops }
        })
}

#[path = "c12n.rs"]
pub mod counts;

pub fn run(ctx: &Ctx, report: &mut Report) {
    let pointers = ctx.id == "C13";
    report.rule = if pointers {
        "generated writer operation sequences (as C12) over name lists with shared suffixes and case variants in all \
         three compression modes; every prefix of every sequence is finished and decoded; every compression pointer \
         is checked (strictly backwards, targets the first octet of a label of a name written earlier, not a pointer, \
         only in QNAME/owner/RFC 1035 RDATA names, none while compression is disabled). Non-trivial = finished message \
         with >= 2 compressed names; distinct by message octets."
            .into()
    } else {
        "generated writer operation sequences (<= 24 ops over header setters, questions, records and RRsets in every \
         section with legal hints, limits, compression modes, EDNS, extended RCODEs, TSIG in all four modes, time \
         updates, clear_rrs, template round trips into smaller/larger buffers) on buffers of 0-4096 octets; every \
         prefix is executed on a fresh writer, finished, decoded independently and compared with a model message, and \
         the exact write position is derived from the decode for the size-limit obligations. evaluations = prefixes. \
         Non-trivial = sequence with a failed-then-continued operation, a clear_rrs, a template round trip, or >= 3 \
         names; distinct by finished message octets."
            .into()
    };
    report.assumptions.push("hints are only used as the API contract allows (same name, pointer from a successful not-since-cleared operation)".into());
    report.assumptions.push("vmodel::wire lenient RDATA decode for records whose RDATA the writer passes through unvalidated".into());
    let cases = ctx.tier.pick(120_000, 2_500_000);
    let big = ctx.tier.pick(2_500, 60_000);
    if pointers {
        run_prop(ctx, report, PropSpec { name: "writer-pointers", cases, max_shrink_iters: 6000 }, case_strategy, oracle_c13);
        run_prop(ctx, report, PropSpec { name: "writer-pointers-big", cases: big, max_shrink_iters: 1500 }, big_case_strategy, oracle_c13);
    } else {
        run_prop(ctx, report, PropSpec { name: "writer-ops", cases, max_shrink_iters: 6000 }, case_strategy, oracle_c12);
        run_prop(ctx, report, PropSpec { name: "writer-ops-big", cases: big, max_shrink_iters: 1500 }, big_case_strategy, oracle_c12);
        // the 16-bit section counts at their limit (RRsets of about 65,535 records in 2 MiB buffers)
        run_prop(ctx, report, PropSpec { name: "writer-count-limits", cases: ctx.tier.pick(32, 400), max_shrink_iters: 16 }, counts::count_case, counts::oracle_counts);
    }
}

pub fn replay(check: &str, case: &serde_json::Value) -> Verdict {
    use crate::fw::replay_case;
    if check == "writer-count-limits" {
        return replay_case::<counts::CountCase, _>(case, counts::oracle_counts);
    }
    if check.starts_with("writer-pointers") {
        replay_case::<Case, _>(case, oracle_c13)
    } else {
        replay_case::<Case, _>(case, oracle_c12)
    }
}

#[allow(dead_code)]
fn _unused() {
    let _ = fail_marker;
}
#[allow(dead_code)]
fn fail_marker() -> Verdict {
    fail!("x", "y")
}
