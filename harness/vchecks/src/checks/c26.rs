//! C26 — response rate limiting follows its token-bucket rule over time, and
//! C27 — rate limiting groups responses into the documented streams.
//! Oracles: an unbounded-integer token bucket (R9) and an explicit stream key.
//! Time is advanced with the `verif_hooks` hook that shifts every bucket's
//! recorded refill instant into the past.

use std::net::IpAddr;
use std::time::Instant;

use proptest::prelude::*;
use serde::{Deserialize, Serialize};
use serde_json::json;
use vmodel::name::MName;
use vmodel::rdata as mr;
use vmodel::resolve::{respond, Outcome};
use vmodel::wire::{decode_message, Builder};

use crate::fw::{panic_signature, run_prop, Ctx, Fail, PropSpec, Report, Stats, Verdict};
use crate::gen::flip_case;
use crate::srvgen::{build, CatalogSpec, NameSpec, RdSpec, RecSpec, ZoneSpec};
use crate::srvrun::{hex, make_server, plain_additional, AnyServer, RrlSpec, ServerCfg};
use crate::{ensure, fail};

#[path = "c26f.rs"]
pub mod frac;

fn n(labels: &[&[u8]]) -> MName {
    MName {
        labels: labels.iter().map(|l| l.to_vec()).collect(),
    }
}

/// A small fixed catalog: zone test. (wildcard, delegation, data), a failed zone, nothing else.
fn fixed_catalog() -> CatalogSpec {
    let rel = |l: &[&[u8]]| NameSpec::Rel(l.iter().map(|x| x.to_vec()).collect(), 0);
    let recs = vec![
        RecSpec { owner: rel(&[]), ttl: 300, rd: RdSpec::Soa { minimum: 60, serial: 1 } },
        RecSpec { owner: rel(&[]), ttl: 300, rd: RdSpec::Single(mr::T_NS, rel(&[b"ns"])) },
        RecSpec { owner: rel(&[b"ns"]), ttl: 300, rd: RdSpec::A(1) },
        RecSpec { owner: rel(&[b"www"]), ttl: 300, rd: RdSpec::A(2) },
        RecSpec { owner: rel(&[b"other"]), ttl: 300, rd: RdSpec::A(3) },
        // two names that differ only in bit 0x20 of an octet that is not a letter: different QNAMEs, different streams
        RecSpec { owner: rel(&[b"x[y"]), ttl: 300, rd: RdSpec::A(6) },
        RecSpec { owner: rel(&[b"x{y"]), ttl: 300, rd: RdSpec::A(7) },
        RecSpec { owner: rel(&[b"*", b"wild"]), ttl: 300, rd: RdSpec::A(4) },
        RecSpec { owner: rel(&[b"*", b"literal"]), ttl: 300, rd: RdSpec::A(5) },
        // a wildcard whose A RRset (40 records, about 650 octets) does not fit a plain UDP response: TC set
        RecSpec { owner: rel(&[b"*", b"bigwild"]), ttl: 300, rd: RdSpec::A(100) },
        RecSpec { owner: rel(&[b"*", b"bigwild"]), ttl: 300, rd: RdSpec::A(101) },
        RecSpec { owner: rel(&[b"*", b"bigwild"]), ttl: 300, rd: RdSpec::A(102) },
        RecSpec { owner: rel(&[b"*", b"bigwild"]), ttl: 300, rd: RdSpec::A(103) },
        RecSpec { owner: rel(&[b"*", b"bigwild"]), ttl: 300, rd: RdSpec::A(104) },
        RecSpec { owner: rel(&[b"*", b"bigwild"]), ttl: 300, rd: RdSpec::A(105) },
        RecSpec { owner: rel(&[b"*", b"bigwild"]), ttl: 300, rd: RdSpec::A(106) },
        RecSpec { owner: rel(&[b"*", b"bigwild"]), ttl: 300, rd: RdSpec::A(107) },
        RecSpec { owner: rel(&[b"*", b"bigwild"]), ttl: 300, rd: RdSpec::A(108) },
        RecSpec { owner: rel(&[b"*", b"bigwild"]), ttl: 300, rd: RdSpec::A(109) },
        RecSpec { owner: rel(&[b"*", b"bigwild"]), ttl: 300, rd: RdSpec::A(110) },
        RecSpec { owner: rel(&[b"*", b"bigwild"]), ttl: 300, rd: RdSpec::A(111) },
        RecSpec { owner: rel(&[b"*", b"bigwild"]), ttl: 300, rd: RdSpec::A(112) },
        RecSpec { owner: rel(&[b"*", b"bigwild"]), ttl: 300, rd: RdSpec::A(113) },
        RecSpec { owner: rel(&[b"*", b"bigwild"]), ttl: 300, rd: RdSpec::A(114) },
        RecSpec { owner: rel(&[b"*", b"bigwild"]), ttl: 300, rd: RdSpec::A(115) },
        RecSpec { owner: rel(&[b"*", b"bigwild"]), ttl: 300, rd: RdSpec::A(116) },
        RecSpec { owner: rel(&[b"*", b"bigwild"]), ttl: 300, rd: RdSpec::A(117) },
        RecSpec { owner: rel(&[b"*", b"bigwild"]), ttl: 300, rd: RdSpec::A(118) },
        RecSpec { owner: rel(&[b"*", b"bigwild"]), ttl: 300, rd: RdSpec::A(119) },
        RecSpec { owner: rel(&[b"*", b"bigwild"]), ttl: 300, rd: RdSpec::A(120) },
        RecSpec { owner: rel(&[b"*", b"bigwild"]), ttl: 300, rd: RdSpec::A(121) },
        RecSpec { owner: rel(&[b"*", b"bigwild"]), ttl: 300, rd: RdSpec::A(122) },
        RecSpec { owner: rel(&[b"*", b"bigwild"]), ttl: 300, rd: RdSpec::A(123) },
        RecSpec { owner: rel(&[b"*", b"bigwild"]), ttl: 300, rd: RdSpec::A(124) },
        RecSpec { owner: rel(&[b"*", b"bigwild"]), ttl: 300, rd: RdSpec::A(125) },
        RecSpec { owner: rel(&[b"*", b"bigwild"]), ttl: 300, rd: RdSpec::A(126) },
        RecSpec { owner: rel(&[b"*", b"bigwild"]), ttl: 300, rd: RdSpec::A(127) },
        RecSpec { owner: rel(&[b"*", b"bigwild"]), ttl: 300, rd: RdSpec::A(128) },
        RecSpec { owner: rel(&[b"*", b"bigwild"]), ttl: 300, rd: RdSpec::A(129) },
        RecSpec { owner: rel(&[b"*", b"bigwild"]), ttl: 300, rd: RdSpec::A(130) },
        RecSpec { owner: rel(&[b"*", b"bigwild"]), ttl: 300, rd: RdSpec::A(131) },
        RecSpec { owner: rel(&[b"*", b"bigwild"]), ttl: 300, rd: RdSpec::A(132) },
        RecSpec { owner: rel(&[b"*", b"bigwild"]), ttl: 300, rd: RdSpec::A(133) },
        RecSpec { owner: rel(&[b"*", b"bigwild"]), ttl: 300, rd: RdSpec::A(134) },
        RecSpec { owner: rel(&[b"*", b"bigwild"]), ttl: 300, rd: RdSpec::A(135) },
        RecSpec { owner: rel(&[b"*", b"bigwild"]), ttl: 300, rd: RdSpec::A(136) },
        RecSpec { owner: rel(&[b"*", b"bigwild"]), ttl: 300, rd: RdSpec::A(137) },
        RecSpec { owner: rel(&[b"*", b"bigwild"]), ttl: 300, rd: RdSpec::A(138) },
        RecSpec { owner: rel(&[b"*", b"bigwild"]), ttl: 300, rd: RdSpec::A(139) },
        // wildcard CNAMEs whose targets do not exist: synthesis happens, the response is NXDOMAIN
        RecSpec { owner: rel(&[b"*", b"dangle"]), ttl: 300, rd: RdSpec::Single(mr::T_CNAME, rel(&[b"nope"])) },
        RecSpec { owner: rel(&[b"*", b"dangle2"]), ttl: 300, rd: RdSpec::Single(mr::T_CNAME, rel(&[b"gone", b"deep"])) },
        RecSpec { owner: rel(&[b"sub"]), ttl: 300, rd: RdSpec::Single(mr::T_NS, NameSpec::Abs(vec![b"ns".to_vec(), b"elsewhere".to_vec()])) },
    ];
    CatalogSpec {
        zones: vec![
            ZoneSpec { apex: n(&[b"test"]), class: 1, kind: 0, recs },
            ZoneSpec { apex: n(&[b"broken"]), class: 1, kind: 2, recs: vec![] },
        ],
        single: false,
    }
}

/// Request shapes by the response they provoke.
#[derive(Clone, Debug, Serialize, Deserialize, PartialEq, Eq, Hash)]
pub enum Shape {
    /// NOERROR with data
    Answer(u8),
    /// NOERROR without data
    NoData,
    /// NOERROR referral
    Referral,
    /// wildcard-synthesised answer: (which wildcard, first label variant)
    Wild(u8, u8),
    /// query for the literal wildcard owner
    LiteralStar(u8),
    NxDomain(u8),
    Refused(u8),
    ServFail,
    FormErr,
    BadVers,
    /// NOTIMP via QTYPE AXFR (opcode QUERY)
    NotImpQtype,
    /// NXDOMAIN reached through a wildcard-synthesised CNAME: (which wildcard, first label variant)
    WildNx(u8, u8),
    /// wildcard-synthesised answer that does not fit a UDP response without EDNS (TC): first label variant
    WildBig(u8),
}

#[derive(Clone, Debug, Serialize, Deserialize, PartialEq, Eq, Hash)]
pub struct Req {
    pub shape: Shape,
    pub mask: u64,
    pub tcp: bool,
    pub opcode: u8,
    /// 0 IPv4, 1 IPv6, 2 IPv4-mapped IPv6, 3 IPv6 in ::/96 that is not IPv4-mapped
    pub family: u8,
    pub addr: u128,
}

fn qname_of(shape: &Shape) -> MName {
    match shape {
        Shape::Answer(v) => match v % 4 {
            0 => n(&[b"www", b"test"]),
            1 => n(&[b"other", b"test"]),
            2 => n(&[b"x[y", b"test"]),
            _ => n(&[b"x{y", b"test"]),
        },
        Shape::NoData => n(&[b"ns", b"test"]),
        Shape::Referral => n(&[b"x", b"sub", b"test"]),
        Shape::Wild(w, v) => {
            let first: &[u8] = match v % 3 {
                0 => b"aaa",
                1 => b"bbb",
                _ => b"ccc",
            };
            if w % 2 == 0 {
                n(&[first, b"wild", b"test"])
            } else {
                n(&[first, b"literal", b"test"])
            }
        }
        Shape::WildBig(v) => {
            let first: &[u8] = match v % 3 {
                0 => b"aaa",
                1 => b"bbb",
                _ => b"ccc",
            };
            n(&[first, b"bigwild", b"test"])
        }
        Shape::WildNx(w, v) => {
            let first: &[u8] = if v % 2 == 0 { b"aaa" } else { b"bbb" };
            if w % 2 == 0 {
                n(&[first, b"dangle", b"test"])
            } else {
                n(&[first, b"dangle2", b"test"])
            }
        }
        Shape::LiteralStar(w) => {
            if w % 2 == 0 {
                n(&[b"*", b"wild", b"test"])
            } else {
                n(&[b"*", b"literal", b"test"])
            }
        }
        Shape::NxDomain(v) => match v % 2 {
            0 => n(&[b"nope", b"test"]),
            _ => n(&[b"missing", b"deep", b"test"]),
        },
        Shape::Refused(v) => match v % 2 {
            0 => n(&[b"outside"]),
            _ => n(&[b"www", b"elsewhere"]),
        },
        Shape::ServFail => n(&[b"a", b"broken"]),
        Shape::FormErr | Shape::BadVers | Shape::NotImpQtype => n(&[b"www", b"test"]),
    }
}

pub fn render_req(r: &Req, id: u16) -> Vec<u8> {
    let opcode = (r.opcode % 16) as u16;
    let mut b = Builder::new(id, opcode << 11);
    let qname = flip_case(&qname_of(&r.shape), r.mask);
    let qtype = match r.shape {
        Shape::NoData => mr::T_TXT,
        Shape::NotImpQtype => mr::T_AXFR,
        _ => mr::T_A,
    };
    b.question(&qname, qtype, 1);
    match r.shape {
        Shape::BadVers => b.rr(3, &MName::root(), mr::T_OPT, 1232, 0x0001_0000, &[]),
        Shape::FormErr => b.buf.push(0xff),
        _ => {}
    }
    b.buf
}

pub fn addr_of(r: &Req) -> IpAddr {
    match r.family % 4 {
        0 => IpAddr::V4(std::net::Ipv4Addr::from(r.addr as u32)),
        // an IPv6 address in ::/96 that is NOT IPv4-mapped (::a.b.c.d, ::1): plain IPv6 for the limiter
        3 => IpAddr::V6(std::net::Ipv6Addr::from((r.addr as u32) as u128)),
        1 => {
            // avoid accidentally producing an IPv4-mapped address
            let mut a = r.addr;
            if a >> 32 == 0xffff {
                a |= 1 << 100;
            }
            IpAddr::V6(std::net::Ipv6Addr::from(a))
        }
        _ => IpAddr::V6(std::net::Ipv4Addr::from(r.addr as u32).to_ipv6_mapped()),
    }
}

/// Category of a response: 0 NOERROR, 1 NXDOMAIN, 2 other.
fn category(rcode: u16) -> u8 {
    match rcode {
        0 => 0,
        3 => 1,
        _ => 2,
    }
}

/// The stream key the documentation defines; None = not subject to rate limiting.
fn stream_key(r: &Req, twin_resp: &[u8], model: &vmodel::zone::MCatalog<vmodel::resolve::MEntry>, v4_prefix: u8, v6_prefix: u8) -> Option<(bool, u128, u8, Option<MName>)> {
    if r.tcp || r.opcode % 16 != 0 {
        return None;
    }
    let d = decode_message(twin_resp).ok()?;
    let cat = category(d.extended_rcode());
    let (v6, net): (bool, u128) = match addr_of(r) {
        IpAddr::V4(a) => {
            let a = u32::from(a);
            let masked = if v4_prefix == 0 { 0 } else { a & (u32::MAX << (32 - v4_prefix as u32)) };
            (false, masked as u128)
        }
        IpAddr::V6(a) => {
            let o = a.octets();
            if o[..10].iter().all(|b| *b == 0) && o[10] == 0xff && o[11] == 0xff {
                let a = u32::from_be_bytes([o[12], o[13], o[14], o[15]]);
                let masked = if v4_prefix == 0 { 0 } else { a & (u32::MAX << (32 - v4_prefix as u32)) };
                (false, masked as u128)
            } else {
                let hi = (u128::from(a) >> 64) as u64;
                let masked = if v6_prefix == 0 { 0 } else { hi & (u64::MAX << (64 - v6_prefix as u32)) };
                (true, masked as u128)
            }
        }
    };
    let name = if cat == 0 {
        let qname = flip_case(&qname_of(&r.shape), r.mask);
        let qtype = if matches!(r.shape, Shape::NoData) { mr::T_TXT } else { mr::T_A };
        match respond(model, &qname, qtype, 1) {
            Outcome::Answer(a) => Some(a.source_of_synthesis.unwrap_or(qname).folded()),
            _ => Some(qname.folded()),
        }
    } else {
        None
    };
    Some((v6, net, cat, name))
}

fn exchange(server: &AnyServer, req: &[u8], tcp: bool, src: IpAddr, buf: &mut Vec<u8>) -> Result<Option<Vec<u8>>, Fail> {
    match server.handle(req, tcp, src, buf) {
        Ok(Some(len)) => Ok(Some(buf[..len].to_vec())),
        Ok(None) => Ok(None),
        Err(p) => Err(Fail::new(panic_signature(&p), format!("handle_message panicked on {} : {p}", hex(req)))),
    }
}

fn is_slip(resp: &[u8]) -> bool {
    match decode_message(resp) {
        Ok(d) => d.header.tc && d.answers.is_empty() && d.authority.is_empty() && plain_additional(&d).is_empty(),
        Err(_) => false,
    }
}

////////////////////////////////////////////////////////////////////////
// C26                                                                //
////////////////////////////////////////////////////////////////////////

#[derive(Clone, Debug, Serialize, Deserialize, PartialEq, Eq, Hash)]
pub struct BucketCase {
    pub rrl: RrlSpec,
    pub req: Req,
    /// seconds to advance before each request
    pub gaps: Vec<u64>,
    /// the requests are TSIG-signed with a key named `key.elsewhere.` (it shares a label with the
    /// out-of-zone name-server name of the referral shape): limited responses then carry a TSIG record
    #[serde(default)]
    pub signed: bool,
}

fn bucket_key() -> crate::srvrun::KeySpec {
    crate::srvrun::KeySpec { name: n(&[b"key", b"elsewhere"]), sha256: true, secret: b"bucket-history-secret".to_vec() }
}

/// Appends a TSIG record (HMAC-SHA256, fudge 3600) signed with `bucket_key()`.
fn sign_request(msg: &[u8], now: u64) -> Vec<u8> {
    use vmodel::tsig as mt;
    let key = bucket_key();
    let id = u16::from_be_bytes([msg[0], msg[1]]);
    let mut bytes = msg.to_vec();
    let ar = u16::from_be_bytes([bytes[10], bytes[11]]).wrapping_add(1);
    bytes[10..12].copy_from_slice(&ar.to_be_bytes());
    let vars = mt::Vars { key_name: key.name.clone(), alg_name: mt::Alg::Sha256.name(), time_signed: now, fudge: 3600, error: 0, other: Vec::new() };
    let mac = mt::hmac(mt::Alg::Sha256, &key.secret, &mt::request_digest_input(&bytes, id, &vars));
    let rd = mr::encode_tsig(&mr::TsigRdata { algorithm: mt::Alg::Sha256.name(), time_signed: now, fudge: 3600, mac, original_id: id, error: 0, other: Vec::new() });
    bytes.extend_from_slice(&key.name.wire());
    bytes.extend_from_slice(&mr::T_TSIG.to_be_bytes());
    bytes.extend_from_slice(&255u16.to_be_bytes());
    bytes.extend_from_slice(&0u32.to_be_bytes());
    bytes.extend_from_slice(&(rd.len() as u16).to_be_bytes());
    bytes.extend_from_slice(&rd);
    bytes
}

/// Two signed responses agree in everything but the TSIG record (whose time and MAC differ from call to call).
fn same_apart_from_tsig(a: &[u8], b: &[u8]) -> bool {
    match (decode_message(a), decode_message(b)) {
        (Ok(x), Ok(y)) => {
            let sec = |v: &Vec<vmodel::wire::RrDecode>| v.iter().map(|r| (r.owner.name.folded(), r.rtype, r.class, r.ttl_raw, r.rdata.clone())).collect::<Vec<_>>();
            x.header.rcode == y.header.rcode
                && x.header.aa == y.header.aa
                && x.header.tc == y.header.tc
                && sec(&x.answers) == sec(&y.answers)
                && sec(&x.authority) == sec(&y.authority)
                && plain_additional(&x).len() == plain_additional(&y).len()
                && x.tsig().is_some() == y.tsig().is_some()
        }
        _ => false,
    }
}

pub fn oracle_bucket(case: &BucketCase, st: &mut Stats) -> Verdict {
    let spec = fixed_catalog();
    let (cat, _model) = build(&spec);
    let mut req = case.req.clone();
    req.tcp = false;
    req.opcode = 0;
    for _attempt in 0..5 {
        let keys = if case.signed { vec![bucket_key()] } else { vec![] };
        let limited_server = make_server(&cat, &ServerCfg { payload: 1232, keys: keys.clone(), rrl: Some(case.rrl.clone()) });
        let twin = make_server(&cat, &ServerCfg { payload: 1232, keys, rrl: None });
        let bytes = if case.signed {
            let now = std::time::SystemTime::now().duration_since(std::time::UNIX_EPOCH).map(|d| d.as_secs()).unwrap_or(0);
            sign_request(&render_req(&req, 77), now)
        } else {
            render_req(&req, 77)
        };
        let src = addr_of(&req);
        let mut buf = Vec::new();
        let twin_resp = match exchange(&twin, &bytes, false, src, &mut buf)? {
            Some(r) => r,
            None => return Ok(()),
        };
        let cat_idx = category(decode_message(&twin_resp).map(|d| d.extended_rcode()).unwrap_or(2));
        let rate = [case.rrl.noerror, case.rrl.nxdomain, case.rrl.error][cat_idx as usize].max(1) as u128;
        let limit = rate * case.rrl.window.max(1) as u128;
        // reference bucket: None = no entry yet
        let mut used: Option<u128> = None;
        let started = Instant::now();
        let mut limited_seen = false;
        let mut recovered = false;
        let mut local = Stats::default();
        let verdict: Verdict = (|| {
        for (i, gap) in case.gaps.iter().enumerate() {
            limited_server.shift_rrl_time(*gap);
            let got = exchange(&limited_server, &bytes, false, src, &mut buf).map_err(|f| Fail::new(f.signature, format!("step #{i} after advancing {gap} s (rate {rate}, window {}): {}", case.rrl.window, f.detail)))?;
            local.eval();
            let expect_limited = match used {
                None => {
                    used = Some(1);
                    false
                }
                Some(u) => {
                    let u = u.saturating_sub(rate * *gap as u128);
                    if u >= limit {
                        used = Some(u);
                        true
                    } else {
                        used = Some(u + 1);
                        false
                    }
                }
            };
            let describe = || format!("step #{i} (advance {gap} s; rate {rate}/s, window {} s, limit {limit}, slip {}, reference bucket level after this step {:?})", case.rrl.window, case.rrl.slip, used);
            if expect_limited {
                limited_seen = true;
                match (&got, case.rrl.slip) {
                    (None, 0) => {}
                    (Some(r), 0) => fail!("limited-response-sent", "{}: the response must be dropped (slip 0) but {} was sent", describe(), hex(r)),
                    (Some(r), 1) => ensure!(is_slip(r), "slip-not-truncated", "{}: slip 1 requires a TC response without records, got {}", describe(), hex(r)),
                    (None, 1) => fail!("slip-dropped", "{}: slip 1 requires a truncated response, but nothing was sent", describe()),
                    (None, _) => {}
                    (Some(r), _) => ensure!(is_slip(r), "limited-response-sent", "{}: a limited response may only be dropped or slipped (TC, no records), got {}", describe(), hex(r)),
                }
            } else {
                if limited_seen && *gap > 0 {
                    recovered = true;
                }
                match &got {
                    Some(r) => ensure!(*r == twin_resp || (case.signed && same_apart_from_tsig(r, &twin_resp)), "sent-response-differs", "{}: the response differs from the unlimited server's: {} vs {}", describe(), hex(r), hex(&twin_resp)),
                    None => fail!("unlimited-response-dropped", "{}: the response must be sent but was dropped", describe()),
                }
            }
        }
        Ok(())
        })();
        // Real time passes too: a history that took more than half a second is not judged (a whole
        // second of real time adds a refill the reference does not know about), whatever it showed;
        // it is run again, and given up after five attempts. A panic is a panic at any speed.
        if started.elapsed().as_millis() > 500 && !matches!(&verdict, Err(f) if f.signature.starts_with("panic")) {
            st.discard("history-took-too-long-retried");
            continue;
        }
        verdict?;
        st.evals(local.evaluations);
        st.class(["stream-noerror", "stream-nxdomain", "stream-error"][cat_idx as usize]);
        if limited_seen {
            st.class("history-with-limited-response");
            if case.signed {
                st.class("history-of-signed-requests-with-limited-response");
            }
        }
        if recovered {
            st.class("limited-then-refilled-and-sent");
            st.nontrivial(case, || json!({"rate": rate as u64, "window": case.rrl.window, "slip": case.rrl.slip, "gaps": case.gaps}));
        }
        return Ok(());
    }
    st.discard("history-never-ran-within-the-real-time-budget");
    Ok(())
}

fn bucket_case() -> impl Strategy<Value = BucketCase> {
    let rate = || prop_oneof![10 => 1u32..5, 3 => 5u32..40, 1 => 1000u32..1_000_000];
    (rate(), rate(), rate(), prop_oneof![8 => 1u32..4, 2 => 4u32..20, 1 => 60u32..=3600], prop_oneof![3 => Just(0usize), 3 => Just(1), 1 => Just(2), 1 => Just(5)], prop_oneof![Just(1usize), Just(7), Just(65537)])
        .prop_filter("window too large for rates", |(a, b, c, w, _, _)| a.checked_mul(*w).is_some() && b.checked_mul(*w).is_some() && c.checked_mul(*w).is_some())
        .prop_flat_map(|(noerror, nxdomain, error, window, slip, size)| {
            let max_rate = noerror.max(nxdomain).max(error) as u64;
            let overflow = (1u64 << 32) / max_rate.max(1);
            let gap = prop_oneof![
                10 => Just(0u64),
                4 => Just(1u64),
                2 => Just(2u64),
                2 => Just(window as u64),
                1 => Just(window as u64 + 1),
                1 => Just(1_000u64),
                1 => Just(1_000_000u64),
                1 => Just(1_000_000_000u64),
                1 => Just(overflow.saturating_sub(1)),
                1 => Just(overflow),
                1 => Just(overflow + 1),
                1 => Just((1u64 << 32) + 1),
            ];
            let shape = prop_oneof![Just(Shape::Answer(0)), Just(Shape::NxDomain(0)), Just(Shape::Refused(0)), Just(Shape::Wild(0, 0)), Just(Shape::ServFail), Just(Shape::BadVers), Just(Shape::FormErr), Just(Shape::NotImpQtype), Just(Shape::NoData), Just(Shape::Referral)];
            (
                Just(RrlSpec { noerror, nxdomain, error, window, slip, v4_prefix: 24, v6_prefix: 56, size }),
                shape,
                // enough requests to reach the limit when it is small; long tails of zero gaps
                prop::collection::vec(gap, 1..200),
            )
        })
        .prop_map(|(rrl, shape, gaps)| BucketCase {
            // one history in five is signed (derived from the history itself: no further generator input)
            signed: gaps.len() % 5 == 0 && !matches!(shape, Shape::FormErr | Shape::BadVers),
            rrl,
            req: Req { shape, mask: 0, tcp: false, opcode: 0, family: 0, addr: 0x0a00_0001 },
            gaps,
        })
}

////////////////////////////////////////////////////////////////////////
// C27                                                                //
////////////////////////////////////////////////////////////////////////

#[derive(Clone, Debug, Serialize, Deserialize, PartialEq, Eq, Hash)]
pub struct PairCase {
    pub v4_prefix: u8,
    pub v6_prefix: u8,
    pub size: usize,
    pub a: Req,
    pub b: Req,
}

pub fn oracle_pair(case: &PairCase, st: &mut Stats) -> Verdict {
    let spec = fixed_catalog();
    let (cat, model) = build(&spec);
    let rrl = RrlSpec {
        noerror: 1,
        nxdomain: 1,
        error: 1,
        window: 1,
        slip: 0,
        v4_prefix: case.v4_prefix.min(32),
        v6_prefix: case.v6_prefix.min(64),
        size: case.size.max(1),
    };
    for _attempt in 0..5 {
        let server = make_server(&cat, &ServerCfg { payload: 1232, keys: vec![], rrl: Some(rrl.clone()) });
        let twin = make_server(&cat, &ServerCfg { payload: 1232, keys: vec![], rrl: None });
        let mut buf = Vec::new();
        let (ra, rb) = (render_req(&case.a, 1), render_req(&case.b, 2));
        let (sa, sb) = (addr_of(&case.a), addr_of(&case.b));
        let ta = exchange(&twin, &ra, case.a.tcp, sa, &mut buf)?;
        let tb = exchange(&twin, &rb, case.b.tcp, sb, &mut buf)?;
        let (ta, tb) = match (ta, tb) {
            (Some(a), Some(b)) => (a, b),
            _ => return Ok(()),
        };
        let started = Instant::now();
        let ga = exchange(&server, &ra, case.a.tcp, sa, &mut buf)?;
        let gb = exchange(&server, &rb, case.b.tcp, sb, &mut buf)?;
        // a pair that took more than half a second is never judged (a refill may have happened)
        if started.elapsed().as_millis() > 500 {
            st.discard("pair-took-too-long-retried");
            continue;
        }
        st.eval();
        ensure!(ga.as_deref() == Some(&ta[..]), "first-response-limited", "the first response of a fresh limiter was not sent unchanged (request {})", hex(&ra));
        let ka = stream_key(&case.a, &ta, &model, rrl.v4_prefix, rrl.v6_prefix);
        let kb = stream_key(&case.b, &tb, &model, rrl.v4_prefix, rrl.v6_prefix);
        let same = ka.is_some() && ka == kb;
        // how many components of the key differ (when both are subject)
        if let (Some(x), Some(y)) = (&ka, &kb) {
            let diffs = (x.0 != y.0) as u8 + (x.1 != y.1) as u8 + (x.2 != y.2) as u8 + (x.3 != y.3) as u8;
            st.class(&format!("subject-pairs-differing-in-{diffs}-components"));
            if diffs <= 1 {
                st.nontrivial(case, || json!({"a": format!("{:?} from {sa}", case.a.shape), "b": format!("{:?} from {sb}", case.b.shape), "key_a": format!("{x:?}"), "key_b": format!("{y:?}"), "same_stream": same}));
            }
            if same && (matches!(case.a.shape, Shape::WildNx(..)) != matches!(case.b.shape, Shape::WildNx(..))) {
                st.class("same-stream: NXDOMAIN through a wildcard CNAME and another NXDOMAIN");
            }
        } else {
            st.class("pair-with-exempt-request");
        }
        let describe = || {
            format!(
                "A = {:?} from {sa} over {} opcode {}, B = {:?} from {sb} over {} opcode {} (prefixes /{} and /{}, table size {}); stream keys {ka:?} and {kb:?}",
                case.a.shape,
                if case.a.tcp { "TCP" } else { "UDP" },
                case.a.opcode % 16,
                case.b.shape,
                if case.b.tcp { "TCP" } else { "UDP" },
                case.b.opcode % 16,
                rrl.v4_prefix,
                rrl.v6_prefix,
                rrl.size
            )
        };
        if same {
            ensure!(gb.is_none(), "same-stream-not-limited", "{}: both responses belong to one stream with a limit of one, but the second was sent", describe());
        } else {
            ensure!(
                gb.as_deref() == Some(&tb[..]),
                if kb.is_none() { "exempt-response-limited" } else { "different-stream-limited" },
                "{}: the second response must be sent unchanged, got {:?}",
                describe(),
                gb.as_ref().map(|r| hex(r))
            );
        }
        return Ok(());
    }
    Ok(())
}

fn req_strategy() -> impl Strategy<Value = Req> {
    let shape = prop_oneof![
        3 => (0u8..4).prop_map(Shape::Answer),
        1 => Just(Shape::NoData),
        1 => Just(Shape::Referral),
        3 => (0u8..2, 0u8..3).prop_map(|(w, v)| Shape::Wild(w, v)),
        1 => (0u8..2).prop_map(Shape::LiteralStar),
        2 => (0u8..2).prop_map(Shape::NxDomain),
        2 => (0u8..2, 0u8..2).prop_map(|(w, v)| Shape::WildNx(w, v)),
        2 => (0u8..3).prop_map(Shape::WildBig),
        2 => (0u8..2).prop_map(Shape::Refused),
        1 => Just(Shape::ServFail),
        1 => Just(Shape::FormErr),
        1 => Just(Shape::BadVers),
        1 => Just(Shape::NotImpQtype),
    ];
    (
        shape,
        prop_oneof![2 => Just(0u64), 1 => any::<u64>()],
        prop::bool::weighted(0.1),
        prop_oneof![9 => Just(0u8), 1 => 1u8..16],
        0u8..4,
        prop_oneof![
            // addresses that differ in single bits around common prefix boundaries
            4 => (0u32..4, 0u32..4).prop_map(|(a, b)| (0x0a00_0000u128 | ((a as u128) << 8) | b as u128) | (0x2001_0db8u128 << 96) | ((a as u128) << 72) | ((b as u128) << 64)),
            1 => any::<u128>(),
        ],
    )
        .prop_map(|(shape, mask, tcp, opcode, family, addr)| Req { shape, mask, tcp, opcode, family, addr })
}

fn pair_case() -> impl Strategy<Value = PairCase> {
    (
        prop_oneof![Just(24u8), Just(32), Just(0), Just(23), Just(31), 0u8..=32],
        prop_oneof![Just(56u8), Just(64), Just(0), Just(55), Just(63), 0u8..=64],
        prop_oneof![Just(1usize), Just(7), Just(65537)],
        req_strategy(),
        req_strategy(),
        0u8..8,
    )
        .prop_map(|(v4_prefix, v6_prefix, size, a, mut b, relate)| {
            // make B a near copy of A in most cases so that exactly one key component differs
            match relate {
                0 => {}
                1 => b = a.clone(),
                2 => {
                    b = a.clone();
                    b.mask = !a.mask;
                }
                3 => {
                    let addr = b.addr;
                    b = a.clone();
                    b.addr = addr;
                }
                4 => {
                    let fam = b.family;
                    b = a.clone();
                    b.family = fam;
                }
                5 => {
                    let shape = b.shape.clone();
                    b = a.clone();
                    b.shape = shape;
                }
                6 => {
                    b = a.clone();
                    b.addr ^= 1 << (relate as u32 + (a.addr % 60) as u32);
                }
                _ => {
                    let (tcp, op) = (b.tcp, b.opcode);
                    b = a.clone();
                    b.tcp = tcp;
                    b.opcode = op;
                }
            }
            PairCase { v4_prefix, v6_prefix, size, a, b }
        })
}

pub fn run(ctx: &Ctx, report: &mut Report) {
    if ctx.id == "C27" {
        report.rule = "pairs of requests against a fresh limiter with a limit of one response per stream (rate 1, window 1, slip 0; table size \
            1 / 7 / 65537; IPv4 prefixes 0-32, IPv6 prefixes 0-64): sources IPv4 / IPv6 / IPv4-mapped IPv6 differing in single bits around \
            the prefix boundary, QNAMEs equal / case-flipped / different / both under one wildcard / the literal wildcard owner, outcomes \
            NOERROR (answer, NODATA, referral, wildcard), NXDOMAIN, FORMERR, REFUSED, SERVFAIL, BADVERS, NOTIMP, transports and opcodes. \
            The second response must be dropped iff both are UDP QUERY responses with equal stream keys (family after canonicalisation, \
            masked prefix, category, effective name). Non-trivial = pair whose keys agree in all components but at most one."
            .into();
        report.assumptions.push("32-bit name-hash collisions (probability 2^-32) are ignored; pairs taking > 0.5 s of wall time are retried".into());
        run_prop(ctx, report, PropSpec { name: "stream-pairs", cases: ctx.tier.pick(300_000, 3_000_000), max_shrink_iters: 2000 }, pair_case, oracle_pair);
    } else {
        report.rule = "one server and one response stream per history; RRL parameters (rates 1-10^6, window 1-3600, slip 0/1/2/5, table size \
            1/7/65537); histories of up to 200 steps (advance g seconds with the time-shift hook, then one request) with g from {0, 1, 2, \
            window, window+1, 10^3, 10^6, 10^9, ceil(2^32/rate) -1/0/+1, 2^32+1}; every step compared with an unbounded-integer token \
            bucket; sent responses must equal the unlimited twin server's response; slip 0 => dropped, slip 1 => TC without records, \
            slip >= 2 => either. evaluations = steps. Non-trivial = history with a limited response followed by a refill and a sent one."
            .into();
        report.assumptions.push("hook verif_rrl_shift_time simulates elapsed time; real time also passes: histories taking > 0.5 s are retried (sub-second remainders are kept by the limiter, so < 1 s of real time cannot add a refill)".into());
        run_prop(ctx, report, PropSpec { name: "token-bucket", cases: ctx.tier.pick(6_000, 200_000), max_shrink_iters: 400 }, bucket_case, oracle_bucket);
        report.assumptions.push("sub-check token-bucket-subsecond: hook verif_rrl_shift_time_millis, gaps in multiples of 250 ms; only histories that ran in < 200 ms of real time are judged (then real and reference elapsed times have the same whole seconds at every step), slower ones are repeated, finally discarded".into());
        run_prop(ctx, report, PropSpec { name: "token-bucket-subsecond", cases: ctx.tier.pick(8_000, 200_000), max_shrink_iters: 400 }, frac::frac_case, frac::oracle_frac);
    }
}

pub fn replay(check: &str, case: &serde_json::Value) -> Verdict {
    use crate::fw::replay_case;
    if check == "stream-pairs" {
        replay_case::<PairCase, _>(case, oracle_pair)
    } else if check == "token-bucket-subsecond" {
        replay_case::<frac::FracCase, _>(case, frac::oracle_frac)
    } else {
        replay_case::<BucketCase, _>(case, oracle_bucket)
    }
}
