//! Framework shared by all checks: sharded proptest runners, statistics,
//! evidence files, replay files, known findings, panic capture.

use std::cell::RefCell;
use std::collections::hash_map::DefaultHasher;
use std::collections::{BTreeMap, HashSet};
use std::fmt::Debug;
use std::hash::{Hash, Hasher};
use std::panic::{self, AssertUnwindSafe};
use std::sync::atomic::{AtomicBool, Ordering};
use std::sync::Mutex;
use std::time::Instant;

use proptest::strategy::Strategy;
use proptest::test_runner::{Config, RngSeed, TestCaseError, TestError, TestRunner};
use serde::de::DeserializeOwned;
use serde::Serialize;
use serde_json::{json, Value};

pub const VERIF_ROOT: &str = "/verif";

////////////////////////////////////////////////////////////////////////
// CONTEXT                                                            //
////////////////////////////////////////////////////////////////////////

#[derive(Clone, Copy, Debug, PartialEq, Eq)]
pub enum Tier {
    Quick,
    Thorough,
}

impl Tier {
    pub fn as_str(self) -> &'static str {
        match self {
            Tier::Quick => "quick",
            Tier::Thorough => "thorough",
        }
    }
    /// Picks a case count by tier.
    pub fn pick(self, quick: u64, thorough: u64) -> u64 {
        let scale: f64 = std::env::var("VERIF_SCALE")
            .ok()
            .and_then(|s| s.parse().ok())
            .unwrap_or(1.0);
        let n = match self {
            Tier::Quick => quick,
            Tier::Thorough => thorough,
        };
        ((n as f64 * scale) as u64).max(1)
    }
}

pub struct Ctx {
    pub id: String,
    pub tier: Tier,
    pub seed: u64,
    pub shards: usize,
}

////////////////////////////////////////////////////////////////////////
// FAILURES                                                           //
////////////////////////////////////////////////////////////////////////

/// A property violation found by an oracle.
#[derive(Clone, Debug)]
pub struct Fail {
    /// Stable signature used to match known findings (e.g. panic message
    /// and location, or a behavioural class).
    pub signature: String,
    /// Human-readable diagnosis.
    pub detail: String,
}

impl Fail {
    pub fn new(signature: impl Into<String>, detail: impl Into<String>) -> Self {
        Fail {
            signature: signature.into(),
            detail: detail.into(),
        }
    }
}

pub type Verdict = Result<(), Fail>;

#[macro_export]
macro_rules! fail {
    ($sig:expr, $($arg:tt)*) => {
        return Err($crate::fw::Fail::new($sig, format!($($arg)*)))
    };
}

#[macro_export]
macro_rules! ensure {
    ($cond:expr, $sig:expr, $($arg:tt)*) => {
        if !($cond) {
            return Err($crate::fw::Fail::new($sig, format!($($arg)*)));
        }
    };
}

////////////////////////////////////////////////////////////////////////
// PANIC CAPTURE                                                      //
////////////////////////////////////////////////////////////////////////

thread_local! {
    static LAST_PANIC: RefCell<Option<String>> = const { RefCell::new(None) };
}

pub fn install_panic_hook() {
    let verbose = std::env::var("VERIF_PANIC_VERBOSE").is_ok();
    panic::set_hook(Box::new(move |info| {
        let msg = if let Some(s) = info.payload().downcast_ref::<&str>() {
            s.to_string()
        } else if let Some(s) = info.payload().downcast_ref::<String>() {
            s.clone()
        } else {
            "<non-string panic>".to_string()
        };
        let loc = info
            .location()
            .map(|l| format!("{}:{}", l.file(), l.line()))
            .unwrap_or_default();
        let text = format!("panic at {loc}: {msg}");
        if verbose {
            eprintln!("{text}");
        }
        LAST_PANIC.with(|p| *p.borrow_mut() = Some(text));
    }));
}

/// Runs `f`, converting a panic into `Err(description)`.
pub fn catch<T>(f: impl FnOnce() -> T) -> Result<T, String> {
    LAST_PANIC.with(|p| *p.borrow_mut() = None);
    match panic::catch_unwind(AssertUnwindSafe(f)) {
        Ok(v) => Ok(v),
        Err(_) => Err(LAST_PANIC
            .with(|p| p.borrow_mut().take())
            .unwrap_or_else(|| "panic (no message)".to_string())),
    }
}

/// Strips the line number from a panic description so that the signature
/// survives unrelated edits: "panic at src/x.rs:12: msg" -> "panic at src/x.rs: msg".
pub fn panic_signature(desc: &str) -> String {
    // desc = "panic at FILE:LINE: MSG"
    if let Some(rest) = desc.strip_prefix("panic at ") {
        if let Some(idx) = rest.find(": ") {
            let (loc, msg) = rest.split_at(idx);
            let file = loc.rsplit_once(':').map(|(f, _)| f).unwrap_or(loc);
            let file = file.strip_prefix("/repo/").unwrap_or(file);
            let msg: String = msg
                .chars()
                .map(|c| if c.is_ascii_digit() { '#' } else { c })
                .collect();
            return format!("panic {file}{msg}");
        }
    }
    format!("panic {desc}")
}

////////////////////////////////////////////////////////////////////////
// STATISTICS                                                         //
////////////////////////////////////////////////////////////////////////

#[derive(Default)]
pub struct Stats {
    pub evaluations: u64,
    pub nontrivial: HashSet<u64>,
    pub samples: Vec<Value>,
    pub classes: BTreeMap<String, u64>,
    pub discarded: BTreeMap<String, u64>,
    pub known_hits: BTreeMap<String, u64>,
    pub extra: BTreeMap<String, Value>,
    /// When true (shrinking in progress) nothing is recorded.
    pub frozen: bool,
}

pub fn hash_of<T: Hash + ?Sized>(v: &T) -> u64 {
    let mut h = DefaultHasher::new();
    v.hash(&mut h);
    h.finish()
}

impl Stats {
    pub fn eval(&mut self) {
        if !self.frozen {
            self.evaluations += 1;
        }
    }
    pub fn evals(&mut self, n: u64) {
        if !self.frozen {
            self.evaluations += n;
        }
    }
    pub fn class(&mut self, name: &str) {
        if !self.frozen {
            *self.classes.entry(name.to_string()).or_insert(0) += 1;
        }
    }
    pub fn class_n(&mut self, name: &str, n: u64) {
        if !self.frozen {
            *self.classes.entry(name.to_string()).or_insert(0) += n;
        }
    }
    pub fn discard(&mut self, name: &str) {
        if !self.frozen {
            *self.discarded.entry(name.to_string()).or_insert(0) += 1;
        }
    }
    /// Records a non-trivial case by fingerprint; `sample` is only evaluated
    /// while few samples have been kept.
    pub fn nontrivial<H: Hash + ?Sized>(&mut self, fp: &H, sample: impl FnOnce() -> Value) {
        if self.frozen {
            return;
        }
        let h = hash_of(fp);
        if self.nontrivial.insert(h) && self.samples.len() < 4 {
            self.samples.push(sample());
        }
    }
    pub fn merge(&mut self, other: Stats) {
        self.evaluations += other.evaluations;
        self.nontrivial.extend(other.nontrivial);
        for s in other.samples {
            if self.samples.len() < 8 {
                self.samples.push(s);
            }
        }
        for (k, v) in other.classes {
            *self.classes.entry(k).or_insert(0) += v;
        }
        for (k, v) in other.discarded {
            *self.discarded.entry(k).or_insert(0) += v;
        }
        for (k, v) in other.known_hits {
            *self.known_hits.entry(k).or_insert(0) += v;
        }
        for (k, v) in other.extra {
            self.extra.insert(k, v);
        }
    }
}

////////////////////////////////////////////////////////////////////////
// KNOWN FINDINGS                                                     //
////////////////////////////////////////////////////////////////////////

#[derive(Clone, Debug)]
pub struct KnownFinding {
    pub property: String,
    pub signature: String,
    pub what: String,
}

pub fn load_known_findings() -> Vec<KnownFinding> {
    let path = format!("{VERIF_ROOT}/known_findings.json");
    let text = match std::fs::read_to_string(&path) {
        Ok(t) => t,
        Err(_) => return Vec::new(),
    };
    let v: Value = serde_json::from_str(&text).expect("known_findings.json is not valid JSON");
    let mut out = Vec::new();
    if let Some(list) = v.get("known").and_then(|k| k.as_array()) {
        for e in list {
            out.push(KnownFinding {
                property: e["property"].as_str().unwrap_or("").to_string(),
                signature: e["signature"].as_str().unwrap_or("").to_string(),
                what: e["what"].as_str().unwrap_or("").to_string(),
            });
        }
    }
    out
}

////////////////////////////////////////////////////////////////////////
// REPORT                                                             //
////////////////////////////////////////////////////////////////////////

pub struct Violation {
    pub check: String,
    pub case: Value,
    pub fail: Fail,
}

/// Accumulates the result of all sub-checks of one property run.
pub struct Report {
    pub stats: Stats,
    pub violations: Vec<Violation>,
    pub rule: String,
    pub assumptions: Vec<String>,
    pub exhaustive: bool,
    pub known: Vec<KnownFinding>,
    pub subchecks: Vec<Value>,
}

impl Report {
    pub fn new(ctx: &Ctx) -> Self {
        let known = load_known_findings()
            .into_iter()
            .filter(|k| k.property == ctx.id)
            .collect();
        Report {
            stats: Stats::default(),
            violations: Vec::new(),
            rule: String::new(),
            assumptions: Vec::new(),
            exhaustive: false,
            known,
            subchecks: Vec::new(),
        }
    }
    pub fn is_known(&self, sig: &str) -> bool {
        self.known.iter().any(|k| k.signature == sig)
    }
}

////////////////////////////////////////////////////////////////////////
// SHARDED PROPTEST RUNNER                                            //
////////////////////////////////////////////////////////////////////////

fn derive_seed(seed: u64, id: &str, check: &str, shard: usize) -> u64 {
    let mut h = DefaultHasher::new();
    // DefaultHasher::new() uses fixed keys, so this is deterministic.
    (seed, id, check, shard as u64).hash(&mut h);
    h.finish()
}

pub struct PropSpec {
    pub name: &'static str,
    pub cases: u64,
    pub max_shrink_iters: u32,
}

/// Runs `cases` generated cases of `strategy` against `oracle`, sharded over
/// threads.  Known findings (by signature) are counted and do not stop the
/// search.  The first unknown failure of each shard is shrunk; the smallest
/// shard index with a failure is reported.
pub fn run_prop<T, S, MkS, F>(ctx: &Ctx, report: &mut Report, spec: PropSpec, mk: MkS, oracle: F)
where
    T: Debug + Clone + Serialize + Send + 'static,
    S: Strategy<Value = T>,
    MkS: Fn() -> S + Sync,
    F: Fn(&T, &mut Stats) -> Verdict + Sync,
{
    let start = Instant::now();
    let shards = ctx.shards.min(spec.cases as usize).max(1);
    let per = spec.cases / shards as u64;
    let extra = spec.cases % shards as u64;
    let known: Vec<String> = report.known.iter().map(|k| k.signature.clone()).collect();
    let stop = AtomicBool::new(false);
    let results: Mutex<Vec<(usize, Stats, Option<(T, Fail)>)>> = Mutex::new(Vec::new());
    // watchdog: the case each shard is currently evaluating, with its start time
    let slots: Vec<Mutex<Option<(Instant, T)>>> = (0..shards).map(|_| Mutex::new(None)).collect();
    let all_done = AtomicBool::new(false);
    let live = std::sync::atomic::AtomicUsize::new(shards);

    std::thread::scope(|scope| {
        {
            let slots = &slots;
            let all_done = &all_done;
            let id = ctx.id.clone();
            let tier = ctx.tier;
            let name = spec.name;
            scope.spawn(move || {
                let stall = std::time::Duration::from_secs(
                    std::env::var("VERIF_STALL_SECS").ok().and_then(|s| s.parse().ok()).unwrap_or(60),
                );
                while !all_done.load(Ordering::Relaxed) {
                    std::thread::sleep(std::time::Duration::from_millis(250));
                    for slot in slots {
                        let stalled = {
                            let g = slot.lock().unwrap();
                            match &*g {
                                Some((since, v)) if since.elapsed() > stall => Some(v.clone()),
                                _ => None,
                            }
                        };
                        if let Some(v) = stalled {
                            handle_stall(&id, tier, name, serde_json::to_value(&v).unwrap_or(Value::Null), stall.as_secs());
                        }
                    }
                }
            });
        }
        for shard in 0..shards {
            let slot = &slots[shard];
            let all_done = &all_done;
            let live = &live;
            let mk = &mk;
            let oracle = &oracle;
            let known = &known;
            let stop = &stop;
            let results = &results;
            let name = spec.name;
            let cases = per + if (shard as u64) < extra { 1 } else { 0 };
            let max_shrink_iters = spec.max_shrink_iters;
            let seed = derive_seed(ctx.seed, &ctx.id, name, shard);
            std::thread::Builder::new()
                .stack_size(64 << 20)
                .spawn_scoped(scope, move || {
                    // a panic in this thread outside the guarded oracle call (strategy construction,
                    // value generation) is a harness error; without this the monitor would wait forever
                    struct ShardGuard;
                    impl Drop for ShardGuard {
                        fn drop(&mut self) {
                            if std::thread::panicking() {
                                eprintln!("INFRA: a shard thread of the harness panicked outside the oracle");
                                std::process::exit(2);
                            }
                        }
                    }
                    let _guard = ShardGuard;
                    let config = Config {
                        cases: cases as u32,
                        failure_persistence: None,
                        rng_seed: RngSeed::Fixed(seed),
                        max_shrink_iters,
                        max_global_rejects: 1 << 30,
                        ..Config::default()
                    };
                    let mut runner = TestRunner::new(config);
                    let stats = RefCell::new(Stats::default());
                    let last_fail: RefCell<Option<Fail>> = RefCell::new(None);
                    let strategy = mk();
                    let res = runner.run(&strategy, |v| {
                        if stop.load(Ordering::Relaxed) && !stats.borrow().frozen {
                            // Another shard failed; finish quickly.
                            return Ok(());
                        }
                        let mut st = stats.borrow_mut();
                        *slot.lock().unwrap() = Some((Instant::now(), v.clone()));
                        let verdict = match catch(|| oracle(&v, &mut st)) {
                            Ok(r) => r,
                            Err(p) => Err(Fail::new(
                                format!("harness-{}", panic_signature(&p)),
                                format!("oracle panicked outside a guarded call: {p}"),
                            )),
                        };
                        *slot.lock().unwrap() = None;
                        match verdict {
                            Ok(()) => Ok(()),
                            Err(f) => {
                                if known.iter().any(|k| *k == f.signature) {
                                    if !st.frozen {
                                        *st.known_hits.entry(f.signature.clone()).or_insert(0) += 1;
                                    }
                                    Ok(())
                                } else {
                                    st.frozen = true;
                                    stop.store(true, Ordering::Relaxed);
                                    let reason = f.detail.clone();
                                    *last_fail.borrow_mut() = Some(f);
                                    Err(TestCaseError::fail(reason))
                                }
                            }
                        }
                    });
                    let failure = match res {
                        Ok(()) => None,
                        Err(TestError::Fail(_, value)) => {
                            // Re-run the oracle on the minimal value to get its own diagnosis.
                            let mut scratch = Stats {
                                frozen: true,
                                ..Stats::default()
                            };
                            let f = match catch(|| oracle(&value, &mut scratch)) {
                                Ok(Err(f)) => f,
                                Ok(Ok(())) => last_fail.borrow().clone().unwrap_or_else(|| {
                                    Fail::new("unstable", "failure did not reproduce on the shrunk value")
                                }),
                                Err(p) => Fail::new(
                                    format!("harness-{}", panic_signature(&p)),
                                    format!("oracle panicked: {p}"),
                                ),
                            };
                            Some((value, f))
                        }
                        Err(TestError::Abort(reason)) => {
                            eprintln!("INFRA: proptest aborted in {name}: {reason}");
                            std::process::exit(2);
                        }
                    };
                    let mut st = stats.into_inner();
                    st.frozen = false;
                    results.lock().unwrap().push((shard, st, failure));
                    if live.fetch_sub(1, Ordering::SeqCst) == 1 {
                        all_done.store(true, Ordering::SeqCst);
                    }
                })
                .expect("spawn shard");
        }
    });

    let mut results = results.into_inner().unwrap();
    results.sort_by_key(|r| r.0);
    let mut sub = Stats::default();
    let mut first_fail = None;
    for (_, st, failure) in results {
        sub.merge(st);
        if first_fail.is_none() {
            first_fail = failure;
        }
    }
    report.subchecks.push(json!({
        "name": spec.name,
        "cases_requested": spec.cases,
        "evaluations": sub.evaluations,
        "distinct_nontrivial": sub.nontrivial.len(),
        "wall_s": start.elapsed().as_secs_f64(),
    }));
    report.stats.merge(sub);
    if let Some((value, f)) = first_fail {
        report.violations.push(Violation {
            check: spec.name.to_string(),
            case: serde_json::to_value(&value).unwrap_or(Value::Null),
            fail: f,
        });
    }
}

/// Called by the watchdog when one case has been running for `secs` seconds.
/// The case is saved as a replay file and re-run in a fresh process with a
/// generous limit.  Only for the properties whose statement includes
/// termination (C14, C24) a stall that reproduces there is reported as a
/// violation; everything else — and a stall that does not reproduce — is an
/// infrastructure failure (exit 2), never a violation.
fn handle_stall(id: &str, tier: Tier, check: &str, case: Value, secs: u64) -> ! {
    let body = json!({
        "property": id,
        "check": check,
        "case": case,
        "signature": "non-termination",
        "diagnosis": format!("one case did not finish within {secs} s"),
        "tier": tier.as_str(),
    });
    let dir = format!("{VERIF_ROOT}/replays");
    let _ = std::fs::create_dir_all(&dir);
    let path = format!("{dir}/{id}-stall-{:016x}.json", fnv64(body.to_string().as_bytes()));
    let _ = std::fs::write(&path, serde_json::to_string_pretty(&body).unwrap());
    eprintln!("WATCHDOG: a case of sub-check {check} has been running for more than {secs} s; saved as {path}; re-running it in a fresh process");
    let exe = std::env::current_exe().unwrap();
    let mut child = match std::process::Command::new(exe).args([id, "quick", "--replay", &path]).spawn() {
        Ok(c) => c,
        Err(e) => {
            eprintln!("INFRA: cannot re-run the stalled case: {e}");
            std::process::exit(2);
        }
    };
    let deadline = Instant::now() + std::time::Duration::from_secs(3 * secs.max(20));
    loop {
        match child.try_wait() {
            Ok(Some(_)) => {
                eprintln!("INFRA: the stalled case finished when re-run alone; the stall is attributed to the environment");
                std::process::exit(2);
            }
            Ok(None) if Instant::now() > deadline => {
                let _ = child.kill();
                if id == "C14" || id == "C24" {
                    println!("VIOLATION property={id} replay={path}");
                    eprintln!("the case does not terminate when re-run alone either: non-termination");
                    std::process::exit(1);
                }
                eprintln!("INFRA: the case stalls again when re-run alone (property {id} does not cover termination)");
                std::process::exit(2);
            }
            Ok(None) => std::thread::sleep(std::time::Duration::from_millis(200)),
            Err(e) => {
                eprintln!("INFRA: waiting for the re-run failed: {e}");
                std::process::exit(2);
            }
        }
    }
}

/// Replays one stored case through an oracle.
pub fn replay_case<T, F>(case: &Value, oracle: F) -> Verdict
where
    T: DeserializeOwned,
    F: Fn(&T, &mut Stats) -> Verdict,
{
    let v: T = match serde_json::from_value(case.clone()) {
        Ok(v) => v,
        Err(e) => {
            eprintln!("INFRA: cannot deserialise replay case: {e}");
            std::process::exit(2);
        }
    };
    let mut st = Stats::default();
    match catch(|| oracle(&v, &mut st)) {
        Ok(r) => r,
        Err(p) => Err(Fail::new(
            format!("harness-{}", panic_signature(&p)),
            format!("oracle panicked: {p}"),
        )),
    }
}

/// Runs an explicit (non-proptest) list of work items in parallel shards;
/// used for exhaustive sweeps.  `f` is given the item index range for its shard.
pub fn run_parallel<F>(ctx: &Ctx, report: &mut Report, name: &'static str, total: u64, f: F)
where
    F: Fn(std::ops::Range<u64>, &mut Stats) -> Option<(Value, Fail)> + Sync,
{
    let start = Instant::now();
    let shards = (ctx.shards as u64).min(total).max(1);
    let known: Vec<String> = report.known.iter().map(|k| k.signature.clone()).collect();
    let _ = known;
    let results: Mutex<Vec<(u64, Stats, Option<(Value, Fail)>)>> = Mutex::new(Vec::new());
    std::thread::scope(|scope| {
        for shard in 0..shards {
            let f = &f;
            let results = &results;
            let lo = total * shard / shards;
            let hi = total * (shard + 1) / shards;
            std::thread::Builder::new()
                .stack_size(64 << 20)
                .spawn_scoped(scope, move || {
                    let mut st = Stats::default();
                    let failure = f(lo..hi, &mut st);
                    results.lock().unwrap().push((shard, st, failure));
                })
                .expect("spawn");
        }
    });
    let mut results = results.into_inner().unwrap();
    results.sort_by_key(|r| r.0);
    let mut sub = Stats::default();
    let mut first_fail = None;
    for (_, st, failure) in results {
        sub.merge(st);
        if first_fail.is_none() {
            first_fail = failure;
        }
    }
    report.subchecks.push(json!({
        "name": name,
        "items": total,
        "evaluations": sub.evaluations,
        "distinct_nontrivial": sub.nontrivial.len(),
        "wall_s": start.elapsed().as_secs_f64(),
    }));
    report.stats.merge(sub);
    if let Some((case, fail)) = first_fail {
        if report.is_known(&fail.signature) {
            *report.stats.known_hits.entry(fail.signature.clone()).or_insert(0) += 1;
        } else {
            report.violations.push(Violation {
                check: name.to_string(),
                case,
                fail,
            });
        }
    }
}

////////////////////////////////////////////////////////////////////////
// OUTPUT                                                             //
////////////////////////////////////////////////////////////////////////

fn fnv64(data: &[u8]) -> u64 {
    let mut h: u64 = 0xcbf29ce484222325;
    for b in data {
        h ^= *b as u64;
        h = h.wrapping_mul(0x100000001b3);
    }
    h
}

/// Writes evidence, prints VIOLATION / KNOWN-FINDING lines, returns the exit code.
pub fn finish(ctx: &Ctx, report: Report, started: Instant) -> i32 {
    let mut exit = 0;
    let mut stdout_lines = Vec::new();
    for v in &report.violations {
        let body = json!({
            "property": ctx.id.strip_suffix('S').unwrap_or(&ctx.id),
            "check": v.check,
            "case": v.case,
            "signature": v.fail.signature,
            "diagnosis": v.fail.detail,
            "seed": ctx.seed,
            "tier": ctx.tier.as_str(),
        });
        let text = serde_json::to_string_pretty(&body).unwrap();
        let name = format!(
            "{}-{:016x}.json",
            ctx.id,
            fnv64(format!("{}{}", v.check, v.case).as_bytes())
        );
        let dir = format!("{VERIF_ROOT}/replays");
        let _ = std::fs::create_dir_all(&dir);
        let path = format!("{dir}/{name}");
        if let Err(e) = std::fs::write(&path, text) {
            eprintln!("INFRA: cannot write replay file {path}: {e}");
            return 2;
        }
        eprintln!(
            "violation in sub-check {} [{}]: {}",
            v.check, v.fail.signature, v.fail.detail
        );
        stdout_lines.push(format!("VIOLATION property={} replay={}", ctx.id.strip_suffix('S').unwrap_or(&ctx.id), path));
        exit = 1;
    }
    for k in &report.known {
        let hits = report.stats.known_hits.get(&k.signature).copied().unwrap_or(0);
        stdout_lines.push(format!(
            "KNOWN-FINDING: property={} {} [signature={}; hit {} times in this run]",
            ctx.id, k.what, k.signature, hits
        ));
    }
    let mut empty_classes: Vec<String> = Vec::new();
    for (k, v) in &report.stats.classes {
        if *v == 0 {
            empty_classes.push(k.clone());
        }
    }
    let mut samples = report.stats.samples.clone();
    if samples.is_empty() {
        samples.push(json!("no non-trivial sample recorded in this run"));
    }
    let evidence = json!({
        "property_id": ctx.id,
        "tier": ctx.tier.as_str(),
        "seed": ctx.seed,
        "level": "exploration",
        "coverage": {
            "evaluations": report.stats.evaluations,
            "distinct_nontrivial": report.stats.nontrivial.len(),
            "rule": report.rule,
            "samples": samples,
            "exhaustive": report.exhaustive,
            "classes": report.stats.classes,
            "discarded": report.stats.discarded,
            "known_finding_hits": report.stats.known_hits,
            "subchecks": report.subchecks,
            "extra": report.stats.extra,
        },
        "assumptions": report.assumptions,
        "wall_s": started.elapsed().as_secs_f64(),
        "violations": report.violations.len(),
    });
    // (auxiliary runs such as the OS-thread stress of C28/C32 write elsewhere;
    // their numbers are folded into the property's evidence by the main engine)
    let dir = std::env::var("VERIF_EVIDENCE_DIR").unwrap_or_else(|_| format!("{VERIF_ROOT}/evidence"));
    let _ = std::fs::create_dir_all(&dir);
    let path = format!("{dir}/{}.json", ctx.id);
    if let Err(e) = std::fs::write(&path, serde_json::to_string_pretty(&evidence).unwrap()) {
        eprintln!("INFRA: cannot write evidence file {path}: {e}");
        return 2;
    }
    for l in stdout_lines {
        println!("{l}");
    }
    println!(
        "{} {} seed={} evaluations={} distinct_nontrivial={} violations={} wall={:.1}s",
        ctx.id,
        ctx.tier.as_str(),
        ctx.seed,
        report.stats.evaluations,
        report.stats.nontrivial.len(),
        report.violations.len(),
        started.elapsed().as_secs_f64()
    );
    exit
}
