//! Generator of requests for the server-level checks: structured requests
//! whose question is drawn from around the catalog's names, with optional
//! extra records in every section, OPT records, a TSIG record signed by the
//! independent signer (vmodel::tsig), and byte-level mutations.

use std::net::{IpAddr, Ipv4Addr, Ipv6Addr};

use proptest::prelude::*;
use serde::{Deserialize, Serialize};
use vmodel::name::MName;
use vmodel::rdata as mr;
use vmodel::tsig::{self as mt, Alg};

use crate::gen::{flip_case, pick};
use crate::msggen::{apply_mutation, mutation, opt_rr, rr_spec, MsgSpec, Mutation, QSpec, RrSpec};
use crate::srvrun::KeySpec;

#[derive(Clone, Debug, Serialize, Deserialize, PartialEq, Eq, Hash)]
pub struct QSel {
    pub sel: u16,
    /// 0 exact, 1 child, 2 parent, 3 wildcard-ish child, 4 unrelated
    pub how: u8,
    pub mask: u64,
    pub qtype: u16,
    /// 0..=3 class of the selected name, 4 ANY, 5 NONE, 6 IN, 7 raw
    pub qclass_mode: u8,
    pub qclass_raw: u16,
    /// compression selector for the QNAME (pointers in a QNAME can only point into the header)
    pub comp: u16,
}

#[derive(Clone, Debug, Serialize, Deserialize, PartialEq, Eq, Hash)]
pub enum KeyChoice {
    /// one of the server's keys
    Configured(u16),
    /// a configured key name with a wrong secret
    WrongSecret(u16),
    /// a configured key name with the other algorithm
    OtherAlgorithm(u16),
    /// a name the server does not know
    UnknownName,
    /// a configured key with an algorithm name the server does not implement
    UnknownAlgorithm(u16),
    /// unknown key and algorithm names of the given wire lengths (up to 255 each)
    Giant(u8, u8),
}

#[derive(Clone, Debug, Serialize, Deserialize, PartialEq, Eq, Hash)]
pub struct TsigReq {
    pub key: KeyChoice,
    /// truncate the MAC to this many octets
    pub mac_len: Option<u8>,
    /// seconds added to the current time for the time-signed field
    pub time_offset: i64,
    pub fudge: u16,
    /// original ID (None = same as the header ID)
    pub original_id: Option<u16>,
    /// flip one bit: (position selector, bit); before signing = false means tamper after signing
    pub tamper: Option<(u16, u8)>,
    pub error: u16,
    pub other: Vec<u8>,
    pub class: u16,
    pub ttl: u32,
    /// put the TSIG record before the last additional record instead of last
    pub misplaced: bool,
    /// case mask applied to the key name in the record
    pub name_mask: u64,
}

#[derive(Clone, Debug, Serialize, Deserialize, PartialEq, Eq, Hash)]
pub struct ReqSpec {
    pub id: u16,
    pub flags: u16,
    pub questions: Vec<QSel>,
    pub answers: Vec<RrSpec>,
    pub authority: Vec<RrSpec>,
    pub additional: Vec<RrSpec>,
    pub tsig: Option<TsigReq>,
    pub mutations: Vec<Mutation>,
    pub tcp: bool,
    pub source: (u8, u64, u64),
}

pub fn unknown_key_name() -> MName {
    MName {
        labels: vec![b"nobody".to_vec(), b"keys".to_vec()],
    }
}

pub fn source_addr(s: &(u8, u64, u64)) -> IpAddr {
    match s.0 % 4 {
        0 | 1 => IpAddr::V4(Ipv4Addr::from((s.1 & 0xffff_ffff) as u32)),
        2 => IpAddr::V6(Ipv6Addr::from(((s.1 as u128) << 64) | s.2 as u128)),
        _ => IpAddr::V6(Ipv4Addr::from((s.1 & 0xffff_ffff) as u32).to_ipv6_mapped()),
    }
}

/// Resolves a question selector against the pool of (name, class) pairs.
pub fn resolve_question(q: &QSel, pool: &[(MName, u16)]) -> QSpec {
    let (base, class) = if pool.is_empty() {
        (MName { labels: vec![b"test".to_vec()] }, mr::C_IN)
    } else {
        pool[pick(q.sel, pool.len())].clone()
    };
    let name = match q.how % 6 {
        // one label that swallows the whole base name (fewer labels, same wire-form tail)
        5 => crate::gen::merged_confusable(&base).unwrap_or_else(|| base.clone()),
        0 => base.clone(),
        1 => base.child(b"a"),
        2 => base.parent().unwrap_or_else(MName::root),
        3 => base.child(b"zz").child(b"*"),
        _ => MName {
            labels: vec![b"unrelated".to_vec(), b"invalid".to_vec()],
        },
    };
    let name = if name.is_valid() { name } else { base };
    let qclass = match q.qclass_mode % 8 {
        0..=3 => class,
        4 => mr::C_ANY,
        5 => mr::C_NONE,
        6 => mr::C_IN,
        _ => q.qclass_raw,
    };
    QSpec {
        qname: flip_case(&name, q.mask),
        comp: q.comp,
        qtype: q.qtype,
        qclass,
    }
}

/// Information about the TSIG record that was appended (for oracles).
#[derive(Clone, Debug)]
pub struct SignedInfo {
    pub key_name: MName,
    pub alg_name: MName,
    pub full_mac: Vec<u8>,
    pub sent_mac: Vec<u8>,
    pub time_signed: u64,
}

pub struct Rendered {
    pub bytes: Vec<u8>,
    pub signed: Option<SignedInfo>,
    /// the bytes before mutations
    pub clean: Vec<u8>,
}

fn tsig_rdata(alg_name: &MName, time: u64, fudge: u16, mac: &[u8], oid: u16, error: u16, other: &[u8]) -> Vec<u8> {
    mr::encode_tsig(&mr::TsigRdata {
        algorithm: alg_name.clone(),
        time_signed: time & 0xffff_ffff_ffff,
        fudge,
        mac: mac.to_vec(),
        original_id: oid,
        error,
        other: other.to_vec(),
    })
}

fn append_rr(buf: &mut Vec<u8>, owner: &MName, rtype: u16, class: u16, ttl: u32, rdata: &[u8]) {
    buf.extend_from_slice(&owner.wire());
    buf.extend_from_slice(&rtype.to_be_bytes());
    buf.extend_from_slice(&class.to_be_bytes());
    buf.extend_from_slice(&ttl.to_be_bytes());
    buf.extend_from_slice(&(rdata.len() as u16).to_be_bytes());
    buf.extend_from_slice(rdata);
    let ar = u16::from_be_bytes([buf[10], buf[11]]).wrapping_add(1);
    buf[10..12].copy_from_slice(&ar.to_be_bytes());
}

pub fn render(spec: &ReqSpec, pool: &[(MName, u16)], keys: &[KeySpec], now: u64) -> Rendered {
    let mut additional = spec.additional.clone();
    let mut held_back: Option<RrSpec> = None;
    if let Some(t) = &spec.tsig {
        if t.misplaced {
            held_back = additional.pop();
        }
    }
    let msg = MsgSpec {
        id: spec.id,
        flags: spec.flags & 0x7fff, // QR clear (requests with QR set are generated through mutations / C03)
        questions: spec.questions.iter().map(|q| resolve_question(q, pool)).collect(),
        answers: spec.answers.clone(),
        authority: spec.authority.clone(),
        additional,
        mutations: vec![],
    };
    let mut buf = msg.render_clean();
    let mut signed = None;
    if let Some(t) = &spec.tsig {
        let configured = |sel: u16| -> Option<&KeySpec> {
            if keys.is_empty() {
                None
            } else {
                Some(&keys[pick(sel, keys.len())])
            }
        };
        let (key_name, alg, alg_name, secret): (MName, Alg, MName, Vec<u8>) = match &t.key {
            KeyChoice::Configured(s) => match configured(*s) {
                Some(k) => (k.name.clone(), k.alg(), k.alg().name(), k.secret.clone()),
                None => (unknown_key_name(), Alg::Sha256, Alg::Sha256.name(), vec![1, 2, 3]),
            },
            KeyChoice::WrongSecret(s) => match configured(*s) {
                Some(k) => {
                    let mut sec = k.secret.clone();
                    sec[0] ^= 0x55;
                    (k.name.clone(), k.alg(), k.alg().name(), sec)
                }
                None => (unknown_key_name(), Alg::Sha256, Alg::Sha256.name(), vec![1, 2, 3]),
            },
            KeyChoice::OtherAlgorithm(s) => match configured(*s) {
                Some(k) => {
                    let other = if k.sha256 { Alg::Sha1 } else { Alg::Sha256 };
                    (k.name.clone(), other, other.name(), k.secret.clone())
                }
                None => (unknown_key_name(), Alg::Sha1, Alg::Sha1.name(), vec![1, 2, 3]),
            },
            KeyChoice::UnknownName => (unknown_key_name(), Alg::Sha256, Alg::Sha256.name(), vec![9, 9, 9]),
            KeyChoice::Giant(a, b) => {
                let kn = crate::gen::name_of_wire_len((*a as usize).max(3), 63, b'k').unwrap_or_else(unknown_key_name);
                let an = crate::gen::name_of_wire_len((*b as usize).max(3), 63, b'g').unwrap_or_else(unknown_key_name);
                (kn, Alg::Sha256, an, vec![7])
            }
            KeyChoice::UnknownAlgorithm(s) => {
                let an = MName {
                    labels: vec![b"hmac-md5".to_vec(), b"sig-alg".to_vec(), b"reg".to_vec(), b"int".to_vec()],
                };
                match configured(*s) {
                    Some(k) => (k.name.clone(), k.alg(), an, k.secret.clone()),
                    None => (unknown_key_name(), Alg::Sha1, an, vec![1]),
                }
            }
        };
        let time = (now as i64 + t.time_offset).max(0) as u64 & 0xffff_ffff_ffff;
        let oid = t.original_id.unwrap_or(spec.id);
        // tamper before signing is pointless; tampering happens after signing below
        // ARCOUNT must count the TSIG RR while the digest is computed over ARCOUNT-1 (R6 handles that)
        let mut with_count = buf.clone();
        let ar = u16::from_be_bytes([with_count[10], with_count[11]]).wrapping_add(1);
        with_count[10..12].copy_from_slice(&ar.to_be_bytes());
        let vars = mt::Vars {
            key_name: key_name.clone(),
            alg_name: alg_name.clone(),
            time_signed: time,
            fudge: t.fudge,
            error: t.error,
            other: t.other.clone(),
        };
        let full = mt::hmac(alg, &secret, &mt::request_digest_input(&with_count, oid, &vars));
        let sent: Vec<u8> = match t.mac_len {
            Some(l) => full[..(l as usize).min(full.len())].to_vec(),
            None => full.clone(),
        };
        let rd = tsig_rdata(&alg_name, time, t.fudge, &sent, oid, t.error, &t.other);
        let owner = flip_case(&key_name, t.name_mask);
        append_rr(&mut buf, &owner, mr::T_TSIG, t.class, t.ttl, &rd);
        if let Some(rr) = held_back {
            // a record after the TSIG record
            let mut r = crate::msggen::Renderer::new();
            r.put_rr(&RrSpec { owner_comp: 0, ..rr });
            buf.extend_from_slice(&r.buf);
            let ar = u16::from_be_bytes([buf[10], buf[11]]).wrapping_add(1);
            buf[10..12].copy_from_slice(&ar.to_be_bytes());
        }
        if let Some((sel, bit)) = t.tamper {
            let i = pick(sel, buf.len());
            buf[i] ^= 1 << (bit % 8);
        }
        signed = Some(SignedInfo {
            key_name,
            alg_name,
            full_mac: full,
            sent_mac: sent,
            time_signed: time,
        });
    }
    let clean = buf.clone();
    for m in &spec.mutations {
        apply_mutation(&mut buf, m);
    }
    buf.truncate(65535);
    Rendered { bytes: buf, signed, clean }
}

////////////////////////////////////////////////////////////////////////
// STRATEGIES                                                         //
////////////////////////////////////////////////////////////////////////

pub fn qsel() -> impl Strategy<Value = QSel> {
    (
        any::<u16>(),
        prop_oneof![5 => Just(0u8), 2 => Just(1u8), 1 => Just(2u8), 1 => Just(3u8), 1 => Just(4u8), 1 => Just(5u8)],
        prop_oneof![3 => Just(0u64), 1 => any::<u64>()],
        prop_oneof![
            8 => prop_oneof![Just(mr::T_A), Just(mr::T_AAAA), Just(mr::T_NS), Just(mr::T_CNAME), Just(mr::T_SOA), Just(mr::T_MX), Just(mr::T_TXT), Just(mr::T_SRV), Just(mr::T_ANY)],
            1 => prop_oneof![Just(mr::T_AXFR), Just(mr::T_IXFR), Just(mr::T_MAILA), Just(mr::T_MAILB), Just(mr::T_OPT), Just(mr::T_TSIG)],
            1 => any::<u16>(),
        ],
        prop_oneof![10 => Just(0u8), 1 => 4u8..8],
        any::<u16>(),
        prop_oneof![8 => Just(0u16), 1 => any::<u16>()],
    )
        .prop_map(|(sel, how, mask, qtype, qclass_mode, qclass_raw, comp)| QSel {
            sel,
            how,
            mask,
            qtype,
            qclass_mode,
            qclass_raw,
            comp,
        })
}

pub fn tsig_req() -> impl Strategy<Value = TsigReq> {
    (
        prop_oneof![
            6 => any::<u16>().prop_map(KeyChoice::Configured),
            2 => any::<u16>().prop_map(KeyChoice::WrongSecret),
            1 => any::<u16>().prop_map(KeyChoice::OtherAlgorithm),
            1 => Just(KeyChoice::UnknownName),
            1 => any::<u16>().prop_map(KeyChoice::UnknownAlgorithm),
            1 => (prop_oneof![Just(255u8), 100u8..=255], prop_oneof![Just(255u8), 100u8..=255]).prop_map(|(a, b)| KeyChoice::Giant(a, b)),
        ],
        prop::option::weighted(0.35, 0u8..=33),
        prop_oneof![6 => -200i64..=200, 1 => 303i64..=100000, 1 => -100000i64..=-303, 1 => Just(0i64)],
        prop_oneof![6 => Just(300u16), 1 => Just(0u16), 1 => any::<u16>()],
        prop::option::weighted(0.2, any::<u16>()),
        prop::option::weighted(0.12, (any::<u16>(), 0u8..8)),
        prop_oneof![8 => Just(0u16), 1 => any::<u16>()],
        prop_oneof![8 => Just(Vec::new()), 1 => prop::collection::vec(any::<u8>(), 1..8), 1 => prop::collection::vec(any::<u8>(), 6..40)],
        prop_oneof![12 => Just(mr::C_ANY), 1 => Just(mr::C_IN)],
        prop_oneof![12 => Just(0u32), 1 => Just(1u32), 1 => Just(0x8000_0000u32)],
        prop::bool::weighted(0.06),
        prop_oneof![3 => Just(0u64), 1 => any::<u64>()],
    )
        .prop_map(|(key, mac_len, time_offset, fudge, original_id, tamper, error, other, class, ttl, misplaced, name_mask)| TsigReq {
            key,
            mac_len,
            time_offset,
            fudge,
            original_id,
            tamper,
            error,
            other,
            class,
            ttl,
            misplaced,
            name_mask,
        })
}

/// `p_mut_pct`: percentage of requests with byte-level mutations; `p_tsig`: probability of a TSIG record.
pub fn req_spec(p_mut_pct: u32, p_tsig: f64) -> impl Strategy<Value = ReqSpec> {
    let p_mut_pct = p_mut_pct.clamp(1, 99);
    (
        (any::<u16>(), prop_oneof![6 => prop_oneof![Just(0u16), Just(0x0100u16), Just(0x0120u16)], 2 => any::<u16>().prop_map(|f| f & 0x7fff), 1 => (1u16..16).prop_map(|op| op << 11)]),
        prop_oneof![1 => Just(0usize), 12 => Just(1usize), 1 => Just(2usize)].prop_flat_map(|n| prop::collection::vec(qsel(), n..=n)),
        prop_oneof![8 => Just(Vec::new()).boxed(), 1 => prop::collection::vec(rr_spec(), 1..3).boxed()],
        prop_oneof![8 => Just(Vec::new()).boxed(), 1 => prop::collection::vec(prop_oneof![4 => rr_spec().boxed(), 1 => opt_rr().boxed()], 1..3).boxed()],
        prop_oneof![
            5 => Just(Vec::new()).boxed(),
            6 => opt_rr().prop_map(|o| vec![o]).boxed(),
            2 => prop::collection::vec(prop_oneof![2 => rr_spec().boxed(), 2 => opt_rr().boxed()], 1..4).boxed(),
        ],
        prop::option::weighted(p_tsig, tsig_req()),
        prop_oneof![100 - p_mut_pct => Just(Vec::new()).boxed(), p_mut_pct => prop::collection::vec(mutation(), 1..3).boxed()],
        any::<bool>(),
        (0u8..4, any::<u64>(), any::<u64>()),
    )
        .prop_map(|((id, flags), questions, answers, authority, additional, tsig, mutations, tcp, source)| ReqSpec {
            id,
            flags,
            questions,
            answers,
            authority,
            additional,
            tsig,
            mutations,
            tcp,
            source,
        })
}

pub fn key_specs() -> impl Strategy<Value = Vec<KeySpec>> {
    prop::collection::vec(
        (
            prop_oneof![Just(b"key1".to_vec()), Just(b"Key2".to_vec()), Just(b"transfer".to_vec()), Just(b"k".to_vec())],
            any::<bool>(),
            prop::collection::vec(any::<u8>(), 1..64),
        ),
        0..4,
    )
    .prop_map(|v| {
        let mut out: Vec<KeySpec> = Vec::new();
        for (label, sha256, secret) in v {
            let name = MName {
                labels: vec![label, b"keys".to_vec()],
            };
            if !out.iter().any(|k| k.name.eq_fold(&name)) {
                out.push(KeySpec { name, sha256, secret });
            }
        }
        out
    })
}
