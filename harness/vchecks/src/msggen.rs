//! Generator of DNS messages as structured specifications that render to
//! octets (with optional name compression) plus byte-level mutations.  The
//! rendering is done here, independently of quandary's writer.

use proptest::prelude::*;
use serde::{Deserialize, Serialize};
use vmodel::name::MName;
use vmodel::rdata::*;

use crate::gen::{arb_name, pick, pool_name};

#[derive(Clone, Debug, Serialize, Deserialize, PartialEq, Eq, Hash)]
pub enum FieldSpec {
    Bytes(Vec<u8>),
    /// a name and a compression selector (0 = never compress; otherwise picks
    /// among the available earlier suffixes)
    Name(MName, u16),
}

#[derive(Clone, Debug, Serialize, Deserialize, PartialEq, Eq, Hash)]
pub struct RrSpec {
    pub owner: MName,
    pub owner_comp: u16,
    pub rtype: u16,
    pub class: u16,
    pub ttl: u32,
    pub rdata: Vec<FieldSpec>,
    /// override of the RDLENGTH field (None = actual length)
    pub rdlength_override: Option<u16>,
}

#[derive(Clone, Debug, Serialize, Deserialize, PartialEq, Eq, Hash)]
pub struct QSpec {
    pub qname: MName,
    pub comp: u16,
    pub qtype: u16,
    pub qclass: u16,
}

#[derive(Clone, Debug, Serialize, Deserialize, PartialEq, Eq, Hash)]
pub enum Mutation {
    Truncate(u16),
    Append(Vec<u8>),
    SetByte(u16, u8),
    FlipBit(u16, u8),
    /// set one of the four count fields
    SetCount(u8, u16),
    Insert(u16, Vec<u8>),
    Delete(u16, u8),
    /// overwrite two octets with a compression pointer
    Pointer(u16, u16),
}

#[derive(Clone, Debug, Serialize, Deserialize, PartialEq, Eq, Hash)]
pub struct MsgSpec {
    pub id: u16,
    pub flags: u16,
    pub questions: Vec<QSpec>,
    pub answers: Vec<RrSpec>,
    pub authority: Vec<RrSpec>,
    pub additional: Vec<RrSpec>,
    pub mutations: Vec<Mutation>,
}

/// Renders names with optional compression against earlier names.
pub struct Renderer {
    pub buf: Vec<u8>,
    /// (offset of a label's length octet, the name suffix starting there)
    known: Vec<(usize, MName)>,
    /// offsets of pointers that lead (directly or through other such pointers) to a root label
    root_pointers: Vec<usize>,
}

impl Renderer {
    pub fn new() -> Self {
        Renderer {
            buf: Vec::new(),
            known: Vec::new(),
            root_pointers: Vec::new(),
        }
    }

    pub fn put_name(&mut self, name: &MName, comp: u16) {
        // candidate (skip, offset): the suffix after `skip` labels was written at `offset`
        let mut cands: Vec<(usize, usize)> = Vec::new();
        if comp != 0 {
            for skip in 0..name.labels.len() {
                let suffix = MName {
                    labels: name.labels[skip..].to_vec(),
                };
                for (off, k) in &self.known {
                    if *off < 0x3fff && k.eq_fold(&suffix) {
                        cands.push((skip, *off));
                    }
                }
            }
        }
        // a pointer to a bare root label (any zero octet written so far outside the header's count fields) after
        // all the labels: the longest possible first chunk for a name
        // (a root name may be written that way too, and the target may itself be such a pointer: a chain)
        if name.labels.is_empty() && comp % 5 == 2 && comp != 0xffff {
            let mut targets: Vec<usize> = self.buf.iter().enumerate().filter(|(i, b)| **b == 0 && *i < 0x3fff && !(4..12).contains(i)).map(|(i, _)| i).collect();
            targets.extend(self.root_pointers.iter().copied());
            if !targets.is_empty() {
                let t = targets[pick(comp, targets.len())];
                self.root_pointers.push(self.buf.len());
                self.buf.push(0xc0 | (t >> 8) as u8);
                self.buf.push(t as u8);
                return;
            }
        }
        let zeros: Vec<usize> = if comp % 5 == 2 && !name.labels.is_empty() {
            // (not the header's count fields: records appended or removed later change them)
            let mut z: Vec<usize> = self.buf.iter().enumerate().filter(|(i, b)| **b == 0 && *i < 0x3fff && !(4..12).contains(i)).map(|(i, _)| i).collect();
            z.extend(self.root_pointers.iter().copied());
            z
        } else {
            Vec::new()
        };
        let ends_in_root_pointer = !zeros.is_empty();
        let choice = if !zeros.is_empty() {
            Some((name.labels.len(), zeros[pick(comp, zeros.len())]))
        } else if cands.is_empty() {
            None
        } else {
            // comp in 1..=65535 spreads over candidates; most of the range picks the longest suffix
            let idx = if comp >= 0x8000 { 0 } else { pick(comp * 2, cands.len()) };
            Some(cands[idx])
        };
        let literal = choice.map_or(name.labels.len(), |(skip, _)| skip);
        for i in 0..literal {
            let off = self.buf.len();
            self.known.push((
                off,
                MName {
                    labels: name.labels[i..].to_vec(),
                },
            ));
            self.buf.push(name.labels[i].len() as u8);
            self.buf.extend_from_slice(&name.labels[i]);
        }
        match choice {
            Some((_, off)) => {
                if ends_in_root_pointer {
                    self.root_pointers.push(self.buf.len());
                }
                self.buf.push(0xc0 | (off >> 8) as u8);
                self.buf.push(off as u8);
            }
            None => self.buf.push(0),
        }
    }

    pub fn put_rr(&mut self, rr: &RrSpec) {
        self.put_name(&rr.owner, rr.owner_comp);
        self.buf.extend_from_slice(&rr.rtype.to_be_bytes());
        self.buf.extend_from_slice(&rr.class.to_be_bytes());
        self.buf.extend_from_slice(&rr.ttl.to_be_bytes());
        let len_pos = self.buf.len();
        self.buf.extend_from_slice(&[0, 0]);
        let start = self.buf.len();
        for f in &rr.rdata {
            match f {
                FieldSpec::Bytes(b) => self.buf.extend_from_slice(b),
                FieldSpec::Name(n, c) => self.put_name(n, *c),
            }
        }
        let len = (self.buf.len() - start).min(65535) as u16;
        let len = rr.rdlength_override.unwrap_or(len);
        self.buf[len_pos..len_pos + 2].copy_from_slice(&len.to_be_bytes());
    }
}

impl MsgSpec {
    /// Renders without mutations.
    pub fn render_clean(&self) -> Vec<u8> {
        let mut r = Renderer::new();
        r.buf.extend_from_slice(&self.id.to_be_bytes());
        r.buf.extend_from_slice(&self.flags.to_be_bytes());
        for c in [
            self.questions.len(),
            self.answers.len(),
            self.authority.len(),
            self.additional.len(),
        ] {
            r.buf.extend_from_slice(&(c as u16).to_be_bytes());
        }
        for q in &self.questions {
            r.put_name(&q.qname, q.comp);
            r.buf.extend_from_slice(&q.qtype.to_be_bytes());
            r.buf.extend_from_slice(&q.qclass.to_be_bytes());
        }
        for rr in self.answers.iter().chain(self.authority.iter()).chain(self.additional.iter()) {
            r.put_rr(rr);
        }
        r.buf
    }

    pub fn render(&self) -> Vec<u8> {
        let mut buf = self.render_clean();
        for m in &self.mutations {
            apply_mutation(&mut buf, m);
        }
        buf.truncate(65535);
        buf
    }
}

pub fn apply_mutation(buf: &mut Vec<u8>, m: &Mutation) {
    match m {
        Mutation::Truncate(sel) => {
            let keep = pick(*sel, buf.len() + 1);
            buf.truncate(keep);
        }
        Mutation::Append(b) => buf.extend_from_slice(b),
        Mutation::SetByte(sel, v) => {
            if !buf.is_empty() {
                let i = pick(*sel, buf.len());
                buf[i] = *v;
            }
        }
        Mutation::FlipBit(sel, bit) => {
            if !buf.is_empty() {
                let i = pick(*sel, buf.len());
                buf[i] ^= 1 << (bit % 8);
            }
        }
        Mutation::SetCount(idx, v) => {
            let off = 4 + 2 * (*idx as usize % 4);
            if buf.len() >= off + 2 {
                buf[off..off + 2].copy_from_slice(&v.to_be_bytes());
            }
        }
        Mutation::Insert(sel, b) => {
            let i = pick(*sel, buf.len() + 1);
            let tail = buf.split_off(i);
            buf.extend_from_slice(b);
            buf.extend_from_slice(&tail);
        }
        Mutation::Delete(sel, n) => {
            if !buf.is_empty() {
                let i = pick(*sel, buf.len());
                let end = (i + *n as usize).min(buf.len());
                buf.drain(i..end);
            }
        }
        Mutation::Pointer(sel, target) => {
            if buf.len() >= 2 {
                let i = pick(*sel, buf.len() - 1);
                let t = pick(*target, buf.len().min(0x3fff));
                buf[i] = 0xc0 | (t >> 8) as u8;
                buf[i + 1] = t as u8;
            }
        }
    }
}

////////////////////////////////////////////////////////////////////////
// STRATEGIES                                                         //
////////////////////////////////////////////////////////////////////////

pub fn comp_sel() -> impl Strategy<Value = u16> {
    prop_oneof![2 => Just(0u16), 5 => Just(0xffffu16), 2 => any::<u16>()]
}

pub fn gen_name() -> impl Strategy<Value = MName> {
    prop_oneof![16 => pool_name(4), 2 => arb_name(), 1 => crate::gen::boundary_name()]
}

fn name_field() -> impl Strategy<Value = FieldSpec> {
    (gen_name(), comp_sel()).prop_map(|(n, c)| FieldSpec::Name(n, c))
}

fn bytes(n: usize) -> impl Strategy<Value = FieldSpec> {
    prop::collection::vec(any::<u8>(), n..=n).prop_map(FieldSpec::Bytes)
}

fn char_string() -> impl Strategy<Value = Vec<u8>> {
    prop_oneof![
        8 => prop::collection::vec(any::<u8>(), 0..12),
        1 => prop::collection::vec(any::<u8>(), 250..=255),
    ]
    .prop_map(|s| {
        let mut v = vec![s.len() as u8];
        v.extend_from_slice(&s);
        v
    })
}

/// (type, class, well-formed RDATA fields) for every class/type the library knows, plus unknown types.
pub fn valid_rdata() -> BoxedStrategy<(u16, u16, Vec<FieldSpec>)> {
    let single = prop_oneof![Just(T_NS), Just(T_MD), Just(T_MF), Just(T_CNAME), Just(T_MB), Just(T_MG), Just(T_MR), Just(T_PTR)];
    let any_class = prop_oneof![6 => Just(C_IN), 2 => Just(C_CH), 1 => Just(C_HS), 1 => Just(300u16)];
    prop_oneof![
        3 => (bytes(4)).prop_map(|b| (T_A, C_IN, vec![b])),
        2 => (bytes(16)).prop_map(|b| (T_AAAA, C_IN, vec![b])),
        4 => (single, any_class.clone(), name_field()).prop_map(|(t, c, n)| (t, c, vec![n])),
        2 => (any_class.clone(), name_field(), name_field(), bytes(20)).prop_map(|(c, m, r, f)| (T_SOA, c, vec![m, r, f])),
        1 => (any_class.clone(), name_field(), name_field()).prop_map(|(c, a, b)| (T_MINFO, c, vec![a, b])),
        2 => (any_class.clone(), bytes(2), name_field()).prop_map(|(c, p, n)| (T_MX, c, vec![p, n])),
        2 => (any_class.clone(), prop::collection::vec(char_string(), 1..4)).prop_map(|(c, s)| (T_TXT, c, vec![FieldSpec::Bytes(s.concat())])),
        1 => (any_class.clone(), char_string(), char_string()).prop_map(|(c, a, b)| (T_HINFO, c, vec![FieldSpec::Bytes([a, b].concat())])),
        1 => (prop::collection::vec(any::<u8>(), 5..12)).prop_map(|b| (T_WKS, C_IN, vec![FieldSpec::Bytes(b)])),
        2 => (bytes(6), gen_name()).prop_map(|(f, n)| (T_SRV, C_IN, vec![f, FieldSpec::Name(n, 0)])),
        1 => (gen_name(), bytes(2)).prop_map(|(n, a)| (T_A, C_CH, vec![FieldSpec::Name(n, 0), a])),
        1 => (any_class.clone(), prop::collection::vec(any::<u8>(), 0..20)).prop_map(|(c, b)| (T_NULL, c, vec![FieldSpec::Bytes(b)])),
        2 => (prop_oneof![Just(99u16), Just(257u16), Just(65280u16), 17u16..28, Just(T_A), Just(T_AAAA), Just(T_SRV), Just(T_WKS)], prop_oneof![Just(C_HS), Just(300u16), Just(C_NONE)], prop::collection::vec(any::<u8>(), 0..24))
            .prop_map(|(t, c, b)| (t, c, vec![FieldSpec::Bytes(b)])),
    ]
    .boxed()
}

/// RDATA that is probably malformed for its type.
pub fn invalid_rdata() -> BoxedStrategy<(u16, u16, Vec<FieldSpec>)> {
    let known = prop_oneof![
        Just(T_A), Just(T_NS), Just(T_CNAME), Just(T_SOA), Just(T_MB), Just(T_WKS), Just(T_PTR), Just(T_HINFO), Just(T_MINFO),
        Just(T_MX), Just(T_TXT), Just(T_AAAA), Just(T_SRV), Just(T_OPT), Just(T_TSIG)
    ];
    prop_oneof![
        // arbitrary bytes for a known type
        3 => (known.clone(), prop_oneof![Just(C_IN), Just(C_CH)], prop::collection::vec(any::<u8>(), 0..30)).prop_map(|(t, c, b)| (t, c, vec![FieldSpec::Bytes(b)])),
        // empty / very short
        2 => (known, prop_oneof![Just(C_IN), Just(C_CH)], prop::collection::vec(any::<u8>(), 0..3)).prop_map(|(t, c, b)| (t, c, vec![FieldSpec::Bytes(b)])),
        // valid with junk appended or last octets removed
        3 => (valid_rdata(), prop::collection::vec(any::<u8>(), 1..3)).prop_map(|((t, c, mut f), junk)| {
            f.push(FieldSpec::Bytes(junk));
            (t, c, f)
        }),
        2 => valid_rdata().prop_map(|(t, c, mut f)| {
            match f.pop() {
                Some(FieldSpec::Bytes(mut b)) => {
                    b.pop();
                    f.push(FieldSpec::Bytes(b));
                }
                Some(FieldSpec::Name(n, _)) => {
                    // name without its terminating root octet
                    let mut w = n.wire();
                    w.pop();
                    f.push(FieldSpec::Bytes(w));
                }
                None => {}
            }
            (t, c, f)
        }),
    ]
    .boxed()
}

pub fn rr_spec() -> impl Strategy<Value = RrSpec> {
    (
        gen_name(),
        comp_sel(),
        prop_oneof![9 => valid_rdata(), 2 => invalid_rdata()],
        prop_oneof![6 => 0u32..100000, 1 => Just(0x7fff_ffffu32), 1 => Just(0x8000_0000u32), 1 => any::<u32>()],
        prop_oneof![30 => Just(None), 1 => any::<u16>().prop_map(Some), 1 => (0u16..40).prop_map(Some)],
    )
        .prop_map(|(owner, owner_comp, (rtype, class, rdata), ttl, rdlength_override)| RrSpec {
            owner,
            owner_comp,
            rtype,
            class,
            ttl,
            rdata,
            rdlength_override,
        })
}

pub fn opt_rr() -> impl Strategy<Value = RrSpec> {
    (
        prop_oneof![9 => Just(MName::root()), 1 => gen_name()],
        prop_oneof![Just(0u16), Just(511u16), Just(512u16), Just(1232u16), Just(4096u16), Just(65535u16), any::<u16>(), 513u16..1400, 513u16..1400],
        prop_oneof![6 => Just(0u32), 1 => Just(0x0000_8000u32), 1 => Just(0x0001_0000u32), 1 => Just(0x8000_0000u32), 1 => Just(0x8001_0000u32), 2 => any::<u32>()],
        prop::collection::vec(
            prop_oneof![
                3 => (any::<u16>(), prop::collection::vec(any::<u8>(), 0..6)),
                // registered option codes at their legal lengths: COOKIE (8, or 16-40 octets), NSID, client subnet, padding, extended error
                2 => (Just(10u16), prop_oneof![Just(8usize), Just(16), Just(24), Just(40), Just(7), Just(41)]).prop_map(|(c, n)| (c, vec![0xc0; n])),
                1 => (prop_oneof![Just(3u16), Just(8u16), Just(12u16), Just(15u16)], prop::collection::vec(any::<u8>(), 0..12)),
            ],
            0..3,
        ),
        prop::option::weighted(0.08, prop::collection::vec(any::<u8>(), 1..4)),
        comp_sel(),
    )
        .prop_map(|(owner, size, ttl, options, junk, owner_comp)| {
            let mut rd = Vec::new();
            for (code, data) in options {
                rd.extend_from_slice(&code.to_be_bytes());
                rd.extend_from_slice(&(data.len() as u16).to_be_bytes());
                rd.extend_from_slice(&data);
            }
            if let Some(j) = junk {
                rd.extend_from_slice(&j);
            }
            RrSpec {
                owner,
                owner_comp,
                rtype: T_OPT,
                class: size,
                ttl,
                rdata: vec![FieldSpec::Bytes(rd)],
                rdlength_override: None,
            }
        })
}

pub fn q_spec() -> impl Strategy<Value = QSpec> {
    (
        gen_name(),
        comp_sel(),
        prop_oneof![
            6 => prop_oneof![Just(T_A), Just(T_NS), Just(T_CNAME), Just(T_SOA), Just(T_MX), Just(T_TXT), Just(T_AAAA), Just(T_SRV)],
            2 => prop_oneof![Just(T_ANY), Just(T_AXFR), Just(T_IXFR), Just(T_MAILA), Just(T_MAILB), Just(T_OPT), Just(T_TSIG)],
            1 => any::<u16>()
        ],
        prop_oneof![8 => Just(C_IN), 1 => Just(C_CH), 1 => Just(C_ANY), 1 => Just(C_NONE), 1 => any::<u16>()],
    )
        .prop_map(|(qname, comp, qtype, qclass)| QSpec {
            qname,
            comp,
            qtype,
            qclass,
        })
}

pub fn mutation() -> impl Strategy<Value = Mutation> {
    prop_oneof![
        3 => any::<u16>().prop_map(Mutation::Truncate),
        2 => prop::collection::vec(any::<u8>(), 1..12).prop_map(Mutation::Append),
        // trailing octets with structure: chains of (type, length, data) as in RFC 8490 DSO messages, zero fill
        2 => prop::collection::vec((prop_oneof![Just(0u16), Just(1u16), Just(2u16), any::<u16>()], prop::collection::vec(prop_oneof![Just(0u8), any::<u8>()], 0..10)), 1..3).prop_map(|tlvs| {
            let mut out = Vec::new();
            for (t, d) in tlvs {
                out.extend_from_slice(&t.to_be_bytes());
                out.extend_from_slice(&(d.len() as u16).to_be_bytes());
                out.extend_from_slice(&d);
            }
            Mutation::Append(out)
        }),
        1 => prop_oneof![Just(4usize), Just(8), Just(12), 1usize..16].prop_map(|n| Mutation::Append(vec![0u8; n])),
        2 => (any::<u16>(), any::<u8>()).prop_map(|(s, v)| Mutation::SetByte(s, v)),
        2 => (any::<u16>(), 0u8..8).prop_map(|(s, b)| Mutation::FlipBit(s, b)),
        2 => (0u8..4, prop_oneof![0u16..5, any::<u16>()]).prop_map(|(i, v)| Mutation::SetCount(i, v)),
        1 => (any::<u16>(), prop::collection::vec(any::<u8>(), 1..6)).prop_map(|(s, b)| Mutation::Insert(s, b)),
        1 => (any::<u16>(), 1u8..6).prop_map(|(s, n)| Mutation::Delete(s, n)),
        1 => (any::<u16>(), any::<u16>()).prop_map(|(s, t)| Mutation::Pointer(s, t)),
    ]
}

/// A generic message (not necessarily a sensible request): used by the reader
/// check and as raw material for server checks.
pub fn msg_spec() -> impl Strategy<Value = MsgSpec> {
    (
        any::<u16>(),
        any::<u16>(),
        prop::collection::vec(q_spec(), 0..3),
        prop::collection::vec(rr_spec(), 0..4),
        prop::collection::vec(rr_spec(), 0..3),
        prop::collection::vec(prop_oneof![4 => rr_spec(), 1 => opt_rr()], 0..4),
        prop_oneof![3 => Just(Vec::new()), 2 => prop::collection::vec(mutation(), 1..3)],
    )
        .prop_map(|(id, flags, questions, answers, authority, additional, mutations)| MsgSpec {
            id,
            flags,
            questions,
            answers,
            authority,
            additional,
            mutations,
        })
}
