//! `vcheck <ID> <quick|thorough> [--replay FILE]`


use std::time::Instant;

use vchecks::fw::{self, Ctx, Report, Tier};
use vchecks::{checks, fuzzglue};

fn usage() -> ! {
    eprintln!("usage: vcheck <ID> <quick|thorough> [--replay FILE]");
    std::process::exit(2);
}

fn main() {
    let args: Vec<String> = std::env::args().skip(1).collect();
    if args.len() < 2 {
        usage();
    }
    let id = args[0].clone();
    let tier = match args[1].as_str() {
        "quick" => Tier::Quick,
        "thorough" => Tier::Thorough,
        _ => usage(),
    };
    let mut replay = None;
    let mut i = 2;
    while i < args.len() {
        if args[i] == "--replay" && i + 1 < args.len() {
            replay = Some(args[i + 1].clone());
            i += 2;
        } else {
            usage();
        }
    }
    let seed: u64 = std::env::var("VERIF_SEED")
        .ok()
        .and_then(|s| s.trim().parse::<i128>().ok())
        .map(|v| v as u64)
        .unwrap_or(1);
    let shards: usize = std::env::var("VERIF_SHARDS")
        .ok()
        .and_then(|s| s.parse().ok())
        .unwrap_or(16);
    let ctx = Ctx {
        id: id.clone(),
        tier,
        seed,
        shards,
    };
    fw::install_panic_hook();
    if id == "CORPUS" {
        // maintenance command: regenerate the committed seed corpora of the fuzz targets
        fuzzglue::write_seed_corpus();
        println!("seed corpora written under /verif/corpus");
        return;
    }
    let entry = match checks::lookup(&id) {
        Some(e) => e,
        None => {
            eprintln!("unknown property id {id}");
            std::process::exit(2);
        }
    };

    if let Some(path) = replay {
        let text = match std::fs::read_to_string(&path) {
            Ok(t) => t,
            Err(e) => {
                eprintln!("INFRA: cannot read replay file {path}: {e}");
                std::process::exit(2);
            }
        };
        let v: serde_json::Value = match serde_json::from_str(&text) {
            Ok(v) => v,
            Err(e) => {
                eprintln!("INFRA: replay file is not JSON: {e}");
                std::process::exit(2);
            }
        };
        let check = v["check"].as_str().unwrap_or("").to_string();
        let verdict = if check.starts_with("fuzz") || check.starts_with("miri:") {
            fuzzglue::replay(&id, &check, &v["case"]).unwrap_or_else(|| {
                eprintln!("INFRA: malformed fuzz replay file {path}");
                std::process::exit(2);
            })
        } else {
            (entry.replay)(&check, &v["case"])
        };
        match verdict {
            Ok(()) => {
                println!("replay of {path}: property {id} holds on this case");
                std::process::exit(0);
            }
            Err(f) => {
                eprintln!("replay [{}]: {}", f.signature, f.detail);
                let known = fw::load_known_findings();
                if known.iter().any(|k| k.property == id && k.signature == f.signature) {
                    println!("KNOWN-FINDING: property={id} signature={}", f.signature);
                    std::process::exit(0);
                }
                println!("VIOLATION property={id} replay={path}");
                std::process::exit(1);
            }
        }
    }

    let started = Instant::now();
    let mut report = Report::new(&ctx);
    if let Err(p) = fw::catch(std::panic::AssertUnwindSafe(|| (entry.run)(&ctx, &mut report))) {
        eprintln!("INFRA: the harness itself panicked: {p}");
        std::process::exit(2);
    }
    if let Err(p) = fw::catch(std::panic::AssertUnwindSafe(|| fuzzglue::after_run(&ctx, &mut report))) {
        eprintln!("INFRA: the harness itself panicked: {p}");
        std::process::exit(2);
    }
    let code = fw::finish(&ctx, report, started);
    std::process::exit(code);
}
