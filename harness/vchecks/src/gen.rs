//! Shared proptest strategies.

use proptest::prelude::*;
use vmodel::name::MName;

/// Maps a 16-bit selector monotonically onto 0..len (shrinks towards 0).
pub fn pick(sel: u16, len: usize) -> usize {
    debug_assert!(len > 0);
    (sel as usize * len) >> 16
}

/// A label octet: mostly letters (both cases), sometimes special characters or
/// arbitrary octets.
pub fn label_octet() -> impl Strategy<Value = u8> {
    prop_oneof![
        6 => prop_oneof![Just(b'a'), Just(b'b'), Just(b'A'), Just(b'B'), Just(b'z'), Just(b'Z'), Just(b'0'), Just(b'-')],
        2 => prop_oneof![Just(b'.'), Just(b'\\'), Just(b' '), Just(b'*'), Just(b'"'), Just(b'@'), Just(b';'), Just(b'('), Just(b')'), Just(b'$'), Just(0u8), Just(0x7fu8), Just(0xffu8), Just(b'\t'), Just(b'\n')],
        1 => any::<u8>(),
    ]
}

/// A single label with arbitrary octets (1..=63 octets).
pub fn arb_label() -> impl Strategy<Value = Vec<u8>> {
    prop_oneof![
        8 => prop::collection::vec(label_octet(), 1..=6),
        1 => prop::collection::vec(label_octet(), 60..=63),
        1 => Just(b"*".to_vec()),
        1 => prop::collection::vec(label_octet(), 1..=63),
    ]
}

/// Arbitrary valid name (any octets in labels, up to the size limits).
pub fn arb_name() -> impl Strategy<Value = MName> {
    prop_oneof![
        8 => prop::collection::vec(arb_label(), 0..=6),
        1 => prop::collection::vec(arb_label(), 0..=127),
        1 => prop::collection::vec(prop::collection::vec(label_octet(), 1..=2), 100..=127),
    ]
    .prop_map(|mut labels| {
        // trim to the 255-octet limit
        loop {
            let n = MName { labels: labels.clone() };
            if n.wire_len() <= 255 {
                return n;
            }
            labels.pop();
        }
    })
}

/// A name of exactly `target` wire octets made of labels of length `lab`
/// (the last labels adjusted); None if impossible.
pub fn name_of_wire_len(target: usize, lab: usize, fill: u8) -> Option<MName> {
    if target == 0 || target > 255 {
        return None;
    }
    let mut labels: Vec<Vec<u8>> = Vec::new();
    let mut total = 1usize;
    while total < target {
        let remaining = target - total;
        if remaining == 1 {
            // need to extend a previous label by one octet
            let l = labels.iter_mut().find(|l| l.len() < 63)?;
            l.push(fill);
            total += 1;
            continue;
        }
        let l = lab.clamp(1, 63).min(remaining - 1);
        labels.push(vec![fill; l]);
        total += l + 1;
    }
    Some(MName { labels })
}

/// Name with size at the limits: 255 octets, 127 labels, 63-octet labels.
pub fn boundary_name() -> impl Strategy<Value = MName> {
    (
        prop_oneof![Just(255usize), Just(254), Just(253), 200usize..=255],
        prop_oneof![Just(1usize), Just(63), Just(62), 1usize..=63],
        // fill octets incl. ones that are written as \\DDD in text (the longest text forms)
        prop_oneof![Just(b'a'), Just(b'A'), Just(b'.'), Just(0u8), Just(0xe9u8), Just(b' '), Just(0x7fu8), Just(0x01u8), Just(b'\\')],
    )
        .prop_map(|(t, l, f)| name_of_wire_len(t, l, f).unwrap_or_else(MName::root))
}

/// A name of ONE label whose octets are 'x' followed by the wire form of `base` without its root
/// label: its own wire form ends with `base`'s wire form although it has fewer labels than `base`
/// and is not at or below it. None when the label would exceed 63 octets or `base` is the root.
pub fn merged_confusable(base: &MName) -> Option<MName> {
    if base.labels.is_empty() {
        return None;
    }
    let w = base.wire();
    let mut label = vec![b'x'];
    label.extend_from_slice(&w[..w.len() - 1]);
    if label.len() > 63 {
        return None;
    }
    Some(MName { labels: vec![label] })
}

/// Small label alphabet so that collisions, case variants, shared suffixes and
/// wildcard matches are frequent.
pub const POOL_LABELS: &[&[u8]] = &[b"a", b"b", b"c", b"ns", b"mx", b"www", b"*", b"A", b"B", b"Ns", b"WWW", b"sub", b"x"];

pub fn pool_label() -> impl Strategy<Value = Vec<u8>> {
    any::<u16>().prop_map(|s| POOL_LABELS[pick(s, POOL_LABELS.len())].to_vec())
}

/// Name over the small alphabet, depth 0..=max_depth.
pub fn pool_name(max_depth: usize) -> impl Strategy<Value = MName> {
    prop::collection::vec(pool_label(), 0..=max_depth).prop_map(|labels| MName { labels })
}

/// Flips the case of letters selected by the bits of `mask`.
pub fn flip_case(name: &MName, mask: u64) -> MName {
    let mut bit = 0;
    let mut labels = name.labels.clone();
    for l in labels.iter_mut() {
        for b in l.iter_mut() {
            if b.is_ascii_alphabetic() {
                if mask & (1 << (bit % 64)) != 0 {
                    *b ^= 0x20;
                }
                bit += 1;
            }
        }
    }
    MName { labels }
}
