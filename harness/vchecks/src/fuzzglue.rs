//! Glue between the coverage-guided fuzz targets (../fuzz) and the checks.
//!
//! A fuzz target hands its raw input to `fuzz_one`, which decodes it into the
//! arguments of the *same* oracles the proptest checks use (so the semantic
//! oracle sits inside the target), ignores known findings, and on any other
//! failure writes a replay file and panics (libFuzzer then saves the input).
//! `vcheck` uses `after_run` to replay the committed corpus (both tiers), to
//! fold the statistics of a finished campaign into the evidence and to turn
//! campaign failures into violations after re-judging them itself.

use std::collections::BTreeMap;
use std::sync::OnceLock;

use proptest::strategy::{Strategy, ValueTree};
use proptest::test_runner::{Config, RngSeed, TestRunner};
use serde_json::{json, Value};
use vmodel::scan::{scan, KeyM};

use crate::checks::srvchk::{exchange, judge, keys_for_scan, now_secs, Prop};
use crate::checks::{c14, c15, c23};
use crate::fw::{self, Ctx, Fail, Report, Stats, Tier, Verdict, Violation, VERIF_ROOT};
use crate::reqgen::key_specs;
use crate::srvgen::{build, catalog_spec};
use crate::srvrun::{hex, localhost, make_server, AnyServer, ServerCfg};

pub const TARGETS: [&str; 4] = ["fz_name", "fz_reader", "fz_zonefile", "fz_server"];

pub fn properties_of(target: &str) -> &'static [&'static str] {
    match target {
        "fz_name" => &["C14"],
        "fz_reader" => &["C15"],
        "fz_zonefile" => &["C24"],
        "fz_server" => &["C01", "C02", "C03", "C08", "C09"],
        _ => &[],
    }
}

pub fn targets_of(property: &str) -> Vec<&'static str> {
    TARGETS.iter().copied().filter(|t| properties_of(t).contains(&property)).collect()
}

////////////////////////////////////////////////////////////////////////
// DECODING AND JUDGING                                               //
////////////////////////////////////////////////////////////////////////

struct FuzzServer {
    server: AnyServer,
    keys: Vec<KeyM>,
    payload: u16,
    /// names around the catalog's contents and the key specifications (for seed corpora)
    pool: Vec<(vmodel::name::MName, u16)>,
    key_specs: Vec<crate::srvrun::KeySpec>,
}

/// A fixed table of servers (no state leaks between iterations: RRL is off,
/// catalogs are immutable).  Drawn from the catalog generator with fixed seeds
/// so that the fuzz binary and vcheck build identical tables.
fn servers() -> &'static Vec<FuzzServer> {
    static S: OnceLock<Vec<FuzzServer>> = OnceLock::new();
    S.get_or_init(|| {
        let mut out = Vec::new();
        let payloads = [512u16, 1232, 4096, 1232, 65535, 700];
        for (i, payload) in payloads.iter().enumerate() {
            let mut runner = TestRunner::new(Config {
                rng_seed: RngSeed::Fixed(0xF022 + i as u64),
                failure_persistence: None,
                ..Config::default()
            });
            let catalog = loop {
                let c = catalog_spec(true, i % 2 == 1, false).new_tree(&mut runner).expect("catalog").current();
                if c.zones.iter().any(|z| z.kind % 3 == 0 && z.recs.len() >= 4) {
                    break c;
                }
            };
            let keys = key_specs().new_tree(&mut runner).expect("keys").current();
            let cfg = ServerCfg { payload: *payload, keys, rrl: None };
            let (built, model) = build(&catalog);
            let server = make_server(&built, &cfg);
            let pool = crate::checks::c05::query_names(&model, &[], 200);
            out.push(FuzzServer { server, keys: keys_for_scan(&cfg), payload: cfg.payload.max(512), pool, key_specs: cfg.keys.clone() });
        }
        out
    })
}

fn reader_ops(sel: &[u8]) -> Vec<c15::Op> {
    sel.iter()
        .map(|b| match b % 12 {
            0 => c15::Op::Header,
            1 => c15::Op::ReadQuestion,
            2 => c15::Op::SkipQuestion,
            3 | 4 => c15::Op::ReadRr,
            5 => c15::Op::SkipRr,
            6 => c15::Op::Peek { owner_calls: b / 12 % 3, end: c15::PeekEnd::Drop },
            7 => c15::Op::Peek { owner_calls: b / 12 % 3, end: c15::PeekEnd::Skip },
            8 => c15::Op::Peek { owner_calls: b / 12 % 3, end: c15::PeekEnd::Parse },
            9 => c15::Op::Mark,
            10 => c15::Op::Rewind,
            _ => c15::Op::AtEom,
        })
        .collect()
}

/// Runs the oracles of `target` on `data`: one verdict per property served.
pub fn run_bytes(target: &str, data: &[u8], st: &mut Stats) -> Vec<(&'static str, Verdict)> {
    match target {
        "fz_name" => {
            // two octets choose the start offset (0..=len+1), the rest is the buffer
            let (sel, buf) = if data.len() >= 2 { (u16::from_be_bytes([data[0], data[1]]) as usize, &data[2..]) } else { (0, data) };
            let start = sel % (buf.len() + 2);
            vec![("C14", c14::oracle(&c14::Case { buf: buf.to_vec(), start }))]
        }
        "fz_reader" => {
            // first octet: number of reader calls (<= 30); then that many selectors; then the message
            let n = data.first().map(|b| (*b as usize) % 31).unwrap_or(0).min(data.len().saturating_sub(1));
            let ops = reader_ops(&data[1.min(data.len())..(1 + n).min(data.len())]);
            let msg = &data[(1 + n).min(data.len())..];
            vec![("C15", c15::oracle_bytes(msg, &ops, st))]
        }
        "fz_zonefile" => vec![("C24", c23::oracle_c24(&c23::RawCase { text: data.to_vec() }, st))],
        "fz_server" => {
            // first octet: server (low bits) and transport (top bit); the rest is the request
            let table = servers();
            let (sel, req) = match data.split_first() {
                Some((s, r)) => (*s, r),
                None => (0, data),
            };
            let fs = &table[(sel & 0x7f) as usize % table.len()];
            let tcp = sel & 0x80 != 0;
            let mut buf = Vec::new();
            let resp = match exchange(&fs.server, req, tcp, localhost(), &mut buf) {
                Ok(r) => r,
                Err(f) => return vec![("C01", Err(f))],
            };
            let t = now_secs();
            let sc = scan(req, &fs.keys, t, t);
            let mut out: Vec<(&'static str, Verdict)> = vec![("C01", Ok(()))];
            for (id, prop) in [("C02", Prop::C02), ("C03", Prop::C03), ("C08", Prop::C08), ("C09", Prop::C09)] {
                out.push((id, judge(prop, req, tcp, resp.as_deref(), &sc, fs.payload, st)));
            }
            out
        }
        _ => Vec::new(),
    }
}

////////////////////////////////////////////////////////////////////////
// SEED CORPORA                                                       //
////////////////////////////////////////////////////////////////////////

/// Writes small seed corpora for the four targets under /verif/corpus/ from the
/// checks' own generators with fixed seeds (`vcheck CORPUS quick`).  The files are
/// committed; campaigns start from them (and, separately, from an empty corpus).
pub fn write_seed_corpus() {
    fn runner(seed: u64) -> TestRunner {
        TestRunner::new(Config { rng_seed: RngSeed::Fixed(seed), failure_persistence: None, ..Config::default() })
    }
    fn put(target: &str, i: usize, data: &[u8]) {
        let dir = format!("{VERIF_ROOT}/corpus/{target}");
        let _ = std::fs::create_dir_all(&dir);
        let _ = std::fs::write(format!("{dir}/seed-{i:03}"), data);
    }
    // fz_name: [start selector (2 octets)] ++ buffer
    let mut r = runner(0xC0_14);
    let mut i = 0;
    while i < 40 {
        let c = if i % 2 == 0 { c14::case_strategy().new_tree(&mut r).unwrap().current() } else { c14::boundary_strategy().new_tree(&mut r).unwrap().current() };
        if c.buf.len() > 280 {
            continue;
        }
        // a selector with sel % (len + 2) == start
        let sel = (c.start % (c.buf.len() + 2)) as u16;
        let mut data = sel.to_be_bytes().to_vec();
        data.extend_from_slice(&c.buf);
        put("fz_name", i, &data);
        i += 1;
    }
    // fz_reader: [n] ++ n selectors ++ message
    let mut r = runner(0xC0_15);
    let mut i = 0;
    while i < 40 {
        let c = c15::case_strategy().new_tree(&mut r).unwrap().current();
        let msg = c.msg.render_clean();
        if msg.len() > 500 {
            continue;
        }
        let sels: Vec<u8> = c
            .ops
            .iter()
            .take(30)
            .map(|op| match op {
                c15::Op::Header => 0u8,
                c15::Op::ReadQuestion => 1,
                c15::Op::SkipQuestion => 2,
                c15::Op::ReadRr => 3,
                c15::Op::SkipRr => 5,
                c15::Op::Peek { owner_calls, end } => {
                    (match end {
                        c15::PeekEnd::Drop => 6,
                        c15::PeekEnd::Skip => 7,
                        c15::PeekEnd::Parse => 8,
                    }) + 12 * (owner_calls % 3)
                }
                c15::Op::Mark => 9,
                c15::Op::Rewind => 10,
                c15::Op::AtEom => 11,
            })
            .collect();
        let mut data = vec![sels.len() as u8];
        data.extend_from_slice(&sels);
        data.extend_from_slice(&msg);
        put("fz_reader", i, &data);
        i += 1;
    }
    // fz_zonefile: text
    let mut r = runner(0xC0_24);
    let mut i = 0;
    while i < 40 {
        let c = c23::raw_case().new_tree(&mut r).unwrap().current();
        if c.text.len() > 380 || c.text.is_empty() {
            continue;
        }
        put("fz_zonefile", i, &c.text);
        i += 1;
    }
    // fz_server: [server / transport] ++ request
    let mut r = runner(0xC0_01);
    let table = servers();
    let mut i = 0;
    while i < 60 {
        let spec = crate::reqgen::req_spec(10, 0.15).new_tree(&mut r).unwrap().current();
        let si = i % table.len();
        let fs = &table[si];
        let bytes = crate::reqgen::render(&spec, &fs.pool, &fs.key_specs, now_secs()).bytes;
        if bytes.len() > 560 {
            continue;
        }
        let mut data = vec![(si as u8) | if spec.tcp { 0x80 } else { 0 }];
        data.extend_from_slice(&bytes);
        put("fz_server", i, &data);
        i += 1;
    }
}

////////////////////////////////////////////////////////////////////////
// INSIDE THE FUZZ TARGET                                             //
////////////////////////////////////////////////////////////////////////

fn fnv64(data: &[u8]) -> u64 {
    let mut h: u64 = 0xcbf29ce484222325;
    for b in data {
        h ^= *b as u64;
        h = h.wrapping_mul(0x100000001b3);
    }
    h
}

fn violations_dir() -> String {
    format!("{VERIF_ROOT}/fuzz-work/violations")
}

/// Entry point of every fuzz target.
pub fn fuzz_one(target: &'static str, data: &[u8]) {
    static INIT: OnceLock<Vec<fw::KnownFinding>> = OnceLock::new();
    let known = INIT.get_or_init(|| {
        fw::install_panic_hook();
        fw::load_known_findings()
    });
    let mut st = Stats { frozen: true, ..Stats::default() };
    for (prop, verdict) in run_bytes(target, data, &mut st) {
        if let Err(f) = verdict {
            if known.iter().any(|k| k.property == prop && k.signature == f.signature) {
                continue;
            }
            let body = json!({
                "property": prop,
                "check": format!("fuzz:{target}"),
                "case": {"bytes_hex": hex(data)},
                "signature": f.signature,
                "diagnosis": f.detail,
            });
            let dir = violations_dir();
            let _ = std::fs::create_dir_all(&dir);
            let path = format!("{dir}/{prop}-{target}-{:016x}.json", fnv64(data));
            let _ = std::fs::write(&path, serde_json::to_string_pretty(&body).unwrap());
            eprintln!("fuzz target {target}: property {prop} violated [{}]: {}", f.signature, f.detail);
            // make libFuzzer save the input
            std::process::abort();
        }
    }
}

////////////////////////////////////////////////////////////////////////
// INSIDE VCHECK                                                      //
////////////////////////////////////////////////////////////////////////

fn unhex(s: &str) -> Option<Vec<u8>> {
    if s.len() % 2 != 0 {
        return None;
    }
    (0..s.len() / 2).map(|i| u8::from_str_radix(&s[2 * i..2 * i + 2], 16).ok()).collect()
}

fn verdict_for(id: &str, target: &str, data: &[u8], st: &mut Stats) -> Verdict {
    for (prop, v) in run_bytes(target, data, st) {
        if prop == id {
            return v;
        }
        // a panic in handle_message is reported as C01 and ends the exchange
        if v.is_err() && prop == "C01" && id != "C01" {
            return Ok(());
        }
    }
    Ok(())
}

/// Replay of a stored fuzz input (`check` = "fuzz:<target>" or "fuzzbin:<target>").
pub fn replay(id: &str, check: &str, case: &Value) -> Option<Verdict> {
    let (kind, target) = check.split_once(':')?;
    if kind == "miri" {
        return Some(replay_miri(case));
    }
    let data = unhex(case.get("bytes_hex")?.as_str()?)?;
    match kind {
        "fuzz" => {
            let mut st = Stats::default();
            Some(match fw::catch(|| verdict_for(id, target, &data, &mut st)) {
                Ok(v) => v,
                Err(p) => Err(Fail::new(format!("harness-{}", fw::panic_signature(&p)), format!("oracle panicked: {p}"))),
            })
        }
        "fuzzbin" => Some(run_fuzz_binary(target, &data)),
        _ => None,
    }
}

/// Runs the sanitizer-instrumented fuzz binary on one input (for failures that
/// only the instrumented build shows, e.g. memory errors).
fn run_fuzz_binary(target: &str, data: &[u8]) -> Verdict {
    let bin = format!("{VERIF_ROOT}/.target-fuzz/x86_64-unknown-linux-gnu/release/{target}");
    if !std::path::Path::new(&bin).exists() {
        eprintln!("INFRA: {bin} is not built (run ./check <ID> thorough once, or scripts/fuzz.sh build)");
        std::process::exit(2);
    }
    let dir = format!("{VERIF_ROOT}/fuzz-work/replay");
    let _ = std::fs::create_dir_all(&dir);
    let path = format!("{dir}/input-{:016x}", fnv64(data));
    if std::fs::write(&path, data).is_err() {
        eprintln!("INFRA: cannot write {path}");
        std::process::exit(2);
    }
    let out = std::process::Command::new(&bin).arg(&path).output();
    let _ = std::fs::remove_file(&path);
    match out {
        Ok(o) if o.status.success() => Ok(()),
        Ok(o) => {
            let err = String::from_utf8_lossy(&o.stderr);
            let line = err.lines().find(|l| l.contains("ERROR") || l.contains("panicked")).unwrap_or("crash").to_string();
            Err(Fail::new("fuzz-binary-crash", format!("the instrumented build of {target} crashes on this input: {line}")))
        }
        Err(e) => {
            eprintln!("INFRA: cannot run {bin}: {e}");
            std::process::exit(2);
        }
    }
}

fn read_dir_files(dir: &str) -> Vec<(String, Vec<u8>)> {
    let mut out = Vec::new();
    if let Ok(rd) = std::fs::read_dir(dir) {
        let mut names: Vec<_> = rd.filter_map(|e| e.ok()).map(|e| e.path()).filter(|p| p.is_file()).collect();
        names.sort();
        for p in names {
            if let Ok(b) = std::fs::read(&p) {
                out.push((p.to_string_lossy().into_owned(), b));
            }
        }
    }
    out
}

/// Called by vcheck after a property's own run:
/// 1. replays the committed corpus of the property's fuzz targets (both tiers);
/// 2. thorough tier: folds campaign statistics (written by scripts/fuzz.sh) into
///    the evidence and re-judges the failures the campaign reported.
/// Replays a Miri run (`check` = "miri:names"): re-runs scripts/miri_names.sh with
/// the recorded seed and case count.
fn replay_miri(case: &Value) -> Verdict {
    let seed = case["seed"].as_u64().unwrap_or(1);
    let cases = case["cases"].as_u64().unwrap_or(400);
    let out = std::process::Command::new(format!("{VERIF_ROOT}/scripts/miri_names.sh"))
        .env("VERIF_SEED", seed.to_string())
        .env("MIRI_NAMES_CASES", cases.to_string())
        .output();
    match out {
        Ok(o) if o.status.code() == Some(0) => Ok(()),
        Ok(o) if o.status.code() == Some(1) => {
            let log = std::fs::read_to_string(format!("{VERIF_ROOT}/.work/miri-names.log")).unwrap_or_default();
            let line = log.lines().find(|l| l.contains("Undefined Behavior") || l.contains("panicked")).unwrap_or("failure").to_string();
            Err(Fail::new("miri-names-failure", format!("the name code fails under Miri (seed {seed}, {cases} cases): {line}")))
        }
        _ => {
            eprintln!("INFRA: scripts/miri_names.sh could not run");
            std::process::exit(2);
        }
    }
}

/// Thorough tiers of C14 and C16: the result of the Miri run that the runner script
/// performed before vcheck (scripts/miri_names.sh).
fn fold_miri(ctx: &Ctx, report: &mut Report) {
    if ctx.tier != Tier::Thorough || !(ctx.id == "C14" || ctx.id == "C16") {
        return;
    }
    let Ok(text) = std::fs::read_to_string(format!("{VERIF_ROOT}/.work/miri-names.json")) else {
        eprintln!("WARNING: no Miri result for {} (was scripts/miri_names.sh run?)", ctx.id);
        return;
    };
    let Ok(v) = serde_json::from_str::<Value>(&text) else { return };
    let cases = v["cases"].as_u64().unwrap_or(0);
    report.stats.evals(cases);
    report.stats.class_n("miri-cases-name-code", cases);
    if v["passed"].as_bool() == Some(false) {
        let case = json!({"seed": v["seed"], "cases": v["cases"]});
        if let Err(f) = replay_miri(&case) {
            report.violations.push(Violation { check: "miri:names".to_string(), case, fail: f });
        }
    }
    report.stats.extra.insert("miri_names".to_string(), v);
}

pub fn after_run(ctx: &Ctx, report: &mut Report) {
    fold_miri(ctx, report);
    let targets = targets_of(&ctx.id);
    if targets.is_empty() {
        return;
    }
    let mut extra: BTreeMap<String, Value> = BTreeMap::new();
    for target in targets {
        // 1. committed corpus
        let files = read_dir_files(&format!("{VERIF_ROOT}/corpus/{target}"));
        let mut replayed = 0u64;
        for (path, data) in &files {
            replayed += 1;
            report.stats.eval();
            let v = match fw::catch(|| verdict_for(&ctx.id, target, data, &mut Stats { frozen: true, ..Stats::default() })) {
                Ok(v) => v,
                Err(p) => Err(Fail::new(format!("harness-{}", fw::panic_signature(&p)), format!("oracle panicked: {p}"))),
            };
            if let Err(f) = v {
                if report.is_known(&f.signature) {
                    *report.stats.known_hits.entry(f.signature.clone()).or_insert(0) += 1;
                } else {
                    eprintln!("corpus file {path} violates {}", ctx.id);
                    report.violations.push(Violation {
                        check: format!("fuzz:{target}"),
                        case: json!({"bytes_hex": hex(data)}),
                        fail: f,
                    });
                }
            }
        }
        report.stats.class_n(&format!("corpus-files-replayed-{target}"), replayed);
        if ctx.tier != Tier::Thorough {
            continue;
        }
        // 2. campaign statistics
        let stats_path = format!("{VERIF_ROOT}/fuzz-work/stats/{target}.json");
        if let Ok(text) = std::fs::read_to_string(&stats_path) {
            if let Ok(v) = serde_json::from_str::<Value>(&text) {
                let execs = v["executions"].as_u64().unwrap_or(0);
                report.stats.evals(execs);
                report.stats.class_n(&format!("fuzz-executions-{target}"), execs);
                extra.insert(format!("fuzz-{target}"), v);
            }
        } else {
            report.stats.class_n(&format!("fuzz-executions-{target}"), 0);
            eprintln!("WARNING: no campaign statistics for {target} (was scripts/fuzz.sh run?)");
        }
        // the final corpus of the campaign, re-classified by the same rule as generated cases
        let corpus = read_dir_files(&format!("{VERIF_ROOT}/fuzz-work/corpus/{target}"));
        let mut interesting = 0u64;
        for (_, data) in &corpus {
            let nontrivial = match target {
                "fz_name" => data.iter().skip(2).any(|b| *b >= 0x3f),
                "fz_zonefile" => data.windows(2).any(|w| w == b"\\#") || data.contains(&b'('),
                _ => data.len() >= 14,
            };
            if nontrivial {
                interesting += 1;
                report.stats.nontrivial(&(target, data), || json!({"fuzz_corpus_input_hex": hex(&data[..data.len().min(80)]), "target": target}));
            }
        }
        report.stats.class_n(&format!("fuzz-final-corpus-{target}"), corpus.len() as u64);
        report.stats.class_n(&format!("fuzz-final-corpus-nontrivial-{target}"), interesting);
        // 3. failures reported by the campaign (oracle failures and crash artifacts)
        for (path, text) in read_dir_files(&violations_dir()) {
            let Ok(v) = serde_json::from_slice::<Value>(&text) else { continue };
            if v["property"].as_str() != Some(ctx.id.as_str()) {
                continue;
            }
            let check = v["check"].as_str().unwrap_or("").to_string();
            if !check.ends_with(target) {
                continue;
            }
            match replay(&ctx.id, &check, &v["case"]) {
                Some(Err(f)) => {
                    if report.is_known(&f.signature) {
                        *report.stats.known_hits.entry(f.signature.clone()).or_insert(0) += 1;
                    } else {
                        report.violations.push(Violation { check, case: v["case"].clone(), fail: f });
                    }
                }
                Some(Ok(())) => eprintln!("note: the campaign failure {path} does not reproduce outside the fuzz target; not reported"),
                None => {}
            }
        }
    }
    for (k, v) in extra {
        report.stats.extra.insert(k, v);
    }
}
