//! C32 — concurrent catalog and key-set swaps never mix snapshots.
//!
//! Domain: proptest workloads (a swapper installing catalog and key-set
//! generations 2..=G in a generated order while 2-3 threads issue 1-3 signed or
//! unsigned queries of four kinds) x shuttle schedules of src/server/mod.rs
//! over the shim's RwLock.  Every record of every complete answer encodes the
//! generation of the catalog it comes from (answer, authority and additional
//! sections), and every key-set generation has its own secret.
//! Oracle: (1) all markers of one response agree; (2) the generation lies
//! between the newest one whose installation had *returned* before the request
//! started and the newest one whose installation had *begun* when it returned;
//! (3) a signed request is either verified and answered with a MAC under the
//! very key generation that signed it, or consistently rejected (BADSIG,
//! unsigned), and which of the two is allowed follows from the same bracket.

use std::net::{IpAddr, Ipv4Addr};
use std::sync::atomic::{AtomicU64, Ordering};
use std::sync::{Arc, Mutex};

use proptest::prelude::*;
use quandary::message::tsig::Algorithm;
use quandary::server::{ReceivedInfo, Response, Server, Transport, TsigKeyMap};
use quandary::vshim;
use serde::{Deserialize, Serialize};
use serde_json::json;
use vmodel::name::MName;
use vmodel::rdata as mr;
use vmodel::tsig::Alg;

use crate::fw::{replay_case, run_prop, Ctx, Fail, PropSpec, Report, Stats, Verdict};
use crate::sched::{classify, explore, Sched};
use crate::zone::{catalog_of, name, qn, query, response_mac_ok, sign, Cat, ZoneBuilder};

#[derive(Clone, Debug, Serialize, Deserialize, PartialEq, Eq, Hash)]
pub struct Query {
    /// 0 MX answer with additional data, 1 referral with glue, 2 NXDOMAIN, 3 CNAME chain, 4 NS at apex
    pub kind: u8,
    /// None: unsigned; Some(d): signed with the secret of generation (newest installed - d), at least 1
    pub signed_back: Option<u8>,
    pub tcp: bool,
}

#[derive(Clone, Debug, Serialize, Deserialize, PartialEq, Eq, Hash)]
pub struct Workload {
    pub generations: u8,
    /// per generation step: true = catalog first then keys, false = keys first
    pub catalog_first: Vec<bool>,
    pub swapper_yields: u8,
    pub queriers: Vec<Vec<Query>>,
    pub sched: Sched,
    pub sched_seed: u64,
    pub schedules: u16,
    /// catalogs and key sets are replaced by two different threads (as independent callers of
    /// set_catalog and set_tsig_keys would) instead of one
    #[serde(default)]
    pub two_swappers: bool,
    /// a further thread installs this many *empty* key sets while the swapper installs its
    /// generations (two concurrent callers of set_tsig_keys); queries are unsigned in such
    /// workloads, the key set is judged after all threads have finished
    #[serde(default)]
    pub empty_key_rival: u8,
}

fn a_query() -> impl Strategy<Value = Query> {
    (0u8..5, prop::option::weighted(0.6, 0u8..2), prop::bool::weighted(0.3)).prop_map(|(kind, signed_back, tcp)| Query { kind, signed_back, tcp })
}

pub fn workload(schedules: u16) -> impl Strategy<Value = Workload> {
    (
        2u8..=4,
        prop::collection::vec(any::<bool>(), 4),
        0u8..4,
        prop::collection::vec(prop::collection::vec(a_query(), 1..=3), 2..=3),
        prop_oneof![3 => Just(Sched::Random), 1 => (1u8..5).prop_map(Sched::Pct)],
        any::<u64>(),
        (any::<bool>(), prop_oneof![3 => Just(0u8), 1 => 1u8..=3]),
    )
        .prop_map(move |(generations, catalog_first, swapper_yields, queriers, sched, sched_seed, (two_swappers, empty_key_rival))| Workload {
            generations,
            catalog_first,
            swapper_yields,
            queriers,
            sched,
            sched_seed,
            schedules,
            two_swappers,
            empty_key_rival,
        })
}

fn label(prefix: &str, g: u32) -> Vec<u8> {
    format!("{prefix}{g}").into_bytes()
}

/// Generations 3, 6, ... hold the zone as a not-yet-loaded placeholder: queries get SERVFAIL, never data
/// of an earlier generation.
fn is_placeholder(g: u64) -> bool {
    g % 3 == 0
}

/// The catalog of generation g: every record carries g.
fn catalog(g: u32) -> Arc<Cat> {
    let apex = name("g.test.");
    if is_placeholder(g as u64) {
        let mut c: Cat = quandary::db::HashMapTreeCatalog::new();
        c.insert(quandary::db::catalog::Entry::NotYetLoaded(qn(&apex), quandary::class::Class::from(1), ()));
        return Arc::new(c);
    }
    let mut z = ZoneBuilder::new(&apex);
    z.soa(&apex, 1000 + g, g, 2000 + g);
    let ns = apex.child(&label("ns", g));
    z.add(&apex, mr::T_NS, 300 + g, &ns.wire());
    z.add(&ns, mr::T_A, 300 + g, &[10, 0, 0, g as u8]);
    let mail = apex.child(&label("mail", g));
    let mut mx = vec![0, 10];
    mx.extend_from_slice(&mail.wire());
    z.add(&apex.child(b"www"), mr::T_MX, 300 + g, &mx);
    z.add(&mail, mr::T_A, 300 + g, &[10, 1, 0, g as u8]);
    let sub = apex.child(b"sub");
    let subns = sub.child(&label("ns", g));
    z.add(&sub, mr::T_NS, 300 + g, &subns.wire());
    z.add(&subns, mr::T_A, 300 + g, &[10, 2, 0, g as u8]);
    let target = apex.child(&label("host", g));
    z.add(&apex.child(b"alias"), mr::T_CNAME, 300 + g, &target.wire());
    z.add(&target, mr::T_A, 300 + g, &[10, 3, 0, g as u8]);
    catalog_of(vec![z.finish()])
}

fn secret(g: u32) -> Vec<u8> {
    let mut s = b"generation-secret-".to_vec();
    s.extend_from_slice(&g.to_be_bytes());
    s.extend_from_slice(&[0x5a; 16]);
    s
}

fn key_name() -> MName {
    name("k.keys.test.")
}

fn keys(g: u32) -> Arc<TsigKeyMap> {
    let mut m = TsigKeyMap::new();
    m.insert(qn(&key_name()), (Algorithm::HmacSha256, secret(g).into_boxed_slice()));
    Arc::new(m)
}

fn digits_after(label: &[u8], prefix: &[u8]) -> Option<u32> {
    let rest = label.strip_prefix(prefix)?;
    std::str::from_utf8(rest).ok()?.parse().ok()
}

fn first_label(rd_name: &[u8]) -> Option<Vec<u8>> {
    let (n, _) = MName::from_wire(rd_name)?;
    n.labels.first().cloned()
}

/// The generation markers of one record (empty when the record has none).
fn markers(r: &vmodel::wire::RrDecode) -> Result<Vec<u32>, String> {
    let ttl = r.ttl_raw;
    let mut out = Vec::new();
    match r.rtype {
        mr::T_A => {
            out.push(*r.rdata.get(3).ok_or("short A")? as u32);
            out.push(ttl.wrapping_sub(300));
        }
        mr::T_NS => {
            let l = first_label(&r.rdata).ok_or("bad NS rdata")?;
            out.push(digits_after(&l, b"ns").ok_or("NS target without marker")?);
            out.push(ttl.wrapping_sub(300));
        }
        mr::T_MX => {
            let l = first_label(r.rdata.get(2..).ok_or("short MX")?).ok_or("bad MX rdata")?;
            out.push(digits_after(&l, b"mail").ok_or("MX target without marker")?);
            out.push(ttl.wrapping_sub(300));
        }
        mr::T_CNAME => {
            let l = first_label(&r.rdata).ok_or("bad CNAME rdata")?;
            out.push(digits_after(&l, b"host").ok_or("CNAME target without marker")?);
            out.push(ttl.wrapping_sub(300));
        }
        mr::T_SOA => {
            let n = r.rdata.len();
            if n < 20 {
                return Err("short SOA".into());
            }
            let serial = u32::from_be_bytes(r.rdata[n - 20..n - 16].try_into().unwrap());
            let minimum = u32::from_be_bytes(r.rdata[n - 4..].try_into().unwrap());
            out.push(serial);
            out.push(minimum.wrapping_sub(2000));
            // negative answers carry min(SOA TTL, MINIMUM) = 1000 + g
            out.push(ttl.wrapping_sub(1000));
        }
        mr::T_OPT | mr::T_TSIG => {}
        other => return Err(format!("unexpected record type {other}")),
    }
    // owner names that encode the generation
    if let Some(l) = r.owner.name.labels.first() {
        for p in [&b"ns"[..], b"mail", b"host"] {
            if let Some(g) = digits_after(l, p) {
                out.push(g);
            }
        }
    }
    Ok(out)
}

#[derive(Default)]
struct Agg {
    started: u64,
    completed: u64,
    swaps_during_a_request: u64,
    execs_with_swap_during_request: u64,
    authenticated: u64,
    rejected: u64,
    responses: u64,
}

/// What the swapper has done so far (plain atomics: no scheduling points).
#[derive(Default)]
struct Progress {
    cat_started: AtomicU64,
    cat_installed: AtomicU64,
    key_started: AtomicU64,
    key_installed: AtomicU64,
}

fn oracle_fail(sig: &str, detail: &str) -> ! {
    panic!("ORACLE[{sig}]: {detail}");
}

fn execution(w: &Workload, cats: &Arc<Vec<Arc<Cat>>>, agg: &Arc<Mutex<Agg>>) {
    agg.lock().unwrap().started += 1;
    vshim::exec::begin(Vec::new());
    let server = Server::new(cats[1].clone());
    server.set_tsig_keys(keys(1));
    let server = Arc::new(server);
    let prog = Arc::new(Progress::default());
    for a in [&prog.cat_started, &prog.cat_installed, &prog.key_started, &prog.key_installed] {
        a.store(1, Ordering::SeqCst);
    }
    let swapped_during = Arc::new(AtomicU64::new(0));
    let stats = Arc::new(Mutex::new((0u64, 0u64, 0u64)));

    let mut handles = Vec::new();
    {
        let server = server.clone();
        let prog = prog.clone();
        let cats = cats.clone();
        let w = w.clone();
        let two = w.two_swappers;
        // which = 0: both replacements on one thread; 1: catalogs only; 2: key sets only
        let swapper = move |which: u8| {
            for g in 2..=(w.generations as u64) {
                for _ in 0..w.swapper_yields {
                    shuttle::thread::yield_now();
                }
                let cat_first = w.catalog_first.get((g - 2) as usize).copied().unwrap_or(true);
                let do_cat = |server: &Server<Cat>| {
                    prog.cat_started.store(g, Ordering::SeqCst);
                    server.set_catalog(cats[g as usize].clone());
                    prog.cat_installed.store(g, Ordering::SeqCst);
                };
                let do_keys = |server: &Server<Cat>| {
                    prog.key_started.store(g, Ordering::SeqCst);
                    server.set_tsig_keys(keys(g as u32));
                    prog.key_installed.store(g, Ordering::SeqCst);
                };
                match (which, cat_first) {
                    (1, _) => do_cat(&server),
                    (2, _) => do_keys(&server),
                    (_, true) => {
                        do_cat(&server);
                        do_keys(&server);
                    }
                    (_, false) => {
                        do_keys(&server);
                        do_cat(&server);
                    }
                }
            }
        };
        if two {
            let (a, b) = (swapper.clone(), swapper);
            handles.push(shuttle::thread::spawn(move || a(1)));
            handles.push(shuttle::thread::spawn(move || b(2)));
        } else {
            handles.push(shuttle::thread::spawn(move || swapper(0)));
        }
    }
    if w.empty_key_rival > 0 {
        let server = server.clone();
        let n = w.empty_key_rival;
        handles.push(shuttle::thread::spawn(move || {
            for _ in 0..n {
                shuttle::thread::yield_now();
                server.set_tsig_keys(Arc::new(TsigKeyMap::new()));
            }
        }));
    }
    for (qi, qs) in w.queriers.iter().enumerate() {
        let server = server.clone();
        let prog = prog.clone();
        let mut qs = qs.clone();
        if w.empty_key_rival > 0 {
            for q in qs.iter_mut() {
                q.signed_back = None;
            }
        }
        let swapped_during = swapped_during.clone();
        let stats = stats.clone();
        handles.push(shuttle::thread::spawn(move || querier(&server, &prog, &qs, qi, &swapped_during, &stats)));
    }
    for h in handles {
        h.join().expect("thread panicked");
    }
    // after every replacement has returned: the brackets are exact, the newest generations must be in use
    let last = [Query { kind: 0, signed_back: None, tcp: false }];
    querier(&server, &prog, &last, 9, &swapped_during, &stats);
    // the catalog and the key set the server reports are the ones it uses
    {
        let newest = prog.cat_installed.load(Ordering::SeqCst) as usize;
        if !Arc::ptr_eq(&server.catalog(), &cats[newest]) {
            oracle_fail("stale-catalog-after-set_catalog-returned", &format!("Server::catalog() is not the catalog of generation {newest}, whose installation has returned"));
        }
        let km = server.tsig_keys();
        let installed: Option<u32> = km.get(&qn(&key_name())).and_then(|(_, sec)| (1..=w.generations as u32).find(|g| secret(*g)[..] == sec[..]));
        if w.empty_key_rival == 0 {
            let newest_keys = prog.key_installed.load(Ordering::SeqCst) as u32;
            if installed != Some(newest_keys) {
                oracle_fail("stale-key-set-after-set_tsig_keys-returned", &format!("Server::tsig_keys() holds generation {installed:?}, generation {newest_keys} has been installed"));
            }
        }
        let now = std::time::SystemTime::now().duration_since(std::time::UNIX_EPOCH).map(|d| d.as_secs()).unwrap_or(0);
        let plain = query(0x32fe, &name("g.test."), mr::T_NS, true);
        let s = sign(&plain, &key_name(), Alg::Sha256, &secret(installed.unwrap_or(1)), now, 3600);
        let mut buf = vec![0u8; 65535];
        let len = match server.handle_message(&s.bytes, ReceivedInfo::new(IpAddr::V4(Ipv4Addr::new(192, 0, 2, 99)), Transport::Tcp), &mut buf) {
            Response::Single(len) => len,
            Response::None => oracle_fail("no-response", "the final signed query got no response"),
        };
        let d = match vmodel::wire::decode_message_opts(&buf[..len], true) {
            Ok(d) => d,
            Err(e) => oracle_fail("response-does-not-decode", &format!("{e:?}")),
        };
        let rd = d.tsig().and_then(|t| mr::parse_tsig(&t.rdata));
        let context = format!("after all threads finished Server::tsig_keys() holds generation {installed:?} (None = no key); final signed query answered {d:?}");
        match (installed, rd) {
            (Some(g), Some(rd)) => {
                if rd.error != 0 || d.header.rcode == 9 {
                    oracle_fail("handling-disagrees-with-the-installed-key-set", &context);
                }
                if response_mac_ok(&buf[..len], &s.mac, &key_name(), Alg::Sha256, &secret(g)) != Some(true) {
                    oracle_fail("response-signed-with-a-different-key-generation", &context);
                }
            }
            (None, Some(rd)) => {
                if d.header.rcode != 9 || rd.error != 17 {
                    oracle_fail("handling-disagrees-with-the-installed-key-set", &context);
                }
            }
            (_, None) => oracle_fail("signed-request-answered-without-tsig", &context),
        }
    }
    let mut a = agg.lock().unwrap();
    a.completed += 1;
    let n = swapped_during.load(Ordering::SeqCst);
    a.swaps_during_a_request += n;
    if n > 0 {
        a.execs_with_swap_during_request += 1;
    }
    let s = stats.lock().unwrap();
    a.authenticated += s.0;
    a.rejected += s.1;
    a.responses += s.2;
}

fn querier(server: &Arc<Server<Cat>>, prog: &Arc<Progress>, qs: &[Query], qi: usize, swapped_during: &Arc<AtomicU64>, stats: &Arc<Mutex<(u64, u64, u64)>>) {
    {
        {
            let source = IpAddr::V4(Ipv4Addr::new(192, 0, 2, 10 + qi as u8));
            let mut buf = vec![0u8; 65535];
            for (k, q) in qs.iter().enumerate() {
                let apex = name("g.test.");
                let (qname, qtype) = match q.kind {
                    0 => (apex.child(b"www"), mr::T_MX),
                    1 => (apex.child(b"sub").child(b"deep"), mr::T_A),
                    2 => (apex.child(b"missing"), mr::T_A),
                    3 => (apex.child(b"alias"), mr::T_A),
                    _ => (apex.clone(), mr::T_NS),
                };
                let plain = query(0x3200 + (qi * 16 + k) as u16, &qname, qtype, true);
                let key_lo = prog.key_installed.load(Ordering::SeqCst);
                let cat_lo = prog.cat_installed.load(Ordering::SeqCst);
                let signed = q.signed_back.map(|d| {
                    let gen = key_lo.saturating_sub(d as u64).max(1);
                    let now = std::time::SystemTime::now()
                        .duration_since(std::time::UNIX_EPOCH)
                        .map(|d| d.as_secs())
                        .unwrap_or(0);
                    (gen, sign(&plain, &key_name(), Alg::Sha256, &secret(gen as u32), now, 3600))
                });
                let request: &[u8] = match &signed {
                    Some((_, s)) => &s.bytes,
                    None => &plain,
                };
                let transport = if q.tcp { Transport::Tcp } else { Transport::Udp };
                let r = server.handle_message(request, ReceivedInfo::new(source, transport), &mut buf);
                let key_hi = prog.key_started.load(Ordering::SeqCst);
                let cat_hi = prog.cat_started.load(Ordering::SeqCst);
                if cat_hi > cat_lo || key_hi > key_lo {
                    swapped_during.fetch_add(1, Ordering::SeqCst);
                }
                let len = match r {
                    Response::Single(len) => len,
                    Response::None => oracle_fail("no-response", &format!("query {q:?} got no response")),
                };
                let resp = &buf[..len];
                let d = match vmodel::wire::decode_message_opts(resp, true) {
                    Ok(d) => d,
                    Err(e) => oracle_fail("response-does-not-decode", &format!("{e:?}")),
                };
                let context = format!(
                    "query {q:?}: catalog generations installed before the call {cat_lo}, begun by its return {cat_hi}; key sets {key_lo}..{key_hi}; response {d:?}"
                );

                // TSIG outcome
                let mut answered = true;
                if let Some((gen, s)) = &signed {
                    let t = match d.tsig() {
                        Some(t) => t,
                        None => oracle_fail("signed-request-answered-without-tsig", &context),
                    };
                    let rd = match mr::parse_tsig(&t.rdata) {
                        Some(rd) => rd,
                        None => oracle_fail("response-tsig-malformed", &context),
                    };
                    let possible = *gen >= key_lo && *gen <= key_hi;
                    let certain = key_lo == key_hi && *gen == key_lo;
                    if rd.error == 0 && d.header.rcode != 9 {
                        // verified: must have been possible, and the response MAC must
                        // verify under the very same generation's secret
                        if !possible {
                            oracle_fail("request-verified-with-a-key-set-that-was-never-current", &context);
                        }
                        match response_mac_ok(resp, &s.mac, &key_name(), Alg::Sha256, &secret(*gen as u32)) {
                            Some(true) => {}
                            Some(false) => oracle_fail("response-signed-with-a-different-key-generation", &context),
                            None => oracle_fail("verified-request-answered-unsigned", &context),
                        }
                        stats.lock().unwrap().0 += 1;
                    } else {
                        answered = false;
                        if certain {
                            oracle_fail("valid-signature-rejected", &context);
                        }
                        if d.header.rcode != 9 || rd.error != 16 || !rd.mac.is_empty() {
                            oracle_fail("inconsistent-tsig-rejection", &context);
                        }
                        if !d.answers.is_empty() || !d.authority.is_empty() {
                            oracle_fail("rejected-request-answered-with-data", &context);
                        }
                        stats.lock().unwrap().1 += 1;
                    }
                } else if d.tsig().is_some() {
                    oracle_fail("unsigned-request-answered-with-tsig", &context);
                }

                let servfail = d.header.rcode == 2 && d.answers.is_empty() && d.authority.is_empty();
                if answered && servfail {
                    // only a generation that holds the zone as a placeholder answers like this
                    if !(cat_lo..=cat_hi).any(is_placeholder) {
                        oracle_fail("servfail-although-no-possible-catalog-holds-a-placeholder", &context);
                    }
                    stats.lock().unwrap().2 += 1;
                } else if answered {
                    if (cat_lo..=cat_hi).all(is_placeholder) {
                        oracle_fail("stale-catalog-after-set_catalog-returned", &format!("data although every catalog that may be in use holds the zone as a not-yet-loaded placeholder; {context}"));
                    }
                    // every marker of the response names one generation within the bracket
                    let mut seen: Vec<u32> = Vec::new();
                    let mut n_records = 0;
                    for r in d.all_rrs() {
                        match markers(r) {
                            Ok(m) => {
                                if r.rtype != mr::T_OPT && r.rtype != mr::T_TSIG {
                                    n_records += 1;
                                }
                                seen.extend(m);
                            }
                            Err(e) => oracle_fail("unexpected-record", &format!("{e}; {context}")),
                        }
                    }
                    if n_records == 0 {
                        oracle_fail("empty-answer", &context);
                    }
                    let expected_sections_ok = match q.kind {
                        0 => !d.answers.is_empty() && !d.additional.iter().all(|r| r.rtype == mr::T_OPT || r.rtype == mr::T_TSIG),
                        1 => !d.authority.is_empty() && !d.additional.iter().all(|r| r.rtype == mr::T_OPT || r.rtype == mr::T_TSIG),
                        2 => d.header.rcode == 3 && !d.authority.is_empty(),
                        3 => d.answers.len() == 2,
                        _ => !d.answers.is_empty() && !d.additional.iter().all(|r| r.rtype == mr::T_OPT || r.rtype == mr::T_TSIG),
                    };
                    if !expected_sections_ok {
                        oracle_fail("incomplete-answer", &context);
                    }
                    seen.sort_unstable();
                    seen.dedup();
                    if seen.len() != 1 {
                        oracle_fail("mixed-catalog-generations-in-one-response", &format!("markers {seen:?}; {context}"));
                    }
                    let g = seen[0] as u64;
                    if g < cat_lo {
                        oracle_fail("stale-catalog-after-set_catalog-returned", &format!("generation {g}; {context}"));
                    }
                    if g > cat_hi {
                        oracle_fail("catalog-generation-from-the-future", &format!("generation {g}; {context}"));
                    }
                    stats.lock().unwrap().2 += 1;
                }
            }
        }
    }
}

const MAX_STEPS: usize = 50_000;
const STACK: usize = 0x40000;

pub fn oracle(w: &Workload, st: &mut Stats) -> Verdict {
    let agg = Arc::new(Mutex::new(Agg::default()));
    let cats: Arc<Vec<Arc<Cat>>> = Arc::new((0..=w.generations as u32).map(catalog).collect());
    let res = {
        let w2 = w.clone();
        let agg2 = agg.clone();
        explore(&w.sched, w.sched_seed, w.schedules.max(1) as usize, MAX_STEPS, STACK, move || execution(&w2, &cats, &agg2))
    };
    let a = agg.lock().unwrap();
    st.evals(a.completed);
    st.class_n("executions-completed", a.completed);
    st.class_n("requests-overlapping-a-swap", a.swaps_during_a_request);
    st.class_n("executions-with-a-swap-during-a-request", a.execs_with_swap_during_request);
    st.class_n("signed-requests-verified", a.authenticated);
    st.class_n("signed-requests-rejected-consistently", a.rejected);
    st.class_n("complete-answers-checked", a.responses);
    if w.empty_key_rival > 0 {
        st.class("workloads-with-a-second-thread-installing-empty-key-sets");
    }
    st.class(if w.two_swappers { "catalogs-and-key-sets-replaced-by-two-threads" } else { "catalogs-and-key-sets-replaced-by-one-thread" });
    if a.execs_with_swap_during_request > 0 {
        st.nontrivial(&(w, "swap-during-request"), || {
            json!({"workload": w, "executions_with_a_swap_between_a_requests_start_and_end": a.execs_with_swap_during_request})
        });
    }
    let mut unfinished = a.started.saturating_sub(a.completed);
    if res.failure.is_some() && unfinished > 0 {
        unfinished -= 1;
    }
    for _ in 0..unfinished {
        st.discard("execution-abandoned-at-step-bound");
    }
    if let Some(c) = res.failure {
        let (sig, detail) = classify(&c);
        return Err(Fail::new(
            sig,
            format!(
                "{detail}\nworkload: {}\nschedule (shuttle encoding): {}",
                serde_json::to_string(w).unwrap_or_default(),
                c.schedule.unwrap_or_else(|| "<none>".into())
            ),
        ));
    }
    Ok(())
}

pub fn run(ctx: &Ctx, report: &mut Report) {
    report.rule = "workloads with at least one schedule in which a catalog or key-set replacement began between the start and the end of a request".to_string();
    report.assumptions = vec![
        "src/server/mod.rs is compiled unmodified except for its `use std::sync` line, which points at harness/qshuttle/vshim.rs (RwLock = shuttle's)".to_string(),
        "TSIG times use the real clock with a fudge of one hour".to_string(),
        "evaluations = completed shuttle executions (one schedule each)".to_string(),
    ];
    let schedules: u16 = ctx.tier.pick(60, 250) as u16;
    let cases = ctx.tier.pick(2000, 30_000);
    run_prop(
        ctx,
        report,
        PropSpec { name: "snapshot-consistency", cases, max_shrink_iters: 300 },
        || workload(schedules),
        oracle,
    );
    crate::sched::fold_stress("C32", report);
}

pub fn replay(_check: &str, case: &serde_json::Value) -> Verdict {
    replay_case::<Workload, _>(case, oracle)
}
