//! C29 — worker pools run every accepted task exactly once and shut down
//! cleanly, under every interleaving (incl. condition-variable timeouts).
//!
//! Domain: proptest workloads (permanent workers 0-2, lingering or not, 1-4
//! submitters x 1-3 `submit` / `submit_or_spawn` calls, optional pool
//! shut-down, group shut-down after a generated number of controller steps,
//! optional injected thread-spawn failure) x shuttle schedules (random / PCT)
//! of the unmodified src/thread.rs running over ../vshim.rs.
//! Oracle: the ledger invariants of DESIGN.md Appendix E (R12).

use std::sync::atomic::{AtomicU64, Ordering};
use std::sync::{Arc, Mutex};
use std::time::Duration;

use proptest::prelude::*;
use quandary::thread::{Error as PoolError, ThreadGroup, ThreadPool};
use quandary::vshim;
use serde::{Deserialize, Serialize};
use serde_json::json;

use crate::fw::{replay_case, run_prop, Ctx, Fail, PropSpec, Report, Stats, Verdict};
use crate::sched::{classify, explore, Sched};

#[derive(Clone, Debug, Serialize, Deserialize, PartialEq, Eq, Hash)]
pub struct Call {
    /// true: submit_or_spawn, false: submit (blocks until a worker is available)
    pub spawn: bool,
    /// scheduling points inside the task body
    pub task_yields: u8,
}

#[derive(Clone, Debug, Serialize, Deserialize, PartialEq, Eq, Hash)]
pub struct Workload {
    pub permanent: u8,
    pub linger: bool,
    pub submitters: Vec<Vec<Call>>,
    /// the controller calls pool.shut_down() after this many of its own steps
    pub pool_shutdown_after: Option<u16>,
    /// ... and then group.shut_down() after this many further steps
    pub group_shutdown_after: u16,
    /// index of the thread spawn (through std::thread::Builder) that fails
    pub fail_spawn: Option<u8>,
    pub sched: Sched,
    pub sched_seed: u64,
    pub schedules: u16,
    /// "gated" executions: no condition-variable timeout ever fires (lingering workers stay), the
    /// first task - submitted by the controller - occupies a permanent worker until a gate opens, and
    /// the controller opens the gate and shuts down only after every submitter has returned. Every
    /// `submit` then depends on being woken when an auxiliary worker becomes available. Used only
    /// when progress is certain on a correct pool: >= 1 permanent worker, lingering, no injected spawn
    /// failure, and a submitter whose first call is `submit_or_spawn` (so that an auxiliary worker
    /// comes into being whatever the others do).
    #[serde(default)]
    pub gated: bool,
}

fn call() -> impl Strategy<Value = Call> {
    (prop::bool::weighted(0.7), 0u8..3).prop_map(|(spawn, task_yields)| Call { spawn, task_yields })
}

pub fn workload(schedules: u16) -> impl Strategy<Value = Workload> {
    (
        0u8..=2,
        prop::bool::weighted(0.7),
        prop::collection::vec(prop::collection::vec(call(), 1..=3), 1..=4),
        prop::option::weighted(0.3, 0u16..120),
        prop_oneof![2 => 0u16..40, 3 => 40u16..400],
        prop::option::weighted(0.15, 0u8..8),
        prop_oneof![3 => Just(Sched::Random), 1 => (1u8..5).prop_map(Sched::Pct)],
        any::<u64>(),
        prop::bool::weighted(0.4),
    )
        .prop_map(
            move |(permanent, linger, submitters, pool_shutdown_after, group_shutdown_after, fail_spawn, sched, sched_seed, gated)| Workload {
                permanent,
                linger,
                submitters,
                pool_shutdown_after,
                group_shutdown_after,
                fail_spawn,
                sched,
                sched_seed,
                schedules,
                gated,
            },
        )
}

////////////////////////////////////////////////////////////////////////
// LEDGER                                                             //
////////////////////////////////////////////////////////////////////////

#[derive(Clone, Debug, Default)]
struct CallRec {
    spawn: bool,
    start: u64,
    ret: Option<u64>,
    /// Some(true) accepted, Some(false) rejected
    ok: Option<bool>,
    err: String,
    run_starts: Vec<u64>,
    run_ends: Vec<u64>,
}

#[derive(Default)]
struct Ledger {
    seq: AtomicU64,
    in_flight: AtomicU64,
    calls: Mutex<Vec<CallRec>>,
    pool_shutdown_returned: Mutex<Option<u64>>,
    group_shutdown_returned: Mutex<Option<u64>>,
    await_returned: Mutex<Option<u64>>,
}

impl Ledger {
    fn tick(&self) -> u64 {
        self.seq.fetch_add(1, Ordering::SeqCst) + 1
    }
}

/// Aggregated over the executions of one workload.
#[derive(Default)]
struct Agg {
    started: u64,
    completed: u64,
    timeouts_fired: u64,
    timeouts_fired_busy: u64,
    execs_with_busy_timeout: u64,
    accepted: u64,
    rejected: u64,
    spawn_failures: u64,
    pool_start_failed: u64,
    max_seq: u64,
}

fn check_ledger(l: &Ledger, w: &Workload, pool_started: bool) -> Result<(), (String, String)> {
    let calls = l.calls.lock().unwrap().clone();
    let pool_sd = *l.pool_shutdown_returned.lock().unwrap();
    let group_sd = l.group_shutdown_returned.lock().unwrap().expect("group shut down");
    let awaited = l.await_returned.lock().unwrap().expect("await returned");
    let injected = w.fail_spawn.is_some();
    for (i, c) in calls.iter().enumerate() {
        let what = format!(
            "call #{i} ({}): started at {}, returned {:?} at {:?} [{}], task started at {:?}, finished at {:?}; pool shut-down returned at {:?}, group shut-down at {}, await_shutdown returned at {}",
            if c.spawn { "submit_or_spawn" } else { "submit" },
            c.start, c.ok, c.ret, c.err, c.run_starts, c.run_ends, pool_sd, group_sd, awaited
        );
        let Some(ok) = c.ok else {
            return Err(("call-never-returned".into(), what));
        };
        if c.run_starts.len() > 1 {
            return Err(("task-ran-twice".into(), what));
        }
        if ok && c.run_starts.is_empty() {
            return Err(("accepted-task-never-ran".into(), what));
        }
        if ok && c.run_ends.len() != c.run_starts.len() {
            return Err(("accepted-task-did-not-finish".into(), what));
        }
        if !ok && !c.run_starts.is_empty() {
            return Err(("rejected-task-ran".into(), what));
        }
        if let Some(e) = c.run_ends.first() {
            if *e > awaited {
                return Err(("task-ran-after-await-shutdown-returned".into(), what));
            }
        }
        if ok && c.ret.map(|r| r < awaited).unwrap_or(false) && c.run_ends.first().map(|e| *e > awaited).unwrap_or(true) {
            return Err(("accepted-task-not-run-when-await-shutdown-returned".into(), what));
        }
        let after_shutdown = c.start > group_sd || pool_sd.map(|p| c.start > p).unwrap_or(false);
        if after_shutdown && (ok || c.err != "ShuttingDown") {
            return Err(("submission-after-shutdown-not-rejected".into(), what));
        }
        if !ok && c.err != "ShuttingDown" && !injected {
            return Err(("unexpected-error".into(), what));
        }
    }
    let _ = pool_started;
    Ok(())
}

fn oracle_fail(sig: &str, detail: &str) -> ! {
    panic!("ORACLE[{sig}]: {detail}");
}

fn is_gated(w: &Workload) -> bool {
    w.gated && w.permanent >= 1 && w.linger && w.fail_spawn.is_none() && w.submitters.iter().any(|s| s.first().map_or(false, |c| c.spawn))
}

/// One execution (called by shuttle once per schedule).
fn execution(w: &Workload, agg: &Arc<Mutex<Agg>>) {
    agg.lock().unwrap().started += 1;
    vshim::exec::begin(w.fail_spawn.map(|k| vec![k as u64]).unwrap_or_default());
    let ledger = Arc::new(Ledger::default());
    {
        let l = ledger.clone();
        vshim::exec::set_probe(Arc::new(move || l.in_flight.load(Ordering::SeqCst) > 0));
    }
    let gated = is_gated(w);
    // without the timer thread no wait ever times out
    let timer = if gated { None } else { Some(vshim::exec::start_timer()) };

    let group = ThreadGroup::new();
    let linger = if w.linger { Duration::from_secs(1) } else { Duration::ZERO };
    let pool: Option<Arc<ThreadPool>> = match group.start_pool(Some("p".to_string()), w.permanent as usize, linger) {
        Ok(p) => Some(p),
        Err(PoolError::Io(_)) if w.fail_spawn.is_some() => None,
        Err(e) => oracle_fail("start-pool-failed", &format!("start_pool returned {e:?}")),
    };

    // gated: the first task holds a permanent worker until the gate opens
    let gate = Arc::new((shuttle::sync::Mutex::new(false), shuttle::sync::Condvar::new()));
    if let (true, Some(pool)) = (gated, &pool) {
        let g = gate.clone();
        let r = pool.submit(move || {
            let mut open = g.0.lock().unwrap();
            while !*open {
                open = g.1.wait(open).unwrap();
            }
        });
        if r.is_err() {
            oracle_fail("unexpected-error", "the gate task was rejected by a fresh pool");
        }
    }
    // call records are allocated up front so that indices are stable
    {
        let mut calls = ledger.calls.lock().unwrap();
        for s in &w.submitters {
            for c in s {
                calls.push(CallRec { spawn: c.spawn, ..CallRec::default() });
            }
        }
    }
    let mut handles = Vec::new();
    let mut base = 0usize;
    if let Some(pool) = &pool {
        for s in &w.submitters {
            let s = s.clone();
            let l = ledger.clone();
            let pool = pool.clone();
            let first = base;
            base += s.len();
            handles.push(shuttle::thread::spawn(move || {
                for (k, c) in s.iter().enumerate() {
                    let idx = first + k;
                    let yields = c.task_yields;
                    let lt = l.clone();
                    let task = move || {
                        let t = lt.tick();
                        lt.calls.lock().unwrap()[idx].run_starts.push(t);
                        for _ in 0..yields {
                            shuttle::thread::yield_now();
                        }
                        let t = lt.tick();
                        lt.calls.lock().unwrap()[idx].run_ends.push(t);
                        lt.in_flight.fetch_sub(1, Ordering::SeqCst);
                    };
                    // "in flight" = from the start of the call until the task has finished
                    // (or the call was rejected)
                    l.in_flight.fetch_add(1, Ordering::SeqCst);
                    let t = l.tick();
                    l.calls.lock().unwrap()[idx].start = t;
                    let r = if c.spawn { pool.submit_or_spawn(task) } else { pool.submit(task) };
                    let t = l.tick();
                    let mut calls = l.calls.lock().unwrap();
                    calls[idx].ret = Some(t);
                    match r {
                        Ok(()) => calls[idx].ok = Some(true),
                        Err(e) => {
                            calls[idx].ok = Some(false);
                            calls[idx].err = match e {
                                PoolError::ShuttingDown => "ShuttingDown".to_string(),
                                PoolError::Io(_) => "Io".to_string(),
                            };
                            l.in_flight.fetch_sub(1, Ordering::SeqCst);
                        }
                    }
                }
            }));
        }
    }

    // the controller is this (the main) thread
    if gated {
        // every submitter returns first (a `submit` that is never woken shows as a deadlock here)
        for h in handles.drain(..) {
            h.join().expect("submitter panicked");
        }
        *gate.0.lock().unwrap() = true;
        gate.1.notify_all();
    }
    if let (Some(n), Some(pool), false) = (w.pool_shutdown_after, &pool, gated) {
        for _ in 0..n {
            shuttle::thread::yield_now();
        }
        pool.shut_down();
        let t = ledger.tick();
        *ledger.pool_shutdown_returned.lock().unwrap() = Some(t);
    }
    for _ in 0..w.group_shutdown_after {
        shuttle::thread::yield_now();
    }
    group.shut_down();
    let t = ledger.tick();
    *ledger.group_shutdown_returned.lock().unwrap() = Some(t);
    group.await_shutdown();
    let t = ledger.tick();
    *ledger.await_returned.lock().unwrap() = Some(t);

    for h in handles {
        h.join().expect("submitter panicked");
    }
    if let Some(timer) = timer {
        vshim::exec::stop_timer();
        timer.join().expect("timer panicked");
    }

    if pool.is_none() {
        // start_pool failed (injected): nothing was submitted
        let mut calls = ledger.calls.lock().unwrap();
        calls.clear();
    }
    if let Err((sig, detail)) = check_ledger(&ledger, w, pool.is_some()) {
        oracle_fail(&sig, &detail);
    }

    let s = vshim::exec::summary();
    let calls = ledger.calls.lock().unwrap();
    let mut a = agg.lock().unwrap();
    a.completed += 1;
    a.timeouts_fired += s.timeouts_fired;
    a.timeouts_fired_busy += s.timeouts_fired_probe;
    if s.timeouts_fired_probe > 0 {
        a.execs_with_busy_timeout += 1;
    }
    a.accepted += calls.iter().filter(|c| c.ok == Some(true)).count() as u64;
    a.rejected += calls.iter().filter(|c| c.ok == Some(false)).count() as u64;
    a.spawn_failures += s.spawns_failed;
    if pool.is_none() {
        a.pool_start_failed += 1;
    }
    a.max_seq = a.max_seq.max(ledger.seq.load(Ordering::SeqCst));
}

const MAX_STEPS: usize = 20_000;
const STACK: usize = 0x10000;

pub fn oracle(w: &Workload, st: &mut Stats) -> Verdict {
    let agg = Arc::new(Mutex::new(Agg::default()));
    let res = {
        let w2 = w.clone();
        let agg2 = agg.clone();
        explore(&w.sched, w.sched_seed, w.schedules.max(1) as usize, MAX_STEPS, STACK, move || execution(&w2, &agg2))
    };
    let a = agg.lock().unwrap();
    st.evals(a.completed);
    st.class_n("executions-started", a.started);
    st.class_n("executions-completed", a.completed);
    st.class_n("timeouts-fired", a.timeouts_fired);
    st.class_n("timeouts-fired-while-a-submission-or-task-was-in-flight", a.timeouts_fired_busy);
    st.class_n("executions-with-such-a-timeout", a.execs_with_busy_timeout);
    st.class_n("calls-accepted", a.accepted);
    st.class_n("calls-rejected", a.rejected);
    st.class_n("injected-spawn-failures", a.spawn_failures);
    st.class_n("start-pool-failed-by-injection", a.pool_start_failed);
    st.class(match &w.sched {
        Sched::Random => "workloads-random-scheduler",
        Sched::Pct(_) => "workloads-pct-scheduler",
    });
    if is_gated(w) {
        st.class("workloads-gated (no timeouts, shut-down only after every submitter returned)");
    }
    if w.linger {
        st.class("workloads-lingering");
    }
    if w.pool_shutdown_after.is_some() {
        st.class("workloads-with-pool-shutdown");
    }
    let unfinished = a.started.saturating_sub(a.completed) - if res.failure.is_some() { 1 } else { 0 }.min(a.started.saturating_sub(a.completed));
    if unfinished > 0 {
        for _ in 0..unfinished {
            st.discard("execution-abandoned-at-step-bound");
        }
    }
    if a.execs_with_busy_timeout > 0 {
        let n = a.execs_with_busy_timeout;
        st.nontrivial(&(w, "busy-timeout"), || {
            json!({"workload": w, "executions_with_a_timeout_firing_while_a_submission_was_in_flight": n})
        });
    }
    if let Some(c) = res.failure {
        let (sig, detail) = classify(&c);
        return Err(Fail::new(
            sig,
            format!(
                "{detail}\nworkload: {}\nschedule (shuttle encoding): {}",
                serde_json::to_string(w).unwrap_or_default(),
                c.schedule.unwrap_or_else(|| "<none>".into())
            ),
        ));
    }
    Ok(())
}

pub fn run(ctx: &Ctx, report: &mut Report) {
    report.rule = "workloads with at least one schedule in which a condition-variable timeout fired while a submission or an accepted task was in flight".to_string();
    report.assumptions = vec![
        "src/thread.rs is compiled unmodified except for its three `use std::{sync,thread,time}` lines, which point at harness/qshuttle/vshim.rs".to_string(),
        "interleavings are explored at synchronisation operations (mutex, condvar, spawn, join), which is where safe Rust code can interact".to_string(),
        "evaluations = completed shuttle executions (one schedule each)".to_string(),
    ];
    let schedules: u16 = ctx.tier.pick(60, 250) as u16;
    let cases = ctx.tier.pick(640, 9600);
    run_prop(
        ctx,
        report,
        PropSpec { name: "pool-ledger", cases, max_shrink_iters: 300 },
        || workload(schedules),
        oracle,
    );
}

pub fn replay(_check: &str, case: &serde_json::Value) -> Verdict {
    replay_case::<Workload, _>(case, oracle)
}
