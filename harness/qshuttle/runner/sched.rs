//! Running a closure under many shuttle schedules and capturing the first
//! failure together with the schedule that produced it.

use std::cell::RefCell;
use std::panic::{self, AssertUnwindSafe};

use serde::{Deserialize, Serialize};
use shuttle::scheduler::{PctScheduler, RandomScheduler, ReplayScheduler};
use shuttle::{Config, FailurePersistence, MaxSteps, Runner};

#[derive(Clone, Debug)]
pub struct Captured {
    pub message: String,
    pub location: String,
    /// shuttle's encoded schedule (pass to `Sched::Replay`), when the panic
    /// happened inside an execution
    pub schedule: Option<String>,
}

thread_local! {
    static FIRST: RefCell<Option<Captured>> = const { RefCell::new(None) };
}

/// Chains a hook in front of the framework's that remembers the *first* panic
/// of an exploration and the schedule at that moment.  Must be installed
/// before the first shuttle run (shuttle wraps whatever hook it finds then).
pub fn install_schedule_capture() {
    let prev = panic::take_hook();
    panic::set_hook(Box::new(move |info| {
        FIRST.with(|f| {
            let mut f = f.borrow_mut();
            if f.is_none() {
                let message = if let Some(s) = info.payload().downcast_ref::<&str>() {
                    s.to_string()
                } else if let Some(s) = info.payload().downcast_ref::<String>() {
                    s.clone()
                } else {
                    "<non-string panic>".to_string()
                };
                let location = info.location().map(|l| format!("{}:{}", l.file(), l.line())).unwrap_or_default();
                // (ExecutionState may be borrowed when shuttle itself panics, e.g. on a
                // deadlock, so only the separate schedule thread-local is consulted.)
                let schedule = if shuttle_engine::runtime::execution::CurrentSchedule::len() > 0 {
                    let s = shuttle_engine::runtime::execution::CurrentSchedule::get_schedule();
                    Some(shuttle_engine::scheduler::serialization::serialize_schedule(&s))
                } else {
                    None
                };
                if std::env::var("VERIF_PANIC_BT").is_ok() {
                    eprintln!("first panic: {message} at {location}\n{}", std::backtrace::Backtrace::force_capture());
                }
                *f = Some(Captured { message, location, schedule });
            }
        });
        prev(info);
    }));
}

#[derive(Clone, Debug, Serialize, Deserialize, PartialEq, Eq, Hash)]
pub enum Sched {
    Random,
    /// PCT with the given depth
    Pct(u8),
}

pub struct Explored {
    pub failure: Option<Captured>,
}

fn config(max_steps: usize, stack: usize) -> Config {
    let mut c = Config::new();
    c.failure_persistence = FailurePersistence::None;
    // An execution that exceeds the step bound is abandoned silently (an
    // unfair schedule spinning in a harness wait loop is not a violation);
    // the callers count completed executions themselves.
    c.max_steps = MaxSteps::ContinueAfter(max_steps);
    c.stack_size = stack;
    c
}

/// Runs `f` under `iterations` schedules of the given scheduler.
pub fn explore<F>(kind: &Sched, seed: u64, iterations: usize, max_steps: usize, stack: usize, f: F) -> Explored
where
    F: Fn() + Send + Sync + 'static,
{
    FIRST.with(|c| *c.borrow_mut() = None);
    let cfg = config(max_steps, stack);
    let r = panic::catch_unwind(AssertUnwindSafe(|| match kind {
        Sched::Random => Runner::new(RandomScheduler::new_from_seed(seed, iterations), cfg).run(f),
        Sched::Pct(d) => Runner::new(PctScheduler::new_from_seed(seed, (*d).max(1) as usize, iterations), cfg).run(f),
    }));
    finish(r.is_err())
}

/// Replays one encoded schedule.
#[allow(dead_code)]
pub fn replay<F>(schedule: &str, max_steps: usize, stack: usize, f: F) -> Explored
where
    F: Fn() + Send + Sync + 'static,
{
    FIRST.with(|c| *c.borrow_mut() = None);
    let cfg = config(max_steps, stack);
    let r = panic::catch_unwind(AssertUnwindSafe(|| {
        Runner::new(ReplayScheduler::new_from_encoded(schedule), cfg).run(f)
    }));
    finish(r.is_err())
}

fn finish(panicked: bool) -> Explored {
    let first = FIRST.with(|c| c.borrow_mut().take());
    if panicked {
        Explored {
            failure: Some(first.unwrap_or(Captured {
                message: "panic without a message".to_string(),
                location: String::new(),
                schedule: None,
            })),
        }
    } else {
        Explored { failure: None }
    }
}

/// Folds the numbers of the OS-thread stress run (written by `vcheck <ID>S`,
/// see harness/vchecks/src/checks/stress.rs) into the property's evidence.
pub fn fold_stress(id: &str, report: &mut crate::fw::Report) {
    let path = format!("/verif/.work/stress-{id}.json");
    let Ok(text) = std::fs::read_to_string(&path) else {
        report.assumptions.push("no OS-thread stress numbers were available for this run".to_string());
        return;
    };
    let Ok(v) = serde_json::from_str::<serde_json::Value>(&text) else { return };
    report.stats.evals(v["evaluations"].as_u64().unwrap_or(0));
    if let Some(classes) = v["classes"].as_object() {
        for (k, n) in classes {
            report.stats.class_n(&format!("os-thread-stress: {k}"), n.as_u64().unwrap_or(0));
        }
    }
    if let Some(d) = v["discarded"].as_object() {
        for (k, n) in d {
            for _ in 0..n.as_u64().unwrap_or(0).min(1000) {
                report.stats.discard(&format!("os-thread-stress: {k}"));
            }
        }
    }
    report.stats.extra.insert("os_thread_stress".to_string(), v);
    let _ = std::fs::remove_file(&path);
}

/// Splits "ORACLE[sig]: detail" (the format the harness closures panic with).
pub fn oracle_parts(message: &str) -> Option<(String, String)> {
    let rest = message.strip_prefix("ORACLE[")?;
    let end = rest.find("]: ")?;
    Some((rest[..end].to_string(), rest[end + 3..].to_string()))
}

/// Signature and description of a captured failure.
pub fn classify(c: &Captured) -> (String, String) {
    if let Some((sig, detail)) = oracle_parts(&c.message) {
        return (sig, detail);
    }
    if c.message.starts_with("deadlock!") {
        return ("deadlock".to_string(), c.message.clone());
    }
    let desc = format!("panic at {}: {}", c.location, c.message);
    (crate::fw::panic_signature(&desc), desc)
}
