//! C28 — response rate limiting counts correctly under concurrent requests.
//!
//! Domain: proptest workloads (2-4 threads x 1-4 identical UDP queries, limit
//! rate x window in 1..=6, slip 0/1/2, table size 1/3/64, NOERROR / NXDOMAIN /
//! error streams) x shuttle schedules of src/server/rrl.rs and
//! src/server/mod.rs running over the shim's Mutex / RwLock.  The logical
//! clock does not advance, so all requests fall within one second.
//! Oracle: full responses sent = min(requests, limit); every other request is
//! limited (no response, or a truncated response with no records).

use std::net::{IpAddr, Ipv4Addr};
use std::sync::atomic::{AtomicU64, Ordering};
use std::sync::{Arc, Mutex};

use proptest::prelude::*;
use quandary::server::{ReceivedInfo, Response, RrlParams, Server, Transport};
use quandary::vshim;
use serde::{Deserialize, Serialize};
use serde_json::json;
use vmodel::rdata as mr;

use crate::fw::{replay_case, run_prop, Ctx, Fail, PropSpec, Report, Stats, Verdict};
use crate::sched::{classify, explore, Sched};
use crate::zone::{catalog_of, name, query, Cat, ZoneBuilder};

#[derive(Clone, Debug, Serialize, Deserialize, PartialEq, Eq, Hash)]
pub struct Workload {
    /// requests per thread
    pub threads: Vec<u8>,
    pub rate: u32,
    pub window: u32,
    pub slip: usize,
    pub size: usize,
    /// 0 NOERROR answer, 1 NXDOMAIN, 2 REFUSED (error category)
    pub category: u8,
    /// a second stream (other source network) interleaved by one more thread
    pub other_stream: u8,
    pub sched: Sched,
    pub sched_seed: u64,
    pub schedules: u16,
    /// requests of another stream (other source network) handled one after the other *before* the
    /// threads start: the table then holds a used, possibly saturated bucket of that stream, which the
    /// threads' stream takes over when the two collide (certain with a table of one bucket)
    #[serde(default)]
    pub prelude: u8,
}

pub fn workload(schedules: u16) -> impl Strategy<Value = Workload> {
    (
        prop::collection::vec(1u8..=4, 2..=4),
        1u32..=3,
        1u32..=2,
        prop_oneof![Just(0usize), Just(1usize), Just(2usize)],
        prop_oneof![Just(1usize), Just(3usize), Just(64usize)],
        0u8..4,
        prop_oneof![3 => Just(0u8), 1 => 1u8..=3],
        prop_oneof![3 => Just(Sched::Random), 1 => (1u8..5).prop_map(Sched::Pct)],
        any::<u64>(),
        prop_oneof![2 => Just(0u8), 1 => 1u8..=3, 2 => 6u8..=8],
    )
        .prop_map(move |(threads, rate, window, slip, size, category, other_stream, sched, sched_seed, prelude)| Workload {
            threads,
            rate,
            window,
            slip,
            size,
            category,
            other_stream,
            sched,
            sched_seed,
            schedules,
            prelude,
        })
}

fn catalog() -> Arc<Cat> {
    let apex = name("rl.test.");
    let mut z = ZoneBuilder::new(&apex);
    z.soa(&apex, 300, 1, 300);
    let mut ns = apex.child(b"ns").wire();
    z.add(&apex, mr::T_NS, 300, &ns);
    ns.clear();
    z.add(&apex.child(b"ns"), mr::T_A, 300, &[192, 0, 2, 1]);
    z.add(&apex.child(b"www"), mr::T_A, 300, &[192, 0, 2, 2]);
    // 40 addresses: the answer does not fit a UDP response without EDNS (TC, no records)
    for i in 0..40u8 {
        z.add(&apex.child(b"big"), mr::T_A, 300, &[198, 18, 0, i]);
    }
    catalog_of(vec![z.finish()])
}

#[derive(Default)]
struct Agg {
    started: u64,
    completed: u64,
    contended: u64,
    limited: u64,
    sent: u64,
}

#[derive(Clone, Copy, PartialEq, Eq, Debug)]
enum Seen {
    Full,
    Slipped,
    Dropped,
}

fn oracle_fail(sig: &str, detail: &str) -> ! {
    panic!("ORACLE[{sig}]: {detail}");
}

fn execution(w: &Workload, cat: &Arc<Cat>, agg: &Arc<Mutex<Agg>>) {
    agg.lock().unwrap().started += 1;
    vshim::exec::begin(Vec::new());
    let mut server = Server::new(cat.clone());
    let mut params = RrlParams::new(w.rate, w.rate, w.rate, w.window).expect("rrl params");
    params.set_slip(w.slip);
    params.set_size(w.size).expect("rrl size");
    server.set_rrl_params(Some(params));
    let server = Arc::new(server);
    let limit = (w.rate * w.window) as u64;

    // a response that is truncated anyway looks like a slipped one: counted only with slip 0
    let category = if w.category == 3 && w.slip != 0 { 0 } else { w.category };
    let (qname, qtype) = match category {
        3 => (name("big.rl.test."), mr::T_A),
        0 => (name("www.rl.test."), mr::T_A),
        1 => (name("missing.rl.test."), mr::T_A),
        _ => (name("www.elsewhere.test."), mr::T_A),
    };
    let expected_rcode = match category {
        0 | 3 => 0u8,
        1 => 3,
        _ => 5,
    };
    let request = Arc::new(query(0x2801, &qname, qtype, false));
    // (stream, outcome) per request
    let outcomes: Arc<Mutex<Vec<(u8, Seen)>>> = Arc::new(Mutex::new(Vec::new()));
    // number of requests currently between "about to call handle_message" and "returned"
    let inside = Arc::new(AtomicU64::new(0));
    let overlapped = Arc::new(AtomicU64::new(0));

    // the prelude: another network's stream, sequentially, finished before any thread starts
    {
        let mut buf = vec![0u8; 1232];
        for _ in 0..w.prelude {
            let _ = server.handle_message(&request, ReceivedInfo::new(IpAddr::V4(Ipv4Addr::new(192, 0, 2, 77)), Transport::Udp), &mut buf);
        }
    }
    let mut plan: Vec<(u8, u8)> = w.threads.iter().map(|n| (0u8, *n)).collect();
    if w.other_stream > 0 {
        plan.push((1, w.other_stream));
    }
    let mut handles = Vec::new();
    for (stream, n) in plan {
        let server = server.clone();
        let request = request.clone();
        let outcomes = outcomes.clone();
        let inside = inside.clone();
        let overlapped = overlapped.clone();
        handles.push(shuttle::thread::spawn(move || {
            // same /24 for stream 0 (different hosts), another network for stream 1
            let source = if stream == 0 {
                IpAddr::V4(Ipv4Addr::new(198, 51, 100, 7))
            } else {
                IpAddr::V4(Ipv4Addr::new(203, 0, 113, 9))
            };
            let mut buf = vec![0u8; 1232];
            for _ in 0..n {
                if inside.fetch_add(1, Ordering::SeqCst) > 0 {
                    overlapped.fetch_add(1, Ordering::SeqCst);
                }
                let r = server.handle_message(&request, ReceivedInfo::new(source, Transport::Udp), &mut buf);
                inside.fetch_sub(1, Ordering::SeqCst);
                let seen = match r {
                    Response::None => Seen::Dropped,
                    Response::Single(len) => {
                        let d = match vmodel::wire::decode_message(&buf[..len]) {
                            Ok(d) => d,
                            Err(e) => oracle_fail("response-does-not-decode", &format!("{e:?}")),
                        };
                        if d.header.tc && category == 3 {
                            // the stream's ordinary response (slip is 0: nothing is slipped)
                            Seen::Full
                        } else if d.header.tc {
                            if !d.answers.is_empty() || !d.authority.is_empty() {
                                oracle_fail("slipped-response-carries-records", &format!("{d:?}"));
                            }
                            Seen::Slipped
                        } else {
                            if d.header.rcode != expected_rcode {
                                oracle_fail(
                                    "unexpected-rcode",
                                    &format!("RCODE {} where {} was expected", d.header.rcode, expected_rcode),
                                );
                            }
                            Seen::Full
                        }
                    }
                };
                outcomes.lock().unwrap().push((stream, seen));
            }
        }));
    }
    for h in handles {
        h.join().expect("request thread panicked");
    }

    let outcomes = outcomes.lock().unwrap().clone();
    let mut total_limited = 0;
    let mut total_sent = 0;
    // With a table of one bucket the two streams evict each other (documented:
    // "new entries replace old ones when hashes collide"), so the count per
    // stream is only exact when the streams cannot share a bucket.
    let exact = w.other_stream == 0;
    for stream in 0u8..2 {
        let mine: Vec<Seen> = outcomes.iter().filter(|(s, _)| *s == stream).map(|(_, o)| *o).collect();
        if mine.is_empty() {
            continue;
        }
        let n = mine.len() as u64;
        let full = mine.iter().filter(|o| **o == Seen::Full).count() as u64;
        let slipped = mine.iter().filter(|o| **o == Seen::Slipped).count() as u64;
        let dropped = mine.iter().filter(|o| **o == Seen::Dropped).count() as u64;
        total_sent += full;
        total_limited += slipped + dropped;
        let what = format!(
            "stream {stream}: {n} requests, limit {limit}: {full} full responses, {slipped} slipped, {dropped} dropped (slip = {})",
            w.slip
        );
        if exact {
            if full != n.min(limit) {
                oracle_fail(if full > n.min(limit) { "more-responses-than-the-limit" } else { "fewer-responses-than-the-limit" }, &what);
            }
        } else if full < n.min(limit) {
            // eviction can only reset a bucket, i.e. allow more, never fewer
            oracle_fail("fewer-responses-than-the-limit", &what);
        }
        if w.slip == 0 && slipped > 0 {
            oracle_fail("slipped-with-slip-0", &what);
        }
        if w.slip == 1 && dropped > 0 {
            oracle_fail("dropped-with-slip-1", &what);
        }
    }

    let mut a = agg.lock().unwrap();
    a.completed += 1;
    if overlapped.load(Ordering::SeqCst) > 0 {
        a.contended += 1;
    }
    a.limited += total_limited;
    a.sent += total_sent;
}

const MAX_STEPS: usize = 50_000;
const STACK: usize = 0x40000;

pub fn oracle(w: &Workload, st: &mut Stats) -> Verdict {
    let agg = Arc::new(Mutex::new(Agg::default()));
    let cat = catalog();
    let res = {
        let w2 = w.clone();
        let agg2 = agg.clone();
        explore(&w.sched, w.sched_seed, w.schedules.max(1) as usize, MAX_STEPS, STACK, move || execution(&w2, &cat, &agg2))
    };
    let a = agg.lock().unwrap();
    st.evals(a.completed);
    st.class_n("executions-completed", a.completed);
    st.class_n("executions-with-overlapping-handle_message-calls", a.contended);
    st.class_n("responses-sent", a.sent);
    st.class_n("responses-limited", a.limited);
    st.class(match w.slip {
        0 => "workloads-slip-0",
        1 => "workloads-slip-1",
        _ => "workloads-slip-2",
    });
    st.class(match if w.category == 3 && w.slip != 0 { 0 } else { w.category } {
        3 => "workloads-stream-of-truncated-responses",
        0 => "workloads-noerror-stream",
        1 => "workloads-nxdomain-stream",
        _ => "workloads-error-stream",
    });
    if w.prelude as u32 >= w.rate * w.window {
        st.class("workloads-after-a-saturated-stream-of-another-network");
    }
    if w.other_stream > 0 {
        st.class("workloads-with-a-second-stream");
    }
    let total: u64 = w.threads.iter().map(|n| *n as u64).sum();
    if a.contended > 0 && total > (w.rate * w.window) as u64 {
        st.nontrivial(&(w, "contended"), || {
            json!({"workload": w, "executions_with_overlapping_calls": a.contended, "requests": total, "limit": w.rate * w.window})
        });
    }
    let mut unfinished = a.started.saturating_sub(a.completed);
    if res.failure.is_some() && unfinished > 0 {
        unfinished -= 1;
    }
    for _ in 0..unfinished {
        st.discard("execution-abandoned-at-step-bound");
    }
    if let Some(c) = res.failure {
        let (sig, detail) = classify(&c);
        return Err(Fail::new(
            sig,
            format!(
                "{detail}\nworkload: {}\nschedule (shuttle encoding): {}",
                serde_json::to_string(w).unwrap_or_default(),
                c.schedule.unwrap_or_else(|| "<none>".into())
            ),
        ));
    }
    Ok(())
}

pub fn run(ctx: &Ctx, report: &mut Report) {
    report.rule = "workloads with more requests than the limit in which at least one schedule had two handle_message calls in progress at the same time".to_string();
    report.assumptions = vec![
        "src/server/rrl.rs and src/server/mod.rs are compiled unmodified except for their `use std::sync` / `use std::time` lines, which point at harness/qshuttle/vshim.rs".to_string(),
        "the logical clock is frozen, so all requests of an execution fall within one second".to_string(),
        "with a second stream and a small table the streams may evict each other's bucket (documented behaviour); then only 'at least min(requests, limit)' is checked for each stream".to_string(),
        "evaluations = completed shuttle executions (one schedule each)".to_string(),
    ];
    let schedules: u16 = ctx.tier.pick(80, 300) as u16;
    let cases = ctx.tier.pick(3200, 40_000);
    run_prop(
        ctx,
        report,
        PropSpec { name: "rrl-concurrent-count", cases, max_shrink_iters: 300 },
        || workload(schedules),
        oracle,
    );
    crate::sched::fold_stress("C28", report);
}

pub fn replay(_check: &str, case: &serde_json::Value) -> Verdict {
    replay_case::<Workload, _>(case, oracle)
}
