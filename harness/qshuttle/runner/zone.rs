//! Small helpers shared by C28 and C32: building catalogs through quandary's
//! own API (inside the generated crate), requests through vmodel's encoder,
//! and an independent TSIG signer.

use std::sync::Arc;

use quandary::class::Class;
use quandary::db::catalog::Entry;
use quandary::db::zone::GluePolicy;
use quandary::db::{HashMapTreeCatalog, HashMapTreeZone};
use quandary::name::Name;
use quandary::rr::{Rdata, Ttl, Type};
use vmodel::name::MName;
use vmodel::rdata as mr;
use vmodel::tsig::{self as mt, Alg};
use vmodel::wire::Builder;

pub type Cat = HashMapTreeCatalog<HashMapTreeZone, ()>;

pub fn name(text: &str) -> MName {
    MName::parse_text(text).unwrap_or_else(|| panic!("bad name {text}"))
}

pub fn qn(m: &MName) -> Box<Name> {
    Name::try_from_uncompressed_all(&m.wire()).unwrap()
}

pub struct ZoneBuilder {
    zone: HashMapTreeZone,
}

impl ZoneBuilder {
    pub fn new(apex: &MName) -> Self {
        ZoneBuilder {
            zone: HashMapTreeZone::new(qn(apex), Class::from(1u16), GluePolicy::Narrow),
        }
    }

    pub fn add(&mut self, owner: &MName, rtype: u16, ttl: u32, rdata: &[u8]) {
        let rd: &Rdata = rdata.try_into().expect("rdata too long");
        self.zone
            .add(&qn(owner), Type::from(rtype), Class::from(1u16), Ttl::from(ttl), rd)
            .expect("zone add");
    }

    pub fn soa(&mut self, apex: &MName, ttl: u32, serial: u32, minimum: u32) {
        let mut rd = apex.child(b"ns").wire();
        rd.extend_from_slice(&apex.child(b"hostmaster").wire());
        for v in [serial, 3600, 600, 86400, minimum] {
            rd.extend_from_slice(&v.to_be_bytes());
        }
        self.add(apex, mr::T_SOA, ttl, &rd);
    }

    pub fn finish(self) -> Arc<HashMapTreeZone> {
        Arc::new(self.zone)
    }
}

pub fn catalog_of(zones: Vec<Arc<HashMapTreeZone>>) -> Arc<Cat> {
    let mut c: Cat = HashMapTreeCatalog::new();
    for z in zones {
        c.insert(Entry::Loaded(z, ()));
    }
    Arc::new(c)
}

/// A plain query (RD clear), optionally with an OPT record advertising 4096 octets.
pub fn query(id: u16, qname: &MName, qtype: u16, edns: bool) -> Vec<u8> {
    let mut b = Builder::new(id, 0);
    b.question(qname, qtype, 1);
    if edns {
        b.rr(3, &MName::root(), mr::T_OPT, 4096, 0, &[]);
    }
    b.buf
}

pub struct Signed {
    pub bytes: Vec<u8>,
    pub mac: Vec<u8>,
}

/// Appends a TSIG RR computed by the independent RFC 8945 composition.
pub fn sign(msg: &[u8], key_name: &MName, alg: Alg, secret: &[u8], time: u64, fudge: u16) -> Signed {
    let id = u16::from_be_bytes([msg[0], msg[1]]);
    let mut with_count = msg.to_vec();
    let ar = u16::from_be_bytes([with_count[10], with_count[11]]).wrapping_add(1);
    with_count[10..12].copy_from_slice(&ar.to_be_bytes());
    let vars = mt::Vars {
        key_name: key_name.clone(),
        alg_name: alg.name(),
        time_signed: time,
        fudge,
        error: 0,
        other: Vec::new(),
    };
    let mac = mt::hmac(alg, secret, &mt::request_digest_input(&with_count, id, &vars));
    let rd = mr::encode_tsig(&mr::TsigRdata {
        algorithm: alg.name(),
        time_signed: time,
        fudge,
        mac: mac.clone(),
        original_id: id,
        error: 0,
        other: Vec::new(),
    });
    let mut bytes = with_count;
    bytes.extend_from_slice(&key_name.wire());
    bytes.extend_from_slice(&mr::T_TSIG.to_be_bytes());
    bytes.extend_from_slice(&255u16.to_be_bytes());
    bytes.extend_from_slice(&0u32.to_be_bytes());
    bytes.extend_from_slice(&(rd.len() as u16).to_be_bytes());
    bytes.extend_from_slice(&rd);
    Signed { bytes, mac }
}

/// Verifies the TSIG RR of a response (the last record) against `secret`:
/// Some(true/false) when the response carries a MAC, None when the MAC is empty.
pub fn response_mac_ok(resp: &[u8], request_mac: &[u8], key_name: &MName, alg: Alg, secret: &[u8]) -> Option<bool> {
    let d = vmodel::wire::decode_message_opts(resp, true).ok()?;
    let t = d.tsig()?;
    let rd = mr::parse_tsig(&t.rdata)?;
    if rd.mac.is_empty() {
        return None;
    }
    let without = &resp[..t.start];
    let vars = mt::Vars {
        key_name: key_name.clone(),
        alg_name: rd.algorithm.clone(),
        time_signed: rd.time_signed,
        fudge: rd.fudge,
        error: rd.error,
        other: rd.other.clone(),
    };
    let id = rd.original_id;
    let expect = mt::hmac(alg, secret, &mt::response_digest_input(request_mac, without, id, &vars));
    Some(expect == rd.mac)
}
