#!/bin/bash
# Regenerates src-gen/ from /repo's working tree.
#
# The copy is byte-identical to /repo/src except that in the three files that
# contain the concurrency the properties C28, C29 and C32 are about, every
# path token `std::sync::`, `std::thread::` / `std::thread;` and `std::time::`
# is redirected to crate::vshim, and lib.rs gets one appended line declaring
# the shim module.  The script fails (exit 2) if one of the three files ends
# up without any reference to the shim, so the engine can never silently
# explore code that does not go through shuttle.
set -u
HERE=$(cd "$(dirname "$0")" && pwd)
SRC=${QUANDARY_SRC:-/repo/src}
GEN=$HERE/src-gen
FILES="thread.rs server/mod.rs server/rrl.rs"

mkdir -p "$GEN"
TMP=$(mktemp -d "$HERE/.gen.XXXXXX") || exit 2
trap 'rm -rf "$TMP"' EXIT
rsync -a --delete --exclude 'bin/' "$SRC/" "$TMP/" || { echo "INFRA: cannot copy $SRC" >&2; exit 2; }

for f in $FILES; do
    if [ ! -f "$TMP/$f" ]; then
        echo "INFRA: $SRC/$f does not exist; the qshuttle transform needs updating" >&2
        exit 2
    fi
    sed -E -i \
        -e 's/\bstd::sync::/crate::vshim::sync::/g' \
        -e 's/\bstd::thread::/crate::vshim::thread::/g' \
        -e 's/\buse std::thread;/use crate::vshim::thread;/g' \
        -e 's/\bstd::time::/crate::vshim::time::/g' \
        "$TMP/$f"
    if ! grep -q 'crate::vshim::' "$TMP/$f"; then
        echo "INFRA: $f has no reference to the shim after the transform" >&2
        exit 2
    fi
done
printf '\n#[path = "../vshim.rs"]\npub mod vshim;\n' >>"$TMP/lib.rs"

# only touch src-gen when something changed, so cargo does not rebuild needlessly
rsync -rl --delete --checksum "$TMP/" "$GEN/" || exit 2
exit 0
